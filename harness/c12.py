"""C12 — compiled GP trees compute what the prefix tree denotes; printing round-trips (deap/gp.py).

Oracle (independent of the Coq model): a recursive-descent interpreter over the node list that uses
its own registry of functions / named values / argument positions (not pset.context, not str()),
an independent recursive printer, and the round trip through PrimitiveTree.from_string.
Correspondence: node lists, observed strings, from_string results, compiled values, compileADF values
and renameArguments states are recomputed by coq/Corr/C12.v.
"""
import copy
import functools
import glob
import itertools
import json
import math
import os
import operator
import random as pyrandom
import re
import time
import warnings

import vlib
from vlib import cz, czl, cnat, cnatl, cbool, clist, copt, cstr

MAX_COQ_NODES = 260        # larger trees are only checked by the Python differential
GEN = os.path.join(vlib.COQ, "Gen", "C12_gen.v")


def regen(repo=None, typecheck=True):
    """Tie (T): regenerate coq/Gen/C12_gen.v from the working tree's deap/gp.py (harness/c12_py2coq.py).
    A function the translator refuses is emitted as the hand model; so is one whose generated definition does not
    type-check (the translator must never make the build fail on a source it did not understand).
    Returns (ok, message, status) -- status: regenerated definition -> None (translated) | Refuse."""
    import c12_py2coq
    repo = repo or vlib.REPO
    forced = {}
    status = {}
    for _ in range(len(c12_py2coq.gen_names()) + 1):
        try:
            text, status = c12_py2coq.translate_repo(repo, forced)
        except Exception as e:  # noqa  (a translator crash is a refusal of everything: fail closed)
            r = c12_py2coq.Refuse("Module", "translator error %s: %s" % (type(e).__name__, e))
            text, status = c12_py2coq.translate_source("\x00")      # does not parse: all placeholders
            status = {k: r for k in status}
        with vlib.BuildLock():
            os.makedirs(os.path.dirname(GEN), exist_ok=True)
            old = open(GEN).read() if os.path.exists(GEN) else None
            if old != text:
                with open(GEN, "w") as f:
                    f.write(text)
        if not typecheck or all(v is not None for v in status.values()):
            break
        ok, out = vlib.make_targets(["Gen/C12_gen.vo"], timeout=1200)
        for attempt in range(2):
            if ok or "Error" in out:
                break
            time.sleep(10)                       # make died without a Coq error (killed): not a verdict
            ok, out = vlib.make_targets(["Gen/C12_gen.vo"], timeout=1200)
        if ok:
            break
        m = re.search(r'File "\./Gen/C12_gen\.v", line (\d+)', out)
        if not m:
            break                                # the failure is elsewhere: reported by build_props
        line = int(m.group(1))
        culprit = None
        for k, l in enumerate(text.splitlines(), 1):
            d = re.match(r"Definition (gen_\w+)", l)
            if d and k <= line:
                culprit = d.group(1)
        if culprit is None or culprit in forced or status.get(culprit, 1) is not None:
            break
        forced[culprit] = c12_py2coq.Refuse("FunctionDef", "the generated definition does not type-check: %s"
                                            % " ".join(out[m.end():m.end() + 300].split()))
    done = [k for k, v in status.items() if v is None]
    refused = ["%s (%s)" % (k, v) for k, v in status.items() if v is not None]
    msg = "regenerated: %s" % (", ".join(done) or "nothing")
    if refused:
        msg += "; translator refused: " + "; ".join(refused)
    return bool(done), msg, status


# ----------------------------------------------------------------------------
# interpretable functions (name -> (python callable, Coq op))
# ----------------------------------------------------------------------------
def _pdiv(a, b):
    return 1 if b == 0 else a // b


def _ite(c, a, b):
    return a if c else b


def _sum3(a, b, c):
    return a + b + c


def _fpdiv(a, b):
    return 1.0 if b == 0 else a / b


def _cat(a, b):
    return a + b


def _rep(a, n):
    return a * (abs(n) % 3)


def _not(a):
    return not a


def _land(a, b):
    return a & b


def _lor(a, b):
    return a | b


def _lt(a, b):
    return a < b


def _eq(a, b):
    return a == b


def _tdiv(a, b):
    return a / b if b != 0 else a


def _flo(a, b):
    return a // b if b != 0 else a


def _csign(a, b):
    return math.copysign(a, b)


def _kind(x):
    return 2 if type(x) is bool else 1 if type(x) is int else 0


def _rlen(x):
    return len(repr(x))


FUNCS = {
    "add": (operator.add, "OpAdd"), "sub": (operator.sub, "OpSub"), "mul": (operator.mul, "OpMul"),
    "neg": (operator.neg, "OpNeg"), "max2": (max, "OpMax"), "min2": (min, "OpMin"),
    "pdiv": (_pdiv, "OpPdiv"), "fdiv": (operator.floordiv, "OpFloorDiv"), "ite": (_ite, "OpIte"),
    "lt": (_lt, "OpLt"), "eq": (_eq, "OpEq"), "and_": (_land, "OpAnd"), "or_": (_lor, "OpOr"),
    "not_": (_not, "OpNot"), "sum3": (_sum3, "OpSum3"),
}


class UA(object):
    """user GP type (a label)"""


class UB(UA):
    """subclass label"""


TYPE_IDS = {object: 0, int: 1, float: 2, bool: 3, str: 4, UA: 5, UB: 6}
SUBS = [(TYPE_IDS[a], TYPE_IDS[b]) for a in TYPE_IDS for b in TYPE_IDS if issubclass(a, b)]
C_SUBS = clist(["(%s, %s)" % (cnat(a), cnat(b)) for a, b in SUBS])


def c_cst(v):
    if isinstance(v, bool):
        return "(CBool %s)" % cbool(v)
    if isinstance(v, int):
        return "(CInt %s)" % cz(v)
    if isinstance(v, float):
        return "(CLit %s 2%%nat)" % cstr(repr(v))
    if isinstance(v, str):
        return "(CLit %s 4%%nat)" % cstr(repr(v))
    raise ValueError("constant outside the model: %r" % (v,))


class Unsupported(Exception):
    pass


class Spec(object):
    """A primitive set together with the harness' own record of what its names mean."""

    tuple_sigs = False       # typed sets: signatures handed over as tuples instead of lists (both are sequences of types)

    def __init__(self, gp, name, in_types, ret, typed, prefix="ARG", tuple_sigs=False):
        self.gp = gp
        self.typed = typed
        self.tuple_sigs = tuple_sigs
        if typed:
            self.pset = gp.PrimitiveSetTyped(name, tuple(in_types) if tuple_sigs else in_types, ret, prefix)
        else:
            self.pset = gp.PrimitiveSet(name, len(in_types), prefix)
        self.name = name
        self.nargs = len(in_types)
        self.argterms = [self.pset.mapping[a] for a in self.pset.arguments]
        self.funcs = {}      # primitive name -> callable (independent registry)
        self.ops = {}        # name -> Coq op term, when interpretable over Z
        self.values = {}     # named terminal -> value
        self.adfs = {}       # ADF primitive name -> Spec
        self.zeval = True    # every function / constant interpretable over Z
        self.label = name

    # -- building ------------------------------------------------------------
    def prim(self, fname, in_types=None, ret=None, name=None):
        f, op = FUNCS[fname]
        nm = name or fname
        if self.typed:
            self.pset.addPrimitive(f, tuple(in_types) if self.tuple_sigs else in_types, ret, name=nm)
        else:
            self.pset.addPrimitive(f, len(in_types) if isinstance(in_types, (list, tuple)) else in_types, name=nm)
        self.funcs[nm] = f
        self.ops[nm] = op

    def pyprim(self, f, in_types, ret, name):
        """a Python-only function (not interpretable over Z); in_types is an arity for untyped sets"""
        if self.typed:
            self.pset.addPrimitive(f, in_types, ret, name=name)
        else:
            self.pset.addPrimitive(f, in_types, name=name)
        self.funcs[name] = f
        self.zeval = False

    def rawprim(self, f, in_types, ret, name, op=None):
        """typed sets only (also arity 0)"""
        self.pset.addPrimitive(f, tuple(in_types) if self.tuple_sigs else in_types, ret, name=name)
        self.funcs[name] = f
        if op is None:
            self.zeval = False
        else:
            self.ops[name] = op

    def const(self, v, ret=None):
        if self.typed:
            self.pset.addTerminal(v, ret)
        else:
            self.pset.addTerminal(v)
        if not isinstance(v, int):
            self.zeval = False

    def named(self, v, name, ret=None):
        if self.typed:
            self.pset.addTerminal(v, ret, name=name)
        else:
            self.pset.addTerminal(v, name=name)
        self.values[name] = v
        if isinstance(v, int):
            self.ops[name] = "(OpVal %s)" % cz(int(v))
        else:
            self.zeval = False

    def eph(self, name, fn, ret=None, zok=True):
        with warnings.catch_warnings():
            warnings.simplefilter("ignore")
            if self.typed:
                self.pset.addEphemeralConstant(name, fn, ret)
            else:
                self.pset.addEphemeralConstant(name, fn)
        if not zok:
            self.zeval = False

    def adf(self, other):
        self.pset.addADF(other.pset)
        self.adfs[other.name] = other

    # -- reading nodes -------------------------------------------------------
    def arg_index(self, node):
        for j, a in enumerate(self.argterms):
            if node is a:
                return j
        return None

    def tid(self, t):
        if t not in TYPE_IDS:
            raise Unsupported("type %r" % (t,))
        return cnat(TYPE_IDS[t])

    def c_node(self, node):
        gp = self.gp
        if isinstance(node, gp.Primitive):
            return "(NPrim %s %s %s)" % (cstr(node.name), clist([self.tid(a) for a in node.args]), self.tid(node.ret))
        if isinstance(node, type):
            return "(NClass %s %s)" % (cstr(node.name), self.tid(node.ret))
        j = self.arg_index(node)
        if j is not None:
            return "(NArg %s %s)" % (cnat(j), self.tid(node.ret))
        if node.conv_fct is str:
            if not isinstance(node.value, str):
                raise Unsupported("symbolic terminal with non-string value")
            return "(NSym %s %s)" % (cstr(node.value), self.tid(node.ret))
        v = node.value
        if isinstance(v, float) and (v != v or v in (float("inf"), float("-inf"))):
            raise Unsupported("non-finite float")
        if not isinstance(v, (bool, int, float, str)):
            raise Unsupported("constant %r" % (v,))
        return "(NConst %s %s)" % (c_cst(v), self.tid(node.ret))

    def c_pset(self):
        m = ["(%s, %s)" % (cstr(k), self.c_node(v)) for k, v in self.pset.mapping.items()]
        return "(mkpset %s %s %s)" % (clist([cstr(a) for a in self.pset.arguments]),
                                       clist([cstr(str(t.value)) for t in self.argterms]), clist(m))

    def c_ctx(self):
        return clist(["(%s, %s)" % (cstr(k), v) for k, v in self.ops.items()])


class Defs(object):
    """Shared Coq definitions (primitive-set snapshots, contexts, node lists) for the generated shards."""

    def __init__(self):
        self.lines = []
        self.memo = {}

    def name(self, kind, text):
        key = (kind, text)
        if key not in self.memo:
            nm = "%s_%d" % (kind, len(self.memo))
            self.memo[key] = nm
            self.lines.append("Definition %s := %s." % (nm, text))
        return self.memo[key]

    def preamble(self):
        return "Open Scope string_scope.\n" + "\n".join(self.lines) + "\n"


# ----------------------------------------------------------------------------
# oracle: what a prefix tree denotes, and how it prints
# ----------------------------------------------------------------------------
class Malformed(Exception):
    pass


def interp(gp, nodes, spec, actuals, adf_trees=None):
    """Evaluate the node list directly.  adf_trees: ADF name -> (nodes, spec) ; an ADF may call the ADFs
    its own spec knows (addADF), looked up in the same table."""
    pos = [0]

    def rec():
        if pos[0] >= len(nodes):
            raise Malformed()
        node = nodes[pos[0]]
        pos[0] += 1
        if isinstance(node, gp.Primitive):
            vals = [rec() for _ in range(len(node.args))]
            if node.name in spec.funcs:
                return spec.funcs[node.name](*vals)
            if node.name in spec.adfs and adf_trees is not None and node.name in adf_trees:
                sub_nodes, sub_spec = adf_trees[node.name]
                if len(vals) != sub_spec.nargs:
                    raise Malformed()
                return interp(gp, sub_nodes, sub_spec, vals, adf_trees)
            raise Malformed()
        if isinstance(node, type):
            raise Malformed()
        j = spec.arg_index(node)
        if j is not None:
            return actuals[j]
        if node.conv_fct is str:
            return spec.values[node.value]
        return node.value

    v = rec()
    if pos[0] != len(nodes):
        raise Malformed()
    return v


def printer(gp, nodes, spec):
    """name(a1, ..., an), recursively over the prefix list."""
    pos = [0]

    def rec():
        node = nodes[pos[0]]
        pos[0] += 1
        if isinstance(node, gp.Primitive):
            return "%s(%s)" % (node.name, ", ".join([rec() for _ in range(len(node.args))]))
        j = spec.arg_index(node)
        if j is not None:
            return spec.pset.arguments[j]
        if node.conv_fct is str:
            return str(node.value)
        return repr(node.value)

    s = rec()
    if pos[0] != len(nodes):
        raise Malformed()
    return s


def well_formed(nodes):
    need = 1
    for i, n in enumerate(nodes):
        if need == 0 or isinstance(n, type):
            return False
        need += n.arity - 1
    return need == 0


def same(a, b):
    if type(a) is not type(b):
        return False
    if isinstance(a, float):
        return a.hex() == b.hex() or (a != a and b != b)
    return a == b


def guard(fn, *a):
    try:
        return ("ok", fn(*a))
    except RecursionError:
        return ("raise", "RecursionError")
    except Exception as e:  # noqa
        return ("raise", type(e).__name__)


def zval(v):
    """observed Python value -> option Z literal (ints and bools), or None when not representable"""
    if isinstance(v, bool):
        return cz(1 if v else 0)
    if isinstance(v, int):
        return cz(v)
    return None


# ----------------------------------------------------------------------------
def main(run):
    from deap import gp
    run.rule = ("primitive sets: untyped int, typed int/bool (bool<=int subclassing), float, zero-argument, arity-0 and "
                "arity-3 primitives, named terminals, ephemerals (int/float/bool), negative and float constants, strings, "
                "user-class types with a subclass, renamed arguments, ADF chains (1-3 ADFs, also one without argument). "
                "Trees: genFull/genGrow/genHalfAndHalf with 0<=min<=max<=6 and outputs of cxOnePoint, mutUniform, mutInsert, "
                "mutShrink, mutNodeReplacement, mutEphemeral; argument tuples from a grid plus random values. A case is one "
                "(set, tree, argument tuples) or one string/rename scenario; non-trivial = tree with at least one primitive.")
    run.trusted += ["Coq 8.16.1 kernel and vm_compute",
                    "hand-written model coq/Model/C12_GPPrint.v tied by correspondence (harness/c12.py)",
                    "CPython's parser/evaluator on the call-expression fragment agrees with parse_expr/eval_expr of the model "
                    "(covered by the differential run: independent prefix interpreter vs gp.compile on every generated tree)",
                    "eval(repr(v)) == v with the same type for int, bool, finite float and plain str constants",
                    "str.format with positional fields, re.split on a one-character class, dict semantics as modelled"]
    run.assumptions += ["primitive / named-terminal / argument names are Python identifiers, pairwise distinct, not keywords",
                        "terminals print without separator characters [ \\t\\n\\r\\f\\v(),] (DESIGN Appendix B 8)",
                        "constants and ephemeral values are instances of their declared type; no two different terminals print alike",
                        "arguments are renamed to fresh names",
                        "primitive functions are pure"]
    run.build_props()
    # ---- tie (T): regenerate Gen/C12_gen.v from the working tree, re-prove `regenerated = model` and the theorems
    gen_check = "check"
    gen_requires = ()
    ok, msg, status = regen()
    refused = {k: v for k, v in status.items() if v is not None}
    tie_cov = {"regenerated_functions": [k for k, v in status.items() if v is None],
               "translator_refused": {k: str(v) for k, v in refused.items()}}
    for k, v in refused.items():
        run.notes.append("tie: correspondence-only (translator refused %s at line %s in %s: %s)" % (v.node, v.line, k, v.why))
    if ok:
        gen_ok = run.build_props(props="Props/C12_gen.v")
        if gen_ok:
            gen_check = "check_both"
            gen_requires = ("From DV Require Import Gen.C12_gen.",)
            run.notes.append("tie: regenerated (%s)" % ", ".join(tie_cov["regenerated_functions"]))
            tie_cov["tie"] = ("translation (regenerated definitions proved equal to the hand model: %s) + correspondence%s"
                              % (", ".join(tie_cov["regenerated_functions"]),
                                 "; correspondence-only for " + ", ".join(sorted(refused)) if refused else ""))
            run.trusted.append("translator harness/c12_py2coq.py and its signature table (source text of deap/gp.py -> "
                               "coq/Gen/C12_gen.v) with the run-time vocabulary and object layer coq/Model/C12_GenRt.v; the "
                               "regenerated definitions are proved equal to the hand model (Proofs/C12_gen_equiv.v) and "
                               "evaluated against the implementation on every run")
        else:
            tie_cov["tie"] = "translator succeeded but the regenerated definitions are no longer (provably) the model"
            try:        # keep the offending text for the replay
                with open(os.path.join(run.rundir, "C12_gen.v.broken"), "w") as f:
                    f.write(open(GEN).read())
            except OSError:
                pass
    else:
        tie_cov["tie"] = "correspondence-only (%s)" % msg
    rng = run.rng
    defs = Defs()
    groups = {}          # group -> (terms, cases)
    saved_random = gp.random
    gp.random = pyrandom.Random(rng.getrandbits(64))

    def add(group, term, case, nontrivial=True):
        g = groups.setdefault(group, ([], []))
        g[0].append(term)
        g[1].append(case)

    stats = {"trees": 0, "coq_trees": 0, "max_nodes": 0, "max_height": 0, "evals": 0, "roundtrips": 0,
             "by_set": {}, "by_source": {}}

    # ------------------------------------------------------------------ primitive sets
    def ri(lo, hi):
        return functools.partial(gp.random.randint, lo, hi)

    def rfloat():
        return gp.random.choice([0.5, -0.25, 1.5, 0.1, -2.75, 1e-05, 3.0, -0.0, 12.125, 2.5e-06]) * gp.random.choice([1, 1, 2, -1, 10])

    def rbool():
        return gp.random.random() < 0.5

    def rstr():
        return gp.random.choice(["a", "bc", "x-y", "Q1", "z_", "#"])

    def mk_untyped(nargs, rename=None, prefix="ARG", small=False):
        s = Spec(gp, "MAIN", [object] * nargs, object, False, prefix)
        s.prim("add", 2)
        s.prim("sub", 2)
        s.prim("mul", 2)
        s.prim("neg", 1)
        if not small:
            s.prim("max2", 2)
            s.prim("pdiv", 2)
            s.prim("ite", 3)
            s.prim("sum3", 3)
        for v in (0, 1, -1, 7, -12):
            s.const(v)
        s.named(5, "five")
        s.named(-3, "m3")
        s.eph("e_int", ri(-9, 9))
        s.label = "untyped%d" % nargs
        if rename:
            s.pset.renameArguments(**rename)
            s.label += "r"
        return s

    def mk_typed(nargs_int, nargs_bool, rename=None, tuples=False):
        ins = [int] * nargs_int + [bool] * nargs_bool
        s = Spec(gp, "MAIN", ins, int, True, "IN", tuple_sigs=tuples)
        for f in ("add", "sub", "mul", "max2"):
            s.prim(f, [int, int], int)
        s.prim("neg", [int], int)
        s.prim("ite", [bool, int, int], int)
        s.prim("lt", [int, int], bool)
        s.prim("eq", [int, int], bool)
        s.prim("and_", [bool, bool], bool)
        s.prim("or_", [bool, bool], bool)
        s.prim("not_", [bool], bool)
        s.rawprim(lambda: 42, [], int, "k42", "(OpK 42)")
        for v in (0, 1, -1, 3, -20):
            s.const(v, int)
        s.const(True, bool)
        s.const(False, bool)
        s.named(100, "hundred", int)
        s.eph("e_int", ri(-5, 5), int)
        s.eph("e_bool", rbool, bool)
        s.label = "typed%d%d%s" % (nargs_int, nargs_bool, "t" if tuples else "")
        if rename:
            s.pset.renameArguments(**rename)
            s.label += "r"
        return s

    def mk_float(nargs, typed):
        s = Spec(gp, "MAIN", [float] * nargs, float, typed)
        if typed:
            for f in ("add", "sub", "mul"):
                s.rawprim(FUNCS[f][0], [float, float], float, f)
            s.rawprim(operator.neg, [float], float, "neg")
            s.rawprim(_fpdiv, [float, float], float, "pdiv")
            for v in (0.5, -1.5, 2.0, 1e-05, 100.0):
                s.const(v, float)
            s.named(3.25, "c325", float)
            s.eph("e_f", rfloat, float, zok=False)
        else:
            s.prim("add", 2)
            s.prim("sub", 2)
            s.prim("mul", 2)
            s.prim("neg", 1)
            s.pset.addPrimitive(_fpdiv, 2, name="pdiv")
            s.funcs["pdiv"] = _fpdiv
            for v in (0.5, -1.5, 2.0, 1e-05, 3, -4):
                s.const(v)
            s.named(3.25, "c325")
            s.eph("e_f", rfloat, zok=False)
            s.eph("e_i", ri(-3, 3))
        s.zeval = False
        s.label = "float%d%s" % (nargs, "t" if typed else "u")
        return s

    def mk_str():
        s = Spec(gp, "MAIN", [str, int], str, True, "A")
        s.rawprim(_cat, [str, str], str, "cat")
        s.rawprim(_rep, [str, int], str, "rep")
        s.rawprim(operator.add, [int, int], int, "add", "OpAdd")
        s.rawprim(len, [str], int, "size")
        for v in ("ab", "x", "p.q"):
            s.const(v, str)
        s.const(2, int)
        s.const(-1, int)
        s.eph("e_s", rstr, str, zok=False)
        s.eph("e_i", ri(0, 4), int)
        s.zeval = False
        s.label = "str"
        return s

    def mk_user():
        # types are labels; the values are ints
        s = Spec(gp, "MAIN", [UA, UB, int], UA, True, "U")
        s.rawprim(operator.add, [UA, int], UA, "fa", "OpAdd")
        s.rawprim(operator.mul, [UB, UB], UB, "gb", "OpMul")
        s.rawprim(operator.sub, [UA, UA], int, "ha", "OpSub")
        s.rawprim(operator.neg, [int], int, "neg", "OpNeg")
        s.rawprim(max, [UA, UB], UA, "mab", "OpMax")
        s.named(3, "b3", UB)
        s.named(-4, "a4", UA)
        s.const(2, int)
        s.const(-7, int)
        s.eph("e_int", ri(-5, 5), int)
        s.label = "user"
        return s

    def mk_adf_family(variant):
        """[main, ADF0, ADF1(, ADF2)] : main may call every ADF, ADF_i may call ADF_j for j > i."""
        fam = []
        n_adf = 1 + variant % 3
        arities = [[1], [2, 1], [2, 2, 0]][n_adf - 1]
        for i in reversed(range(n_adf)):
            a = Spec(gp, "ADF%d" % i, [object] * arities[i], object, False, "X%d_" % i)
            a.prim("add", 2)
            a.prim("mul", 2)
            a.prim("sub", 2)
            a.prim("neg", 1)
            for v in (1, -2, 10 + i):
                a.const(v)
            a.eph("e_a%d" % i, ri(-4, 4))
            for later in fam:
                a.adf(later)
            fam.insert(0, a)
        m = Spec(gp, "MAIN", [object] * (1 + variant % 2), object, False)
        m.prim("add", 2)
        m.prim("sub", 2)
        m.prim("mul", 2)
        m.prim("max2", 2)
        for v in (0, 3, -5):
            m.const(v)
        m.named(9, "nine")
        for a in fam:
            m.adf(a)
        if variant % 4 == 3:
            m.pset.renameArguments(ARG0="u")
        m.label = "adf%d" % n_adf
        return [m] + fam

    # ------------------------------------------------------------------ per-tree checks
    def grid(spec, k):
        """argument tuples for the set: grid corners plus random values"""
        if spec.nargs == 0:
            return [()]
        kinds = []
        if spec.typed:
            kinds = list(spec.pset.ins)
        else:
            kinds = [float if spec.label.startswith("float") else int] * spec.nargs
        out = []
        g = {int: [-2, -1, 0, 1, 2, 3], UA: [-2, 0, 1, 5], UB: [-1, 0, 2], bool: [False, True],
             float: [-1.5, 0.0, 0.5, 2.0], str: ["", "a", "xy"]}
        for _ in range(k):
            tup = []
            mode = rng.random()
            for t in kinds:
                if mode < 0.5:
                    tup.append(rng.choice(g[t]))
                elif t in (int, UA, UB):
                    tup.append(rng.choice([rng.randint(-50, 50), rng.randint(-10 ** 6, 10 ** 6)]))
                elif t is float:
                    tup.append(rng.randint(-4000, 4000) / 16.0)
                elif t is bool:
                    tup.append(rng.random() < 0.5)
                else:
                    tup.append("".join(rng.choice("abz") for _ in range(rng.randint(0, 3))))
            out.append(tuple(tup))
        return out

    def node_names(nodes):
        return [getattr(n, "name", "?") if not isinstance(n, type) else "class:" + n.name for n in nodes]

    def coq_tree(spec, nodes):
        return clist([defs.name("n", spec.c_node(n)) for n in nodes])

    def observe_code(tree, pset):
        """the code string gp.compile hands to eval (the name `eval` is bound in deap.gp for this one call)"""
        seen = []

        def spy(code, *a):
            seen.append(code)
            return eval(code, *a)

        gp.eval = spy
        try:
            gp.compile(tree, pset)
        except Exception:  # noqa -- the evaluation itself is judged elsewhere
            pass
        finally:
            del gp.eval
        return seen[0] if len(seen) == 1 and isinstance(seen[0], str) else None

    def check_tree(spec, tree, source, nargs_tuples, adf=None, coq=True):
        """All clauses of the statement on one tree of one primitive set (adf: name -> (nodes, spec))."""
        nodes = list(tree)
        case = {"set": spec.label, "source": source, "nodes": node_names(nodes), "arguments": list(spec.pset.arguments)}
        stats["trees"] += 1
        stats["by_set"][spec.label] = stats["by_set"].get(spec.label, 0) + 1
        skey = re.sub(r":(t|random)\d+", "", source)
        stats["by_source"][skey] = stats["by_source"].get(skey, 0) + 1
        stats["max_nodes"] = max(stats["max_nodes"], len(nodes))
        if not well_formed(nodes):
            run.oracle_violation("generator/operator produced an ill-formed prefix list (C11 territory, reported here because "
                                 "the C12 statement quantifies over these trees)", case)
            return
        stats["max_height"] = max(stats["max_height"], tree.height)
        nontrivial = any(isinstance(n, gp.Primitive) for n in nodes)
        run.note_case(case, nontrivial, sample=case if len(nodes) < 12 and stats["trees"] % 53 == 1 else None)
        st = guard(str, tree)
        case["str"] = st[1] if len(str(st[1])) < 400 else str(st[1])[:400] + "..."
        if st[0] != "ok":
            run.oracle_violation("str(tree) raised", case, observed=st)
            return
        s = st[1]
        # --- compile vs direct evaluation
        tuples = nargs_tuples
        runs = []
        all_z = spec.zeval
        for tup in tuples:
            exp = guard(interp, gp, nodes, spec, tup, adf)
            if adf is None:
                got = guard(lambda: (gp.compile(tree, spec.pset)(*tup) if spec.nargs > 0 else gp.compile(tree, spec.pset)))
            else:
                got = adf["__compiled__"](tup)
            stats["evals"] += 1
            ok = (exp[0] == got[0]) and (same(exp[1], got[1]) if exp[0] == "ok" else True)
            if not ok:
                c2 = dict(case)
                c2["args"] = repr(tup)
                run.oracle_violation("compiled tree and direct evaluation of the prefix tree differ", c2,
                                     observed={"compiled": repr(got), "direct": repr(exp)})
                return
            if got[0] == "ok":
                z = zval(got[1])
                if z is None:
                    all_z = False
                runs.append((tup, z))
            elif got[1] == "ZeroDivisionError":
                runs.append((tup, "None"))
            else:
                all_z = False
        # --- printing: the string is the prefix tree written as nested calls (spacing is not part of the statement)
        exp_str = printer(gp, nodes, spec)
        if "".join(s.split()) != "".join(exp_str.split()):
            run.oracle_violation("str(tree) is not the prefix tree printed as name(a1, ..., an)", case,
                                 observed={"str": st, "expected": exp_str})
            return
        # --- round trip through from_string
        rt = guard(gp.PrimitiveTree.from_string, s, spec.pset)
        stats["roundtrips"] += 1
        if rt[0] != "ok":
            run.oracle_violation("from_string(str(tree)) raised", case, observed=rt)
            return
        t2 = rt[1]
        s2 = guard(str, t2)
        if s2 != ("ok", s) or len(t2) != len(nodes) or [n.arity for n in t2] != [n.arity for n in nodes]:
            run.oracle_violation("from_string(str(tree)) does not print identically / same node count / same arities", case,
                                 observed={"reprinted": s2, "len": len(t2)})
            return
        for n1, n2 in zip(nodes, t2):
            if (not isinstance(n1, gp.Primitive) and n1.conv_fct is repr and spec.arg_index(n1) is None
                    and not isinstance(n2, (gp.Primitive, type)) and n2.conv_fct is repr):
                if type(n1.value) is not type(n2.value) or repr(n1.value) != repr(n2.value):
                    run.oracle_violation("a constant read back from the printed form is a different object (type/repr)", case,
                                         observed={"original": repr(n1.value), "read": repr(n2.value)})
                    return
        if adf is None:
            for tup in tuples[:2]:
                a = guard(lambda: (gp.compile(t2, spec.pset)(*tup) if spec.nargs > 0 else gp.compile(t2, spec.pset)))
                b = guard(interp, gp, nodes, spec, tup, None)
                if a[0] != b[0] or (a[0] == "ok" and not same(a[1], b[1])):
                    c2 = dict(case)
                    c2["args"] = repr(tup)
                    run.oracle_violation("the tree read back from its printed form computes a different function", c2,
                                         observed={"reparsed": repr(a), "direct": repr(b)})
                    return
        if adf is None and tuples:
            # documented route: compile accepts the code string as well
            tup = tuples[0]
            a = guard(lambda: (gp.compile(s, spec.pset)(*tup) if spec.nargs > 0 else gp.compile(s, spec.pset)))
            b = guard(interp, gp, nodes, spec, tup, None)
            if a[0] != b[0] or (a[0] == "ok" and not same(a[1], b[1])):
                c2 = dict(case)
                c2["args"] = repr(tup)
                run.oracle_violation("compile(str(tree), pset) and direct evaluation of the prefix tree differ", c2,
                                     observed={"compiled": repr(a), "direct": repr(b)})
                return
        now = list(tree)
        if len(now) != len(nodes) or any(x is not y for x, y in zip(now, nodes)):
            # printing / compiling / reading must not change what the tree denotes
            for tup in tuples[:2]:
                a = guard(interp, gp, now, spec, tup, adf)
                b = guard(interp, gp, nodes, spec, tup, adf)
                if a[0] != b[0] or (a[0] == "ok" and not same(a[1], b[1])):
                    run.oracle_violation("str / compile / from_string changed what the tree denotes", case,
                                         observed={"after": repr(a), "before": repr(b)})
                    return
        # --- Coq cases
        if not coq or len(nodes) > MAX_COQ_NODES:
            return
        try:
            ps = defs.name("ps", spec.c_pset())
            tl = coq_tree(spec, nodes)
            toks = [t for t in re.split("[ \t\n\r\f\v(),]", s) if t != ""]
            add("str", "CStr %s %s %s %s" % (ps, tl, cstr(s), clist([cstr(t) for t in toks])), case, nontrivial)
            add("read", "CRead subs %s %s (Some %s)" % (ps, cstr(s), coq_tree(spec, list(t2))), case, nontrivial)
            if adf is None and stats["coq_trees"] % 3 == 0:
                code = observe_code(tree, spec.pset)
                if code is not None:
                    add("code", "CCode %s %s %s" % (ps, tl, cstr(code)), case, nontrivial)
            if all_z and adf is None and spec.zeval:
                cx = defs.name("cx", spec.c_ctx())
                rl = clist(["(%s, %s)" % (czl([int(x) for x in tup]), "None" if z == "None" else "Some %s" % z) for tup, z in runs])
                add("eval", "CEval %s %s %s %s" % (ps, cx, tl, rl), case, nontrivial)
            stats["coq_trees"] += 1
        except Unsupported as e:
            run.notes.append("tree not sent to Coq: %s" % e) if len(run.notes) < 5 else None

    # ------------------------------------------------------------------ generation
    gens = [gp.genFull, gp.genGrow, gp.genHalfAndHalf]

    def gen_tree(spec, lo=None, hi=None, type_=None):
        if lo is None:
            hi = rng.choice([0, 1, 2, 2, 3, 3, 4, 5, 6])
            lo = rng.randint(0, hi)
        g = rng.choice(gens)
        for _ in range(20):
            r = guard(g, spec.pset, lo, hi, type_)
            if r[0] == "ok":
                if len(r[1]) <= 3000:
                    return gp.PrimitiveTree(r[1]), g.__name__
                hi = max(lo, hi - 1)
        return None, None

    def operate(spec, pool):
        """apply one variation operator to copies of trees from the pool"""
        t1 = gp.PrimitiveTree(list(rng.choice(pool)))
        t2 = gp.PrimitiveTree(list(rng.choice(pool)))
        which = rng.choice(["cxOnePoint", "cxOnePointLeafBiased", "mutUniform", "mutInsert", "mutShrink", "mutNodeReplacement",
                            "mutEphemeral_one", "mutEphemeral_all"])
        if which == "cxOnePoint":
            r = guard(gp.cxOnePoint, t1, t2)
        elif which == "cxOnePointLeafBiased":
            r = guard(gp.cxOnePointLeafBiased, t1, t2, 0.3)
        elif which == "mutUniform":
            r = guard(gp.mutUniform, t1, functools.partial(gp.genGrow, min_=0, max_=2), spec.pset)
        elif which == "mutInsert":
            r = guard(gp.mutInsert, t1, spec.pset)
        elif which == "mutShrink":
            r = guard(gp.mutShrink, t1)
        elif which == "mutNodeReplacement":
            r = guard(gp.mutNodeReplacement, t1, spec.pset)
        elif which == "mutEphemeral_one":
            r = guard(gp.mutEphemeral, t1, "one")
        else:
            r = guard(gp.mutEphemeral, t1, "all")
        if r[0] != "ok":
            return []      # operator preconditions (e.g. no primitive of a type) are C11's concern
        return [(t, which) for t in r[1] if len(t) <= 3000]

    def read_case(spec, s):
        r = guard(gp.PrimitiveTree.from_string, s, spec.pset)
        case = {"kind": "from_string", "set": spec.label, "string": s, "observed": r[0] if r[0] == "raise" else node_names(r[1])}
        run.note_case(case, True)
        try:
            ps = defs.name("ps", spec.c_pset())
            obs = "None" if r[0] != "ok" else "(Some %s)" % coq_tree(spec, list(r[1]))
            add("misc", "CRead subs %s %s %s" % (ps, cstr(s), obs), case)
            if r[0] == "ok":
                st = guard(str, r[1])
                if st[0] == "ok":
                    toks = [t for t in re.split("[ \t\n\r\f\v(),]", st[1]) if t != ""]
                    add("misc", "CStr %s %s %s %s" % (ps, coq_tree(spec, list(r[1])), cstr(st[1]),
                                                     clist([cstr(t) for t in toks])), case)
        except Unsupported:
            pass

    # ------------------------------------------------------------------ constants that coincide under ==
    COINC_I = [0, 1, -2, 2, 2 ** 53, 2 ** 53 + 1, 2 ** 64 + 1, -(2 ** 63), 10 ** 30]
    COINC_F = [0.0, -0.0, 1.0, -2.0, 2.0, float(2 ** 53), 0.1 + 0.2, 1e16, 1e300, 5e-324, -1e-07, 123456789.12345679,
               2.2250738585072014e-308, 1.7976931348623157e+308, float(10 ** 30)]

    def mk_coincide(typed_int=False, as_typed_object=False):
        """values that are == and hash-equal yet distinct objects (1 / 1.0 / True, 0 / 0.0 / -0.0, 2**53 / float(2**53)),
        none of them registered with addTerminal, with functions that tell them apart"""
        if typed_int:
            s = Spec(gp, "MAIN", [int, int], int, True)
            s.pyprim(operator.add, [int, int], int, "add")
            s.pyprim(operator.mul, [int, int], int, "mul")
            s.pyprim(_kind, [int], int, "kind")
            s.pyprim(_rlen, [int], int, "rlen")
            s.eph("c_i", lambda: gp.random.choice([0, 1, 2, -2]), int, zok=False)
            s.eph("c_b", lambda: gp.random.choice([True, False]), bool, zok=False)
            s.label = "coincide_intbool"
            return s
        if as_typed_object:
            s = Spec(gp, "MAIN", [object, object], object, True)
            ar = lambda n: [object] * n  # noqa
        else:
            s = Spec(gp, "MAIN", [object, object], object, False)
            ar = lambda n: n  # noqa
        s.pyprim(operator.add, ar(2), object, "add")
        s.pyprim(operator.mul, ar(2), object, "mul")
        s.pyprim(_tdiv, ar(2), object, "tdiv")
        s.pyprim(_flo, ar(2), object, "flo")
        s.pyprim(_csign, ar(2), object, "csign")
        s.pyprim(_kind, ar(1), object, "kind")
        s.pyprim(_rlen, ar(1), object, "rlen")
        kw = {"ret": object} if as_typed_object else {}
        s.eph("c_i", lambda: gp.random.choice(COINC_I), zok=False, **kw)
        s.eph("c_f", lambda: gp.random.choice(COINC_F), zok=False, **kw)
        s.eph("c_b", lambda: gp.random.choice([True, False]), zok=False, **kw)
        s.label = "coincide_typedobj" if as_typed_object else "coincide"
        return s

    COINC_ARGS = [(0, 0), (3, 4), (1, 1.0), (-0.0, 2), (0.0, -0.0), (True, 2.5), (2 ** 53, -2.0)]

    def build_tree(spec, shape, ret=object):
        """nested list -> PrimitiveTree: [name, child, ...] primitive, "ARGj" argument j (by position), other strings named
        terminals, numbers/bools fresh Terminal objects that are NOT registered in the set (like ephemeral draws)"""
        out = []

        def rec(x):
            if isinstance(x, list):
                out.append(spec.pset.mapping[x[0]])
                for c in x[1:]:
                    rec(c)
            elif isinstance(x, str) and x.startswith("ARG") and x[3:].isdigit():
                out.append(spec.argterms[int(x[3:])])
            elif isinstance(x, str):
                out.append(spec.pset.mapping[x])
            else:
                out.append(gp.Terminal(x, False, ret))
        rec(shape)
        return gp.PrimitiveTree(out)

    def fresh_names(spec, kargs):
        cur = set(spec.pset.arguments)
        vals = list(kargs.values())
        return (len(set(vals)) == len(vals) and all(re.match(r"^[A-Za-z_][A-Za-z_0-9]*$", v) for v in vals)
                and not any(v in spec.pset.mapping or v in spec.pset.context or v in cur or v in FUNCS for v in vals))

    def run_sequence(spec, steps, tuples, label, trees=None):
        """operation sequence on ONE primitive-set object; after every step every tree seen so far is compiled, printed,
        read back and compared with the direct evaluation, and every function compiled earlier is called again"""
        pool = list(trees or [])
        kept = []          # (tree snapshot nodes, compiled callable, tuples) from earlier steps
        old_strings = []
        counter = [0]
        for step in steps:
            kind = step[0]
            counter[0] += 1
            if kind == "compile":
                t = build_tree(spec, step[1]) if not isinstance(step[1], gp.PrimitiveTree) else step[1]
                pool.append(t)
            elif kind == "gen":
                t, _ = gen_tree(spec, 1, 3)
                if t is not None:
                    pool.append(t)
            elif kind == "rename":
                kargs = {spec.pset.arguments[int(k[3:])] if (k.startswith("ARG") and k[3:].isdigit() and int(k[3:]) < spec.nargs) else k: v
                         for k, v in step[1].items()}
                kargs = {k: v for k, v in kargs.items() if k in spec.pset.arguments}
                if not fresh_names(spec, kargs):
                    continue
                spec.pset.renameArguments(**kargs)
            elif kind == "const":
                if str(step[1]) not in spec.pset.mapping:
                    spec.const(step[1], *([object] if spec.typed else []))
            elif kind == "named":
                nm = "nm%d_%d" % (counter[0], len(spec.values))
                spec.named(step[1], nm, *([object] if spec.typed else []))
                pool.append(gp.PrimitiveTree([spec.pset.mapping["add"], spec.pset.mapping[nm], spec.argterms[0]])
                            if spec.nargs else gp.PrimitiveTree([spec.pset.mapping[nm]]))
            elif kind == "prim":
                nm = "p%d_%d" % (counter[0], len(spec.funcs))
                if spec.typed:
                    spec.pset.addPrimitive(operator.sub, [object, object], object, name=nm)
                else:
                    spec.pset.addPrimitive(operator.sub, 2, name=nm)
                spec.funcs[nm] = operator.sub
                spec.ops[nm] = "OpSub"
                leaf = spec.argterms[-1] if spec.nargs else gp.Terminal(4, False, object)
                pool.append(gp.PrimitiveTree([spec.pset.mapping[nm], leaf, gp.Terminal(3, False, object)]))
            elif kind == "eph":
                nm = "q%d_%d" % (counter[0], len(spec.funcs))
                spec.eph(nm, functools.partial(gp.random.randint, -3, 3), *([object] if spec.typed else []))
                t, _ = gen_tree(spec, 1, 2)
                if t is not None:
                    pool.append(t)
            # every function compiled during an earlier step still computes its own tree
            for nodes_then, f, tups in kept:
                for tup in tups:
                    got = guard(lambda: f(*tup))
                    exp = guard(interp, gp, nodes_then, spec, tup, None)
                    if got[0] != exp[0] or (got[0] == "ok" and not same(got[1], exp[1])):
                        run.oracle_violation("a function compiled earlier changed after later operations on the same primitive set",
                                             {"set": spec.label, "sequence": label, "step": repr(step), "args": repr(tup),
                                              "nodes": node_names(nodes_then)}, observed={"now": repr(got), "direct": repr(exp)})
                        return
            for t in pool[-6:]:
                check_tree(spec, t, "seq:%s:%s" % (label, kind), tuples)
            # strings printed at earlier steps (possibly with names that no longer exist) are read against the CURRENT set
            for old_s in old_strings[-4:]:
                read_case(spec, old_s)
            for t in pool[-2:]:
                st_now = guard(str, t)
                if st_now[0] == "ok" and st_now[1] not in old_strings and len(st_now[1]) < 200:
                    old_strings.append(st_now[1])
            if kind == "rename":
                guard(lambda: spec.pset.renameArguments(**kargs))     # same keywords again: the old names are gone, nothing happens
            if spec.nargs > 0 and pool:
                t = pool[-1]
                r = guard(gp.compile, t, spec.pset)
                if r[0] == "ok" and callable(r[1]):
                    kept.append((list(t), r[1], tuples[:2]))
                    kept[:] = kept[-8:]

    def run_corpus():
        for path in sorted(glob.glob(os.path.join(os.path.dirname(os.path.dirname(os.path.abspath(__file__))), "corpus", "C12_*.json"))):
            entry = json.load(open(path))
            tuples = [tuple(a) for a in entry.get("args", [[0, 0]])]
            if entry["kind"] == "constants":
                spec = mk_coincide(as_typed_object=entry.get("typed", False))
                for shape in entry["trees"]:
                    check_tree(spec, build_tree(spec, shape), "corpus:" + os.path.basename(path), tuples)
            elif entry["kind"] == "sequence":
                spec = mk_coincide(as_typed_object=entry.get("typed", False))
                run_sequence(spec, [tuple(st) for st in entry["steps"]], tuples, "corpus:" + os.path.basename(path))

    # ------------------------------------------------------------------ plain sets
    specs = []
    for nargs in (0, 1, 2, 3):
        specs.append(mk_untyped(nargs))
    specs.append(mk_untyped(2, rename={"ARG0": "x", "ARG1": "y"}))
    specs.append(mk_untyped(3, rename={"ARG1": "speed"}, small=True))
    specs.append(mk_untyped(1, prefix="in_"))
    specs.append(mk_typed(2, 1))
    specs.append(mk_typed(1, 0, rename={"IN0": "n"}))
    specs.append(mk_typed(0, 0))
    specs.append(mk_typed(1, 1, tuples=True))
    specs.append(mk_float(2, False))
    specs.append(mk_float(1, True))
    specs.append(mk_float(0, False))
    specs.append(mk_str())
    specs.append(mk_user())

    per_spec = run.scale(28, 220)
    n_ops = run.scale(22, 170)
    ktup = run.scale(3, 5)
    try:
        run_corpus()
        # ------------------------------------------------------------------ coinciding constants: directed + generated
        directed = [["add", 1, 1.0], ["add", 1.0, 1], ["csign", 0.0, -0.0], ["csign", -0.0, 0.0], ["tdiv", 2, ["tdiv", 2.0, "ARG1"]],
                    ["flo", ["flo", 2.0, "ARG0"], ["flo", 2, "ARG0"]], ["add", True, ["add", 1, 1.0]], ["mul", ["kind", 1], ["kind", True]],
                    ["add", ["rlen", 0], ["add", ["rlen", 0.0], ["rlen", -0.0]]], ["add", -2, -2.0], ["add", ["kind", False], ["kind", 0]],
                    ["tdiv", 2 ** 53, ["add", float(2 ** 53), "ARG0"]], ["add", ["rlen", float(2 ** 53)], ["rlen", 2 ** 53]],
                    ["csign", ["add", 1, 0.0], ["mul", -0.0, 1]], ["add", 0, ["add", False, ["add", 0.0, -0.0]]]]
        for cs in (mk_coincide(), mk_coincide(as_typed_object=True)):
            for shape in directed:
                check_tree(cs, build_tree(cs, shape), "coincide-directed", COINC_ARGS)
            for i in range(run.scale(40, 300)):
                tree, src = gen_tree(cs, rng.randint(1, 2), rng.randint(2, 4))
                if tree is not None and len(tree) <= 400:
                    check_tree(cs, tree, "coincide-" + src, [rng.choice(COINC_ARGS) for _ in range(3)])
        cib = mk_coincide(typed_int=True)
        for shape in (["add", 1, True], ["add", True, 1], ["mul", ["kind", 1], ["kind", True]], ["add", ["rlen", False], ["rlen", 0]],
                      ["add", ["kind", 0], ["add", False, ["kind", False]]]):
            check_tree(cib, build_tree(cib, shape, ret=int), "coincide-directed", [(0, 0), (3, -4)])
        for i in range(run.scale(30, 200)):
            tree, src = gen_tree(cib, 1, rng.randint(2, 4))
            if tree is not None and len(tree) <= 400:
                check_tree(cib, tree, "coincide-" + src, grid(cib, 2))

        # ------------------------------------------------------------------ operation sequences on one primitive-set object
        step_kinds = ["gen", "rename", "rename", "const", "named", "prim", "eph", "gen"]
        new_names = ["x", "y", "z", "u", "v", "w", "left", "right", "ARG0", "ARG1", "ARG2", "IN0", "IN1"]
        for k in range(run.scale(14, 120)):
            which = k % 4
            if which == 0:
                sq = mk_untyped(rng.randint(1, 3), small=True)
            elif which == 1:
                sq = mk_coincide()
            elif which == 2:
                sq = mk_coincide(as_typed_object=True)
            else:
                sq = mk_untyped(2)
            # first step always compiles trees that mention every argument, so that anything cached per set is filled
            first = [gp.PrimitiveTree([sq.pset.mapping["add"], a, gp.Terminal(1, False, object)]) for a in sq.argterms]
            steps = []
            for _ in range(rng.randint(3, 7)):
                kd = rng.choice(step_kinds)
                if kd == "rename":
                    kargs = {}
                    for j in range(sq.nargs):
                        if rng.random() < 0.6:
                            kargs["ARG%d" % j] = rng.choice(new_names)
                    steps.append(("rename", kargs))
                elif kd == "const":
                    steps.append(("const", rng.choice([11, -13, 17, 2.5, -0.75])))
                elif kd == "named":
                    steps.append(("named", rng.choice([21, -8, 6])))
                else:
                    steps.append((kd,))
            tups = COINC_ARGS[:sq.nargs and 3] if sq.label.startswith("coincide") else grid(sq, 2)
            tups = [tuple(t[:sq.nargs]) + (0,) * max(0, sq.nargs - len(t)) for t in tups]
            run_sequence(sq, [("gen",)] + steps, tups, "random%d" % k, trees=first)
        # rename after a first compile, rename twice, rename back
        for typed_obj in (False, True):
            sq = mk_coincide(as_typed_object=typed_obj)
            run_sequence(sq, [("compile", ["add", 1, "ARG1"]), ("rename", {"ARG0": "x", "ARG1": "y"}), ("compile", ["add", 1, "ARG1"]),
                              ("rename", {"ARG0": "p", "ARG1": "q"}), ("compile", ["tdiv", "ARG0", "ARG1"]),
                              ("rename", {"ARG0": "ARG0", "ARG1": "ARG1"}), ("compile", ["flo", "ARG1", "ARG0"]), ("const", 5),
                              ("prim",), ("eph",), ("named", 9), ("rename", {"ARG1": "last"}), ("gen",)],
                         [(0, 0), (3, 4.0), (-2, 1)], "rename-after-compile")

        # compileADF with primitive sets that were already used, renamed and extended in between
        for variant in range(run.scale(4, 16)):
            fam = mk_adf_family(variant)
            psets = [sp.pset for sp in fam]
            main_spec = fam[0]
            earlier = []
            for phase in range(4):
                ind = []
                for sp in fam:
                    t, _ = gen_tree(sp, 1, rng.choice([1, 2, 3]))
                    ind.append(t)
                if any(t is None for t in ind):
                    continue
                tuples = grid(main_spec, 2)
                comp = guard(gp.compileADF, ind, psets)
                adf_trees = {sp.name: (list(t), sp) for sp, t in zip(fam[1:], ind[1:])}
                if comp[0] == "ok":
                    f = comp[1]

                    def call(tup, f=f, n=main_spec.nargs):
                        return guard(lambda: f(*tup) if n > 0 else f)
                    adf = dict(adf_trees)
                    adf["__compiled__"] = call
                    check_tree(main_spec, ind[0], "adf-seq-main", tuples, adf=adf)
                    earlier.append((list(ind[0]), adf_trees, call, tuples))
                else:
                    zero_arg_fail = any(sp.nargs == 0 and guard(interp, gp, list(t), sp, (), adf_trees)[0] != "ok"
                                        for sp, t in zip(fam[1:], ind[1:]))
                    if not zero_arg_fail:
                        run.oracle_violation("compileADF raised", {"set": main_spec.label, "source": "adf-seq", "trees": [str(t)[:200] for t in ind]},
                                             observed=comp)
                # functions of the earlier phases are unaffected by what happened to the sets since
                for nodes_then, trees_then, call_then, tups_then in earlier:
                    for tup in tups_then:
                        got = call_then(tup)
                        exp = guard(interp, gp, nodes_then, main_spec, tup, trees_then)
                        if got[0] != exp[0] or (got[0] == "ok" and not same(got[1], exp[1])):
                            run.oracle_violation("a function returned by compileADF changed after later operations on the same primitive sets",
                                                 {"set": main_spec.label, "source": "adf-seq", "phase": phase, "args": repr(tup),
                                                  "nodes": node_names(nodes_then)}, observed={"now": repr(got), "direct": repr(exp)})
                # mutate the sets between phases
                if phase == 0:
                    kargs = {a: "m%d_%d" % (variant, j) for j, a in enumerate(main_spec.pset.arguments)}
                    if fresh_names(main_spec, kargs):
                        main_spec.pset.renameArguments(**kargs)
                elif phase == 1:
                    sub = fam[-1]
                    if sub.nargs > 0:
                        kargs = {sub.pset.arguments[0]: "s%d" % variant}
                        if fresh_names(sub, kargs):
                            sub.pset.renameArguments(**kargs)
                    main_spec.const(40 + variant)
                elif phase == 2:
                    fam[1].named(77, "n77_%d" % variant)
                    main_spec.prim("neg", 1)

        # ================================================================== hardening round
        # (1)/(2) one TREE object used in sequences: print / compile / height, then change it in place through every route,
        # then print / compile again; functions compiled before the change keep computing the tree they were compiled from
        def tree_sequence(spec, label, nsteps):
            t, _ = gen_tree(spec, 2, 4)
            if t is None:
                return
            other, _ = gen_tree(spec, 1, 3)
            kept = []
            tuples = COINC_ARGS[:3] if spec.label.startswith("coincide") else grid(spec, 2)
            for stepno in range(nsteps):
                # fill whatever could be remembered on the tree / its nodes / the set
                guard(str, t)
                guard(lambda: t.height)
                r = guard(gp.compile, t, spec.pset)
                if r[0] == "ok" and spec.nargs > 0 and callable(r[1]):
                    # snapshot: ephemeral node objects are copied, because the "ephvalue" step below changes node.value in place
                    # and the reference value must be that of the tree as it was when it was compiled
                    kept.append(([copy.copy(n) if isinstance(type(n), gp.MetaEphemeral) else n for n in t], r[1]))
                    kept[:] = kept[-4:]
                kind = rng.choice(["mutShrink", "mutInsert", "mutNodeReplacement", "mutEphemeral", "mutUniform", "cx", "ephvalue",
                                   "setterm", "setslice", "deepcopy", "listops"])
                if kind == "mutShrink":
                    guard(gp.mutShrink, t)
                elif kind == "mutInsert":
                    guard(gp.mutInsert, t, spec.pset)
                elif kind == "mutNodeReplacement":
                    guard(gp.mutNodeReplacement, t, spec.pset)
                elif kind == "mutEphemeral":
                    guard(gp.mutEphemeral, t, rng.choice(["one", "all"]))
                elif kind == "mutUniform":
                    guard(gp.mutUniform, t, functools.partial(gp.genGrow, min_=0, max_=2), spec.pset)
                elif kind == "cx" and other is not None:
                    guard(gp.cxOnePoint, t, other)
                elif kind == "ephvalue":
                    idx = [i for i, n in enumerate(t) if isinstance(type(n), gp.MetaEphemeral)]
                    if idx:
                        n = t[rng.choice(idx)]
                        n.value = type(n.value)(rng.choice([0, 1, 3, -2])) if isinstance(n.value, (int, float)) else n.value
                elif kind == "setterm" and not spec.typed:
                    idx = [i for i, n in enumerate(t) if n.arity == 0]
                    t[rng.choice(idx)] = rng.choice(spec.argterms + [gp.Terminal(rng.choice([4, -6, 0.5, True]), False, object)]) \
                        if spec.argterms else gp.Terminal(8, False, object)
                elif kind == "setslice" and not spec.typed:
                    sub, _ = gen_tree(spec, 0, 2)
                    if sub is not None:
                        i = rng.randrange(len(t))
                        t[t.searchSubtree(i)] = list(sub)
                elif kind == "deepcopy":
                    t2 = copy.deepcopy(t)
                    check_tree(spec, t, "treeseq:%s:original" % label, tuples)
                    t = t2
                elif kind == "listops" and not spec.typed:
                    # list API: replace the whole content through slice assignment from position 0, then restore a prefix walk
                    sub, _ = gen_tree(spec, 1, 2)
                    if sub is not None:
                        t[0:len(t)] = list(sub)
                if len(t) > 400:
                    return
                for nodes_then, f in kept:
                    for tup in tuples[:2]:
                        got = guard(lambda: f(*tup))
                        exp = guard(interp, gp, nodes_then, spec, tup, None)
                        if got[0] != exp[0] or (got[0] == "ok" and not same(got[1], exp[1])):
                            run.oracle_violation("a function compiled before the tree was modified in place no longer computes the tree it was compiled from",
                                                 {"set": spec.label, "sequence": label, "step": kind, "args": repr(tup),
                                                  "nodes": node_names(nodes_then)}, observed={"now": repr(got), "direct": repr(exp)})
                            return
                check_tree(spec, t, "treeseq:%s:%s" % (label, kind), tuples)

        for k in range(run.scale(16, 140)):
            sp = [mk_untyped(2, small=True), mk_coincide(), mk_typed(2, 1), mk_untyped(1), mk_float(2, False)][k % 5]
            tree_sequence(sp, "t%d" % k, rng.randint(3, 6))

        # (1) two individuals with identical main / ADF0 text but different ADF1, compiled alternately with the same sets
        fam = mk_adf_family(1)          # main + ADF0(2 args) + ADF1(1 arg)
        psets = [sp.pset for sp in fam]
        a0 = "add(ADF1(%s), %s)" % (fam[1].pset.arguments[0], fam[1].pset.arguments[1])
        mains = "sub(ADF0(ARG0, 3), ADF1(ARG0))" if fam[0].nargs == 1 else "sub(ADF0(ARG0, ARG1), ADF1(ARG0))"
        bodies = ["add(%s, 1)", "mul(%s, -2)", "neg(%s)", "add(%s, 1)"]
        done = []
        for body in bodies * 2:
            ind = [gp.PrimitiveTree.from_string(mains, psets[0]), gp.PrimitiveTree.from_string(a0, psets[1]),
                   gp.PrimitiveTree.from_string(body % fam[2].pset.arguments[0], psets[2])]
            comp = guard(gp.compileADF, ind, psets)
            adf_trees = {sp.name: (list(t), sp) for sp, t in zip(fam[1:], ind[1:])}
            tuples = grid(fam[0], 3)
            if comp[0] != "ok":
                run.oracle_violation("compileADF raised", {"set": fam[0].label, "source": "adf-same-text", "trees": [str(t) for t in ind]}, observed=comp)
                continue
            f = comp[1]

            def call(tup, f=f, n=fam[0].nargs):
                return guard(lambda: f(*tup) if n > 0 else f)
            adf = dict(adf_trees)
            adf["__compiled__"] = call
            check_tree(fam[0], ind[0], "adf-same-text", tuples, adf=adf)
            done.append((list(ind[0]), adf_trees, call, tuples))
            for nodes_then, trees_then, call_then, tups_then in done:
                for tup in tups_then:
                    got = call_then(tup)
                    exp = guard(interp, gp, nodes_then, fam[0], tup, trees_then)
                    if got[0] != exp[0] or (got[0] == "ok" and not same(got[1], exp[1])):
                        run.oracle_violation("a function returned by compileADF changed after another individual with the same text was compiled",
                                             {"set": fam[0].label, "source": "adf-same-text", "args": repr(tup), "nodes": node_names(nodes_then)},
                                             observed={"now": repr(got), "direct": repr(exp)})

        # (1) two primitive sets with an ephemeral of the same name but different generators, used alternately
        e1, e2 = mk_untyped(1, small=True), mk_untyped(2, small=True)
        e1.eph("shared", functools.partial(gp.random.randint, 100, 109))
        e2.eph("shared", functools.partial(gp.random.choice, [0.5, -0.25]), zok=False)
        for _ in range(run.scale(6, 40)):
            for sp in (e1, e2):
                t, src = gen_tree(sp, 1, 3)
                if t is not None:
                    check_tree(sp, t, "shared-ephemeral-name", grid(sp, 2))

        # (3) numpy scalars as actual arguments (type-exact comparison of the results)
        try:
            import numpy
            np_args = [(numpy.int64(3), numpy.float64(0.5)), (numpy.float32(1.5), numpy.int8(-2)), (numpy.int64(2 ** 40), 2),
                       (numpy.bool_(True), numpy.float64(-0.0))]
        except Exception:  # noqa
            np_args = []
        with warnings.catch_warnings():
            warnings.simplefilter("ignore")
            npset = mk_untyped(2, small=True)
            for _ in range(run.scale(10, 80)):
                t, src = gen_tree(npset, 1, 3)
                if t is not None and np_args:
                    check_tree(npset, t, "numpy-args", [rng.choice(np_args) for _ in range(2)], coq=False)

        # (4) rarely used routes: a callable registered as terminal without name, from_string through a subclass of PrimitiveTree,
        #     an arity-5 primitive, twelve arguments (two-digit names) with one of them renamed
        def seven():
            return 7
        rt = Spec(gp, "MAIN", [object] * 12, object, True)
        rt.pyprim(operator.add, [object, object], object, "add")
        rt.pyprim(lambda f: f(), [object], object, "call0")
        rt.pyprim(lambda a, b, c, d, e: a - b + c * d - e, [object] * 5, object, "five_ary")
        rt.pset.addTerminal(seven, object)
        rt.values["seven"] = seven
        rt.const(3, object)
        rt.label = "routes"
        rt.pset.renameArguments(ARG1="x")
        A = rt.argterms

        class Ind(gp.PrimitiveTree):
            pass
        m = rt.pset.mapping
        k3 = m["3"]
        route_trees = [[m["call0"], m["seven"]], [m["add"], A[1], A[10]], [m["add"], A[11], A[1]],
                       [m["five_ary"], A[0], A[1], A[10], A[11], k3], [m["add"], [m["call0"], m["seven"]], A[2]],
                       [m["five_ary"], k3, [m["add"], A[10], A[1]], A[9], [m["call0"], m["seven"]], A[11]], [m["seven"]]]

        def flat(x):
            return [y for e in x for y in (flat(e) if isinstance(e, list) else [e])]
        r_tuples = [tuple(range(1, 13)), tuple(rng.randint(-9, 9) for _ in range(12))]
        for shape in route_trees:
            check_tree(rt, Ind(flat(shape)), "routes", r_tuples)
        for _ in range(run.scale(6, 40)):
            t, src = gen_tree(rt, 1, 3)
            if t is not None:
                check_tree(rt, Ind(list(t)), "routes-" + src, r_tuples)

        # (5) boundaries: long unary chains, left- and right-deep combs
        bs = mk_untyped(1, small=True)
        bm = bs.pset.mapping
        for depth in (1, 2, 10, 40, 60):
            check_tree(bs, gp.PrimitiveTree([bm["neg"]] * depth + [bs.argterms[0]]), "chain", [(3,), (-1,)])
            check_tree(bs, gp.PrimitiveTree([bm["sub"]] * depth + [bs.argterms[0]] + [bm["1"]] * depth), "left-comb", [(3,), (0,)])
            right = []
            for _ in range(depth):
                right += [bm["sub"], bm["7"]]
            check_tree(bs, gp.PrimitiveTree(right + [bs.argterms[0]]), "right-comb", [(3,), (10,)])

        for spec in specs:
            pool = []
            # heights 0..6 are all hit for every set: first a sweep, then random
            sweep = [(h, h) for h in range(0, 7)] + [(0, 6), (1, 4)]
            for i in range(per_spec):
                lo, hi = sweep[i] if i < len(sweep) else (None, None)
                if lo is not None and hi >= 6 and spec.label in ("str",):
                    hi = 5
                tree, src = gen_tree(spec, lo, hi)
                if tree is None:
                    continue
                pool.append(tree)
                check_tree(spec, tree, src, grid(spec, ktup))
            small_pool = [t for t in pool if len(t) <= 600] or pool
            for _ in range(n_ops):
                for tree, src in operate(spec, small_pool):
                    check_tree(spec, tree, src, grid(spec, ktup))

        # ------------------------------------------------------------------ ADF families
        n_fam = run.scale(8, 24)
        n_ind = run.scale(10, 60)
        for variant in range(n_fam):
            fam = mk_adf_family(variant)
            psets = [s.pset for s in fam]
            inds = []
            for _ in range(n_ind):
                ind = []
                for s in fam:
                    hi = rng.choice([0, 1, 2, 3, 4])
                    tree, _src = gen_tree(s, rng.randint(0, hi), hi)
                    ind.append(tree)
                if all(t is not None for t in ind) and sum(len(t) for t in ind) <= 400:
                    inds.append(ind)
            compiled = []
            for ind in inds:
                compiled.append(guard(gp.compileADF, ind, psets))
            # every function is called only after all individuals have been compiled with the same sets
            for ind, comp in zip(inds, compiled):
                main_spec = fam[0]
                adf_trees = {s.name: (list(t), s) for s, t in zip(fam[1:], ind[1:])}
                tuples = grid(main_spec, ktup)
                case = {"set": main_spec.label, "source": "adf", "trees": [str(t)[:300] for t in ind],
                        "arguments": list(main_spec.pset.arguments)}
                if comp[0] != "ok":
                    # only legitimate reason: an ADF without argument whose value raises while being compiled
                    exp = guard(interp, gp, list(ind[0]), main_spec, tuples[0], adf_trees)
                    zero_arg_fail = any(s.nargs == 0 and guard(interp, gp, list(t), s, (), adf_trees)[0] != "ok"
                                        for s, t in zip(fam[1:], ind[1:]))
                    if not zero_arg_fail:
                        run.oracle_violation("compileADF raised", case, observed={"compileADF": comp, "direct": repr(exp)})
                    continue
                f = comp[1]

                def call(tup, f=f, n=main_spec.nargs):
                    return guard(lambda: f(*tup) if n > 0 else f)
                adf = dict(adf_trees)
                adf["__compiled__"] = call
                # main tree: str / read / compiled value vs direct evaluation with the ADF trees
                check_tree(main_spec, ind[0], "adf-main", tuples, adf=adf)
                # the ADF trees themselves print and round-trip
                for s, t in zip(fam[1:], ind[1:]):
                    sub = {k: v for k, v in adf_trees.items()}
                    sub["__compiled__"] = (lambda tup, s=s, t=t, sub_trees=adf_trees:
                                           guard(interp, gp, list(t), s, tup, sub_trees))
                    check_tree(s, t, "adf-body", grid(s, 1), adf=sub)
                # Coq: the whole family
                try:
                    if all(s.zeval for s in fam):
                        specs_c = []
                        for s, t in zip(fam, ind):
                            specs_c.append("(mkadf %s %s %s %s)" % (defs.name("ps", s.c_pset()), cstr(s.name),
                                                                  defs.name("cx", s.c_ctx()), coq_tree(s, list(t))))
                        rl = []
                        for tup in tuples:
                            got = call(tup)
                            z = zval(got[1]) if got[0] == "ok" else None
                            if got[0] == "ok" and z is None:
                                rl = None
                                break
                            rl.append("(%s, %s)" % (czl([int(x) for x in tup]), "Some %s" % z if got[0] == "ok" else "None"))
                        if rl is not None:
                            add("adf", "CAdf %s %s" % (clist(specs_c), clist(rl)), case)
                except Unsupported:
                    pass

        # ------------------------------------------------------------------ string / tokenizer / reader scenarios
        alphabet = list("ab1-._ \t\n\r\f\v(),") + ["add", "ARG0", "x"]
        for _ in range(run.scale(150, 1500)):
            s = "".join(rng.choice(alphabet) for _ in range(rng.randint(0, 14)))
            obs = re.split("[ \t\n\r\f\v(),]", s)
            case = {"kind": "split", "string": s}
            run.note_case(case, True)
            add("misc", "CSplit %s %s" % (cstr(s), clist([cstr(t) for t in obs])), case)

        sp_u, sp_t, sp_s, sp_user = specs[1], specs[7], specs[13], specs[14]
        fixed = [(sp_u, ""), (sp_u, "  "), (sp_u, "add(ARG0, 1)"), (sp_u, "add(ARG0,1)"), (sp_u, "add ARG0 1"), (sp_u, "add(ARG0"),
                 (sp_u, "add(ARG0, 1) neg(2)"), (sp_u, "zz9"), (sp_u, "add(zz9, 1)"), (sp_u, "e_int"), (sp_u, "add(e_int, 3)"),
                 (sp_u, "neg(-4)"), (sp_u, "neg(0.5)"), (sp_u, "neg(True)"), (sp_u, "neg('q')"), (sp_u, "five"), (sp_u, "-12"),
                 (sp_u, "mul(add(1, -1), sum3(7, five, m3))"), (sp_u, "ARG1"), (sp_u, "1 2 3"), (sp_u, "add\tARG0\n7"),
                 (sp_t, "add(True, 1)"), (sp_t, "and_(1, True)"), (sp_t, "and_(True, False)"), (sp_t, "ite(lt(IN0, IN1), 2, k42())"),
                 (sp_t, "ite(1, 2, 3)"), (sp_t, "not_(IN2)"), (sp_t, "not_(IN0)"), (sp_t, "add(0.5, 1)"), (sp_t, "lt(IN2, IN2)"),
                 (sp_t, "hundred"), (sp_t, "k42()"), (sp_t, "k42"), (sp_t, "neg(e_bool)"), (sp_t, "5"), (sp_t, "True"),
                 (sp_s, "cat('ab', A0)"), (sp_s, "cat(1, A0)"), (sp_s, "rep('x-y', 2)"), (sp_s, "size('zz')"), (sp_s, "cat(size('a'), 'b')"),
                 (sp_user, "fa(b3, 2)"), (sp_user, "fa(a4, 2)"), (sp_user, "gb(a4, b3)"), (sp_user, "gb(U1, b3)"), (sp_user, "gb(U0, b3)"),
                 (sp_user, "mab(U1, U1)"), (sp_user, "ha(U0, 2)"), (sp_user, "fa(U0, U2)"), (sp_user, "fa(3, 2)")]
        for spec, s in fixed:
            read_case(spec, s)
        # random token soups over the names of a set
        for _ in range(run.scale(120, 1200)):
            spec = rng.choice([sp_u, sp_t, sp_user, specs[4], specs[8]])
            names = list(spec.pset.mapping.keys()) + ["1", "-2", "True", "0.5", "zz9", "7"]
            toks = [rng.choice(names) for _ in range(rng.randint(1, 7))]
            s = rng.choice([" ", ", ", "(", ")", ","]).join(toks)
            read_case(spec, s)

        # str() of arbitrary (also ill-formed) node lists
        for _ in range(run.scale(120, 1200)):
            spec = rng.choice([sp_u, sp_t])
            cand = [v for v in spec.pset.mapping.values()]
            nodes = []
            for _ in range(rng.randint(0, 8)):
                n = rng.choice(cand)
                nodes.append(n() if isinstance(n, type) and rng.random() < 0.8 else n)
            tree = gp.PrimitiveTree(nodes)
            st = guard(str, tree)
            case = {"kind": "str-any", "set": spec.label, "nodes": node_names(nodes), "observed": st}
            run.note_case(case, True)
            if st[0] == "ok":
                try:
                    toks = [t for t in re.split("[ \t\n\r\f\v(),]", st[1]) if t != ""]
                    add("misc", "CStr %s %s %s %s" % (defs.name("ps", spec.c_pset()), coq_tree(spec, nodes), cstr(st[1]),
                                                     clist([cstr(t) for t in toks])), case)
                except Unsupported:
                    pass
            if well_formed(nodes):
                if st[0] != "ok" or "".join(st[1].split()) != "".join(printer(gp, nodes, spec).split()):
                    run.oracle_violation("str(tree) is not the prefix tree printed as name(a1, ..., an)", case, observed=st)

        # ------------------------------------------------------------------ renameArguments
        def rename_case(nargs, kargs, typed=False):
            s = mk_typed(nargs, 0) if typed else mk_untyped(nargs, small=True)
            tree, _ = gen_tree(s, 1, 3)
            before = defs.name("ps", s.c_pset())
            vals = grid(s, 2)
            exp = [guard(interp, gp, list(tree), s, tup, None) for tup in vals]
            r = guard(lambda: s.pset.renameArguments(**kargs))
            fresh = (len(set(kargs.values())) == len(kargs) and not any(v in s.pset.context or v in FUNCS for v in kargs.values())
                     and not any(v.startswith("ARG") or v.startswith("IN") for v in kargs.values()))
            case = {"kind": "rename", "nargs": nargs, "kargs": kargs, "observed_arguments": list(s.pset.arguments), "fresh": fresh}
            run.note_case(case, True)
            try:
                after = "None" if r[0] != "ok" else "(Some %s)" % s.c_pset()
                add("misc", "CRename %s %s %s" % (before, clist(["(%s, %s)" % (cstr(k), cstr(v)) for k, v in kargs.items()]), after), case)
            except Unsupported:
                pass
            if fresh and r[0] == "ok":
                # the statement's clause "(possibly renamed) arguments": the same tree object still denotes the same function
                check_tree(s, tree, "renamed", vals)
                for tup, e in zip(vals, exp):
                    g = guard(lambda: gp.compile(tree, s.pset)(*tup))
                    if g[0] != e[0] or (g[0] == "ok" and not same(g[1], e[1])):
                        run.oracle_violation("renaming arguments changed what the compiled tree computes", case,
                                             observed={"compiled": repr(g), "before": repr(e)})

        rename_case(2, {"ARG0": "x"})
        rename_case(2, {"ARG0": "x", "ARG1": "y"})
        rename_case(3, {"ARG2": "last"})
        rename_case(3, {"ARG9": "nothing"})
        rename_case(2, {"IN0": "p", "IN1": "q"}, typed=True)
        rename_case(2, {"ARG0": "ARG1", "ARG1": "ARG0"})       # colliding: outside the hypotheses, model must still agree
        rename_case(2, {"ARG0": "ARG0"})
        rename_case(2, {"ARG0": "ARG1"})
        rename_case(1, {"ARG0": "add"})
        for _ in range(run.scale(12, 120)):
            n = rng.randint(1, 4)
            pool_names = ["x", "y", "z", "w", "v1", "_t", "ARG0", "ARG1", "ARG2", "five"]
            kargs = {}
            for j in range(n):
                if rng.random() < 0.6:
                    kargs["ARG%d" % j] = rng.choice(pool_names if rng.random() < 0.3 else pool_names[:6])
            rename_case(n, kargs)

        # ------------------------------------------------------------------ building primitive sets (mapping / context keys)
        def build_case(prefix, tys, ops):
            """ops: list of (kind, name_or_value, args, ret) applied to a fresh PrimitiveSetTyped"""
            rev = {v: k for k, v in TYPE_IDS.items()}
            ps = gp.PrimitiveSetTyped("B", [rev[t] for t in tys], object, prefix)
            sp = Spec.__new__(Spec)
            sp.gp, sp.pset = gp, ps
            sp.argterms = [ps.mapping[a] for a in ps.arguments]
            cops = []
            ok = True
            for kind, x, args, ret in ops:
                try:
                    with warnings.catch_warnings():
                        warnings.simplefilter("ignore")
                        if kind == "prim":
                            ps.addPrimitive(lambda *a: 0, [rev[t] for t in args], rev[ret], name=x)
                            cops.append("(BPrim %s %s %s)" % (cstr(x), cnatl(args), cnat(ret)))
                        elif kind == "adf":
                            sub = gp.PrimitiveSetTyped(x, [rev[t] for t in args], rev[ret])
                            ps.addADF(sub)
                            cops.append("(BAdf %s %s %s)" % (cstr(x), cnatl(args), cnat(ret)))
                        elif kind == "const":
                            ps.addTerminal(x, rev[ret])
                            cops.append("(BConst %s %s)" % (c_cst(x), cnat(ret)))
                        elif kind == "named":
                            ps.addTerminal(12345, rev[ret], name=x)
                            cops.append("(BNamed %s %s)" % (cstr(x), cnat(ret)))
                        else:
                            ps.addEphemeralConstant(x, functools.partial(int, 3), rev[ret])
                            cops.append("(BEph %s %s)" % (cstr(x), cnat(ret)))
                except Exception:  # noqa  (AssertionError / Exception / AttributeError of the add* methods)
                    cops.append({"prim": "(BPrim %s %s %s)" % (cstr(x), cnatl(args), cnat(ret)),
                                 "named": "(BNamed %s %s)" % (cstr(x), cnat(ret)),
                                 "eph": "(BEph %s %s)" % (cstr(x), cnat(ret))}[kind])
                    ok = False
                    break
            case = {"kind": "build", "prefix": prefix, "in_types": tys, "ops": [(k, repr(x)) for k, x, _, _ in ops], "ok": ok}
            run.note_case(case, True)
            try:
                if ok:
                    names = [k for k in ps.context if k != "__builtins__"]
                    obs = "(Some (%s, %s))" % (sp.c_pset(), clist([cstr(k) for k in names]))
                else:
                    obs = "None"
                add("misc", "CBuild %s %s %s %s" % (cstr(prefix), cnatl(tys), clist(cops), obs), case)
            except Unsupported:
                pass

        build_case("ARG", [], [])
        build_case("ARG", [1, 3, 0], [("prim", "add", [1, 1], 1), ("const", True, [], 3), ("const", 1, [], 1), ("const", 0.0, [], 2),
                                      ("const", -0.0, [], 2), ("const", "ab", [], 4), ("named", "pi", [], 2), ("eph", "e", [], 1),
                                      ("adf", "ADF0", [1], 1)])
        build_case("x", [1] * 12, [("prim", "f", [1], 1), ("prim", "f", [1], 1)])
        build_case("A", [1], [("named", "n", [], 1), ("prim", "n", [1], 1)])
        build_case("A", [1], [("prim", "n", [1], 1), ("named", "n", [], 1)])
        build_case("A", [1], [("eph", "e", [], 1), ("eph", "e", [], 1)])
        build_case("A", [1], [("prim", "e", [1], 1), ("eph", "e", [], 1)])
        build_case("A", [1], [("const", True, [], 3), ("named", "True", [], 3)])
        build_case("A", [1, 1], [("prim", "A0", [1], 1), ("adf", "A1", [1], 1)])
        name_pool = ["f", "g", "h", "pi", "e", "A0", "k9"]
        val_pool = [0, 1, -1, 2, 7, True, False, 0.5, 1.0, 0.0, -2.5, "ab", "q"]
        for _ in range(run.scale(60, 600)):
            tys = [rng.choice([0, 1, 2, 3]) for _ in range(rng.randint(0, 3))]
            ops = []
            for _ in range(rng.randint(0, 7)):
                kind = rng.choice(["prim", "prim", "adf", "const", "const", "named", "eph"])
                if kind == "const":
                    v = rng.choice(val_pool)
                    ret = {bool: 3, int: 1, float: 2, str: 4}[type(v)]
                    ops.append((kind, v, [], ret))
                else:
                    ops.append((kind, rng.choice(name_pool), [rng.choice([0, 1, 2]) for _ in range(rng.randint(0, 3))], rng.choice([0, 1, 2])))
            build_case(rng.choice(["ARG", "A", "in_"]), tys, ops)

        # ------------------------------------------------------------------ exhaustive small scope
        # every well-formed prefix list with at most N nodes over {k0/0, neg/1, sub/2, ite/3, ARG0, ARG1, 1, -2}
        ex = Spec(gp, "MAIN", [object, object], object, True)
        ex.rawprim(lambda: 7, [], object, "k0", "(OpK 7)")
        ex.rawprim(operator.neg, [object], object, "neg", "OpNeg")
        ex.rawprim(operator.sub, [object, object], object, "sub", "OpSub")
        ex.rawprim(_ite, [object, object, object], object, "ite", "OpIte")
        ex.const(1, object)
        ex.const(-2, object)
        ex.label = "exhaustive"
        alphabet_nodes = [ex.pset.mapping[k] for k in ("k0", "neg", "sub", "ite", "ARG0", "ARG1", "1", "-2")]
        leaves = [n for n in alphabet_nodes if n.arity == 0]
        inner = [n for n in alphabet_nodes if n.arity > 0]

        def forests(k, budget):
            """all lists of k trees (as flat node lists) using at most budget nodes"""
            if k == 0:
                yield []
                return
            if budget < k:
                return
            for n in leaves:
                for rest in forests(k - 1, budget - 1):
                    yield [n] + rest
            for n in inner:
                for kids in forests(n.arity, budget - 1 - (k - 1)):
                    used = 1 + len(kids)
                    for rest in forests(k - 1, budget - used):
                        yield [n] + kids + rest

        nmax = run.scale(4, 6)
        ex_tuples = [(3, -5), (0, 2)]
        count = 0
        for nodes in forests(1, nmax):
            count += 1
            if nmax >= 6 and len(nodes) == 6 and count % 3:
                continue        # thin the largest layer
            check_tree(ex, gp.PrimitiveTree(nodes), "exhaustive<=%d" % nmax, ex_tuples)
    finally:
        gp.random = saved_random

    def search(run_):
        """DESIGN 3: an obligation (e.g. regenerated = model) or the correspondence broke and the regular cases gave no
        failing input: run the property oracle (no Coq cases) on a larger exhaustive scope and on fresh random trees."""
        gp.random = pyrandom.Random(run.seed * 7919 + 17)
        t_end = time.time() + run.scale(45, 500)
        n0 = len(run.oracle_viol)
        tried = 0
        try:
            for nodes in forests(1, nmax + 1):
                if time.time() > t_end or len(run.oracle_viol) > n0:
                    break
                if len(nodes) == nmax + 1:
                    tried += 1
                    check_tree(ex, gp.PrimitiveTree(nodes), "search:exhaustive<=%d" % (nmax + 1), ex_tuples, coq=False)
            while time.time() < t_end and len(run.oracle_viol) == n0:
                sp = rng.choice(specs)
                tree, src = gen_tree(sp)
                if tree is not None and len(tree) <= 400:
                    tried += 1
                    check_tree(sp, tree, "search:" + src, grid(sp, 3), coq=False)
        finally:
            gp.random = saved_random
        run.notes.append("search after a broken obligation / correspondence: %d further trees given to the oracle, %d violations"
                         % (tried, len(run.oracle_viol) - n0))

    run.search_fn = search

    run.extra_cov = {"tie": tie_cov.get("tie"), "regenerated_functions": tie_cov["regenerated_functions"],
                     "translator_refused": tie_cov["translator_refused"], "trees": stats["trees"], "trees_also_in_coq": stats["coq_trees"], "max_nodes": stats["max_nodes"],
                     "max_height": stats["max_height"], "compiled_evaluations": stats["evals"], "roundtrips": stats["roundtrips"],
                     "by_set": stats["by_set"], "by_source": stats["by_source"]}
    pre = defs.preamble() + "Definition subs := %s.\n" % C_SUBS
    any_fail = False
    for gname, (terms, cases) in groups.items():
        failing = run.correspond(gname, "C12", terms, cases, check=gen_check, requires=gen_requires, preamble=pre, shard=150)
        if failing and gen_check == "check_both" and not any_fail:
            # who disagrees with the implementation: the hand model, or the regenerated definitions (a translator fault)?
            any_fail = True
            sub = failing[:20]
            for g, chk in (("diagnosis_model", "check"), ("diagnosis_regenerated", "check_gen")):
                bad = run.correspond(g, "C12", [terms[i] for i in sub], [cases[i] for i in sub], check=chk,
                                     requires=gen_requires, preamble=pre, shard=150)
                run.notes.append("diagnosis (%s): of %d disagreeing cases, %s disagrees on %d" % (gname, len(sub), chk, len(bad)))
                run.corr_groups.pop(g, None)
            run.disagreements = [d for d in run.disagreements if d.get("group") not in ("diagnosis_model", "diagnosis_regenerated")]
    if gen_check != "check_both" and ok:
        # translated but not provably the model: do the regenerated definitions at least agree with the implementation?
        rc, out = vlib.coqc_file(GEN, cwd=vlib.COQ)
        if rc == 0:
            n_bad = 0
            for gname, (terms, cases) in groups.items():
                bad = run.correspond("diagnosis_regenerated", "C12", terms[:300], cases[:300], check="check_gen",
                                     requires=("From DV Require Import Gen.C12_gen.",), preamble=pre, shard=150)
                n_bad += len(bad)
            run.corr_groups.pop("diagnosis_regenerated", None)
            run.disagreements = [d for d in run.disagreements if d.get("group") != "diagnosis_regenerated"]
            run.notes.append("diagnosis: the regenerated definitions (not provably equal to the model) disagree with the "
                             "implementation on %d sampled cases" % n_bad)
        else:
            run.notes.append("diagnosis: the regenerated definitions do not compile: " + out[-400:])
