"""Fail-closed translator: the pure-Python kernels of deap/tools/emo.py that property C07 is about -> Gallina.

Tie (T) of property C07 (DESIGN.md 2.3).  The working-tree source of deap/tools/emo.py is parsed with `ast`;
the body of every function of the signature table SIG is compiled statement by statement into the style of the
hand model coq/Model/C07_Spea2.v / C07_RefPoints.v (lists as values with functional update, Z indices, an
explicit list of random.randint draws, loops with explicit fuel) and written to coq/Gen/C07_gen.v (never
committed) as `gen_<name>`.  coq/Proofs/C07_gen_equiv.v proves `gen_f args = Model.f args` for all arguments
and coq/Props/C07_gen.v restates the C07 theorems on the regenerated definitions.  A semantic change of the
source therefore breaks a proof obligation; a change outside the grammar makes the translator REFUSE that
function (class Refuse): it is then emitted as an alias of the model (marked `(* REFUSED *)`) and the check
falls back to the correspondence tie for it.

Grammar (everything else is refused):
  statements   docstring | x = e | x[i] = e | tuple assignment between names and subscripts (right-hand side
               evaluated first, targets assigned left to right) | x += e, x -= e | if / elif / else (with or
               without returns) | `while True:` whose body returns (-> loop_ret) | `while c:` without return /
               break (-> while_) | for i in range(..) (-> for_ over zrange) | return e
               | x = random.randint(a, b) (a typed draw site) | x = f(args) / return f(args) for a function f
               of the table (the mutable argument must be a plain name; it is rebound to the callee's array).
  expressions  int constants, names, x[i], + - * on ints, unary -, comparisons < <= > >= == != on ints,
               < > on numbers (a > b is rendered b < a, as CPython evaluates float comparison),
               <= >= == != on numbers (a <= b rendered (a < b) || (a == b)), len(x),
               / on numbers, numbers + - *.
Types: Z (Python int), T (the number type of the model: `numops`), list T, list (list T).
Trusted (documented in design_notes/C07.md): the signature table below (parameter types, which parameter is
the mutated array, fuel of `while` loops / recursion and the value an exhausted fuel reads as — the conventions
of the hand model), negative indices are not wrapped (getz reads index max(i,0); the code never reads one).
"""
import ast
import os


class Refuse(Exception):
    def __init__(self, node, why):
        self.node = type(node).__name__ if not isinstance(node, str) else node
        self.line = getattr(node, "lineno", None)
        self.why = why
        Exception.__init__(self, "%s at line %s: %s" % (self.node, self.line, why))


def refuse(node, why):
    raise Refuse(node, why)


# ---- signature table (trusted) -------------------------------------------------------------------
# params: (name, type); `mut` = the parameter mutated in place (threaded: the definition returns its final
# contents next to the result when ret_array); `draws` = uses random.randint (a `ds : list Z` parameter is
# appended and the remaining draws are returned); `wfuel` = fuel of every while loop (Gallina, may mention the
# current value of a local as v_<name>); `exhausted` = Python expression returned when the fuel runs out;
# `rec` = recursive (a leading `fuel : nat` parameter, structural recursion on it);
# `call_fuel` = fuel handed in by callers (Gallina, in terms of the actual argument named ARG);
# `alias` = the model term the definition is replaced by when refused.
SIG = {
    "_partition": dict(
        params=[("array", "listT"), ("begin", "Z"), ("end", "Z")], mut="array", ret="Z", ret_array=True,
        draws=False, wfuel="S (length v_array)", exhausted="j", rec=False,
        alias="partition Op v_array v_begin v_end"),
    "_randomizedPartition": dict(
        params=[("array", "listT"), ("begin", "Z"), ("end", "Z")], mut="array", ret="Z", ret_array=True,
        draws=True, wfuel=None, exhausted=None, rec=False,
        alias="let '(r, ds') := randint v_begin v_end ds in (rand_partition Op v_array v_begin v_end r, ds')"),
    "_randomizedSelect": dict(
        params=[("array", "listT"), ("begin", "Z"), ("end", "Z"), ("i", "Z")], mut="array", ret="T", ret_array=False,
        draws=True, wfuel=None, exhausted="array[begin]", rec=True, call_fuel="S (length ARG)",
        alias="rand_select Op fuel v_array v_begin v_end v_i ds"),
}
FUNCTIONS = list(SIG)
GEN_NAME = {"_partition": "gen_partition", "_randomizedPartition": "gen_randomizedPartition",
            "_randomizedSelect": "gen_randomizedSelect"}
COQ_TYPE = {"Z": "Z", "T": "T", "listT": "list T", "llT": "list (list T)", "bool": "bool", "nat": "nat"}
EXPECTED_IMPORTS = {"random": "import"}


def v(name):
    return "v_" + name


def zlit(n):
    return "%d%%Z" % n if n >= 0 else "(%d)%%Z" % n


def assigned_names(stmts):
    """names (re)bound by the statements, in order of first occurrence (subscript targets bind the array)"""
    out = []

    def add(n):
        if n not in out:
            out.append(n)

    def tgt(t):
        if isinstance(t, ast.Name):
            add(t.id)
        elif isinstance(t, ast.Subscript) and isinstance(t.value, ast.Name):
            add(t.value.id)
        elif isinstance(t, (ast.Tuple, ast.List)):
            for e in t.elts:
                tgt(e)
        else:
            refuse(t, "assignment target outside the grammar")

    def walk(ss):
        for s in ss:
            if isinstance(s, ast.Assign):
                for t in s.targets:
                    tgt(t)
                # a call of a table function rebinds its mutable argument
                if isinstance(s.value, ast.Call) and isinstance(s.value.func, ast.Name) and s.value.func.id in SIG \
                        and s.value.args and isinstance(s.value.args[0], ast.Name):
                    add(s.value.args[0].id)
            elif isinstance(s, ast.AugAssign):
                tgt(s.target)
            elif isinstance(s, ast.If):
                walk(s.body)
                walk(s.orelse)
            elif isinstance(s, (ast.While, ast.For)):
                if isinstance(s, ast.For):
                    tgt(s.target)
                walk(s.body)
                if s.orelse:
                    refuse(s, "loop with else")
            elif isinstance(s, (ast.Return, ast.Expr, ast.Pass)):
                pass
            else:
                refuse(s, "statement outside the grammar")
    walk(stmts)
    return out


def has_return(stmts):
    return any(isinstance(n, ast.Return) for s in stmts for n in ast.walk(s))


def terminates(stmts):
    if not stmts:
        return False
    s = stmts[-1]
    if isinstance(s, ast.Return):
        return True
    if isinstance(s, ast.If):
        return terminates(s.body) and terminates(s.orelse)
    if isinstance(s, ast.While) and isinstance(s.test, ast.Constant) and s.test.value is True:
        return True
    return False


class FnTr(object):
    """translation of one function"""

    def __init__(self, name, fn):
        self.name = name
        self.sig = SIG[name]
        self.fn = fn
        self.uses_draws = False

    # ---- expressions: return (text, type) --------------------------------------------------------
    def expr(self, e, env):
        if isinstance(e, ast.Constant):
            if isinstance(e.value, bool) or not isinstance(e.value, int):
                refuse(e, "constant %r outside the grammar" % (e.value,))
            return zlit(e.value), "Z"
        if isinstance(e, ast.Name):
            if e.id not in env:
                refuse(e, "name %s is not bound here (or was clobbered by a call)" % e.id)
            return v(e.id), env[e.id]
        if isinstance(e, ast.UnaryOp) and isinstance(e.op, ast.USub):
            a, ta = self.expr(e.operand, env)
            if ta != "Z":
                refuse(e, "unary minus on a non-int")
            return "(- %s)%%Z" % a, "Z"
        if isinstance(e, ast.BinOp):
            a, ta = self.expr(e.left, env)
            b, tb = self.expr(e.right, env)
            if ta == "Z" and tb == "Z":
                op = {ast.Add: "+", ast.Sub: "-", ast.Mult: "*"}.get(type(e.op))
                if op is None:
                    refuse(e, "integer operator %s outside the grammar" % type(e.op).__name__)
                return "(%s %s %s)%%Z" % (a, op, b), "Z"
            if ta == "T" and tb == "T":
                op = {ast.Add: "n_add", ast.Sub: "n_sub", ast.Mult: "n_mul", ast.Div: "n_div"}.get(type(e.op))
                if op is None:
                    refuse(e, "number operator %s outside the grammar" % type(e.op).__name__)
                return "(%s Op %s %s)" % (op, a, b), "T"
            refuse(e, "mixed int / number arithmetic")
        if isinstance(e, ast.Subscript):
            if isinstance(e.slice, ast.Slice):
                refuse(e, "slice")
            a, ta = self.expr(e.value, env)
            i, ti = self.expr(e.slice, env)
            if ti != "Z":
                refuse(e, "subscript index is not an int")
            if ta == "listT":
                return "(getz Op %s %s)" % (a, i), "T"
            refuse(e, "subscript of a value of type %s" % ta)
        if isinstance(e, ast.Compare):
            if len(e.ops) != 1:
                refuse(e, "chained comparison")
            a, ta = self.expr(e.left, env)
            b, tb = self.expr(e.comparators[0], env)
            op = type(e.ops[0])
            if ta == "Z" and tb == "Z":
                m = {ast.Lt: "(%s <? %s)%%Z" % (a, b), ast.LtE: "(%s <=? %s)%%Z" % (a, b),
                     ast.Gt: "(%s <? %s)%%Z" % (b, a), ast.GtE: "(%s <=? %s)%%Z" % (b, a),
                     ast.Eq: "(%s =? %s)%%Z" % (a, b), ast.NotEq: "(negb (%s =? %s)%%Z)" % (a, b)}
                if op not in m:
                    refuse(e, "comparison operator outside the grammar")
                return m[op], "bool"
            if ta == "T" and tb == "T":
                if op is ast.Lt:
                    return "(n_ltb Op %s %s)" % (a, b), "bool"
                if op is ast.Gt:
                    return "(n_ltb Op %s %s)" % (b, a), "bool"
                # a <= b is (a < b) or (a == b) in IEEE arithmetic as well as in the exact instance
                if op is ast.LtE:
                    return "(n_ltb Op %s %s || n_eqb Op %s %s)" % (a, b, a, b), "bool"
                if op is ast.GtE:
                    return "(n_ltb Op %s %s || n_eqb Op %s %s)" % (b, a, a, b), "bool"
                if op is ast.Eq:
                    return "(n_eqb Op %s %s)" % (a, b), "bool"
                if op is ast.NotEq:
                    return "(negb (n_eqb Op %s %s))" % (a, b), "bool"
                refuse(e, "number comparison outside the grammar")
            refuse(e, "comparison between %s and %s" % (ta, tb))
        if isinstance(e, ast.Call) and isinstance(e.func, ast.Name) and e.func.id == "len" and len(e.args) == 1 \
                and not e.keywords:
            a, ta = self.expr(e.args[0], env)
            if ta not in ("listT", "llT"):
                refuse(e, "len of a non-list")
            return "(Z.of_nat (length %s))" % a, "Z"
        refuse(e, "expression outside the grammar")

    def cond(self, e, env):
        if isinstance(e, ast.BoolOp):
            refuse(e, "and / or")
        c, t = self.expr(e, env)
        if t != "bool":
            refuse(e, "condition is not a comparison")
        return c

    # ---- return value ------------------------------------------------------------------------------
    def pack(self, arr, val):
        r = "(%s, %s)" % (arr, val) if self.sig["ret_array"] else val
        return "(%s, ds)" % r if self.sig["draws"] else r

    def ret_type(self):
        r = COQ_TYPE[self.sig["ret"]]
        if self.sig["ret_array"]:
            r = "%s * %s" % (COQ_TYPE[dict(self.sig["params"])[self.sig["mut"]]], r)
        return "(%s) * list Z" % r if self.sig["draws"] else r

    def call(self, c, env, ctx):
        """a call of a table function: returns (binder prefix, value text, value type); rebinds the array"""
        f = c.func.id
        cs = SIG[f]
        if c.keywords or len(c.args) != len(cs["params"]):
            refuse(c, "call of %s with other than its positional parameters" % f)
        if ctx.get("in_loop") and cs["draws"]:
            refuse(c, "a function that draws random numbers is called inside a loop")
        args = []
        arrname = None
        for (pn, pt), a in zip(cs["params"], c.args):
            if pn == cs["mut"]:
                if not isinstance(a, ast.Name):
                    refuse(a, "the mutated argument of %s is not a plain name" % f)
                arrname = a.id
            t, ty = self.expr(a, env)
            if ty != pt:
                refuse(a, "argument %s of %s has type %s, expected %s" % (pn, f, ty, pt))
            args.append(t)
        if cs["draws"] and not self.sig["draws"]:
            refuse(c, "%s draws random numbers but the caller is not declared to" % f)
        head = GEN_NAME[f]
        if cs["rec"]:
            if f == self.name:
                head += " fuel"
            else:
                head += " (%s)" % cs["call_fuel"].replace("ARG", v(arrname))
        text = "%s %s%s" % (head, " ".join(args), " ds" if cs["draws"] else "")
        return text, cs, arrname

    # ---- statements ----------------------------------------------------------------------------------
    def block(self, stmts, env, ctx):
        """Gallina text of the statements followed by ctx['tail'](env) when they fall through."""
        if not stmts:
            return ctx["tail"](env)
        s, rest = stmts[0], stmts[1:]
        env = dict(env)

        def go():
            return self.block(rest, env, ctx)

        if isinstance(s, ast.Expr) and isinstance(s.value, ast.Constant) and isinstance(s.value.value, str):
            return go()
        if isinstance(s, ast.Pass):
            return go()
        if isinstance(s, ast.Return):
            if s.value is None:
                refuse(s, "return without a value")
            if ctx.get("no_return"):
                refuse(s, "return inside this kind of loop")
            mut = self.sig["mut"]
            if mut not in env:
                refuse(s, "the array parameter is not bound at return")
            if isinstance(s.value, ast.Call) and isinstance(s.value.func, ast.Name) and s.value.func.id in SIG:
                text, cs, arrname = self.call(s.value, env, ctx)
                if arrname != mut:
                    refuse(s, "tail call on an array other than the parameter")
                if cs["ret"] != self.sig["ret"]:
                    refuse(s, "tail call returns another type")
                if cs["ret_array"] == self.sig["ret_array"] and cs["draws"] == self.sig["draws"]:
                    res = text
                else:
                    pat = "(%s, r_)" % v(mut) if cs["ret_array"] else "r_"
                    if cs["draws"]:
                        pat = "(%s, ds)" % pat
                    if not cs["ret_array"] and self.sig["ret_array"]:
                        refuse(s, "the callee does not return the array the caller must return")
                    res = "let '%s := %s in %s" % (pat, text, self.pack(v(mut), "r_"))
            else:
                val, ty = self.expr(s.value, env)
                if ty != self.sig["ret"]:
                    refuse(s, "returns a value of type %s, expected %s" % (ty, self.sig["ret"]))
                res = self.pack(v(mut), val)
            return ctx["wrap_ret"](res)
        if isinstance(s, ast.Assign):
            if len(s.targets) != 1:
                refuse(s, "chained assignment")
            t = s.targets[0]
            val = s.value
            # typed draw site
            if isinstance(val, ast.Call) and isinstance(val.func, ast.Attribute) and isinstance(val.func.value, ast.Name) \
                    and val.func.value.id == "random":
                if val.func.attr != "randint" or len(val.args) != 2 or val.keywords or not isinstance(t, ast.Name):
                    refuse(s, "draw site other than x = random.randint(a, b)")
                if not self.sig["draws"] or ctx.get("in_loop"):
                    refuse(s, "draw site in a function / loop not declared to draw")
                a, ta = self.expr(val.args[0], env)
                b, tb = self.expr(val.args[1], env)
                if ta != "Z" or tb != "Z":
                    refuse(s, "randint bounds are not ints")
                env[t.id] = "Z"
                return "let '(%s, ds) := randint %s %s ds in\n%s" % (v(t.id), a, b, go())
            if isinstance(val, ast.Call) and isinstance(val.func, ast.Name) and val.func.id in SIG:
                if not isinstance(t, ast.Name):
                    refuse(s, "call result assigned to a non-name")
                text, cs, arrname = self.call(val, env, ctx)
                pat = v(t.id)
                if cs["ret_array"]:
                    pat = "(%s, %s)" % (v(arrname), pat)
                else:
                    env.pop(arrname, None)          # the callee's final array is not returned: clobbered
                if cs["draws"]:
                    pat = "(%s, ds)" % pat
                env[t.id] = cs["ret"]
                if "(" in pat:
                    return "let '%s := %s in\n%s" % (pat, text, go())
                return "let %s := %s in\n%s" % (pat, text, go())
            if isinstance(t, ast.Tuple):
                if not isinstance(val, ast.Tuple) or len(val.elts) != len(t.elts):
                    refuse(s, "tuple assignment from a non-tuple")
                out = ""
                tmps = []
                for n, e in enumerate(val.elts):
                    x, ty = self.expr(e, env)
                    tmps.append(("t%d_" % n, ty))
                    out += "let t%d_ := %s in\n" % (n, x)
                for (tn, ty), tg in zip(tmps, t.elts):
                    out += self.assign_to(tg, tn, ty, env)
                return out + go()
            x, ty = self.expr(val, env)
            return self.assign_to(t, x, ty, env) + go()
        if isinstance(s, ast.AugAssign):
            if not isinstance(s.target, ast.Name):
                refuse(s, "augmented assignment to a non-name")
            e = ast.BinOp(left=ast.Name(id=s.target.id, ctx=ast.Load()), op=s.op, right=s.value)
            ast.copy_location(e, s)
            ast.copy_location(e.left, s)
            x, ty = self.expr(e, env)
            return self.assign_to(s.target, x, ty, env) + go()
        if isinstance(s, ast.If):
            c = self.cond(s.test, env)
            if has_return(s.body) or has_return(s.orelse) or not rest:
                # the rest of the block is the continuation of every branch that falls through
                sub = dict(ctx, tail=lambda env2: self.block(rest, env2, ctx))
                if rest and not terminates(s.body) and not terminates(s.orelse):
                    refuse(s, "if with a return in one branch while both branches may fall through")
                a = self.block(s.body, env, sub)
                b = self.block(s.orelse, env, sub)
                return "if %s then (\n%s\n) else (\n%s\n)" % (c, a, b)
            names = [n for n in assigned_names(s.body + s.orelse)]
            for n in names:
                if n not in env:
                    refuse(s, "name %s is first bound inside an if" % n)
            tup = "(%s)" % ", ".join(v(n) for n in names) if len(names) != 1 else v(names[0])
            sub = dict(ctx, tail=lambda env2: tup)
            a = self.block(s.body, env, sub)
            b = self.block(s.orelse, env, sub)
            if not names:
                return go()
            q = "'" if len(names) > 1 else ""
            return "let %s%s := if %s then (\n%s\n) else (\n%s\n) in\n%s" % (q, tup, c, a, b, go())
        if isinstance(s, ast.While):
            if s.orelse:
                refuse(s, "while with else")
            if any(isinstance(n, (ast.Break, ast.Continue)) for n in ast.walk(s)):
                refuse(s, "break / continue in a while")
            fuel = self.sig["wfuel"]
            if fuel is None:
                refuse(s, "while loop in a function the table gives no fuel for")
            names = assigned_names(s.body)
            for n in names:
                if n not in env:
                    refuse(s, "name %s is first bound inside a loop" % n)
            tup = "(%s)" % ", ".join(v(n) for n in names) if len(names) != 1 else v(names[0])
            pat = "'%s" % tup if len(names) > 1 else tup
            if isinstance(s.test, ast.Constant) and s.test.value is True:
                if rest:
                    refuse(rest[0], "statement after `while True` (unreachable)")
                if ctx.get("in_loop"):
                    refuse(s, "nested `while True`")
                ex = ast.parse(self.sig["exhausted"], mode="eval").body
                xv, xt = self.expr(ex, env)
                if xt != self.sig["ret"]:
                    refuse(s, "exhausted value has the wrong type")
                sub = dict(ctx, in_loop=True, tail=lambda env2: "Next %s" % tup,
                           wrap_ret=lambda r: "Ret (%s)" % r)
                body = self.block(s.body, env, sub)
                return ctx["wrap_ret"]("loop_ret (%s) (fun %s =>\n%s) (fun %s => %s) %s" % (
                    fuel, pat, body, pat, self.pack(v(self.sig["mut"]), xv), tup))
            if has_return(s.body):
                refuse(s, "return inside a conditional while")
            c = self.cond(s.test, env)
            sub = dict(ctx, in_loop=True, no_return=True, tail=lambda env2: tup)
            body = self.block(s.body, env, sub)
            return "let %s := while_ (%s) (fun %s => %s) (fun %s =>\n%s) %s in\n%s" % (
                pat, fuel, pat, c, pat, body, tup, go())
        refuse(s, "statement outside the grammar")

    def assign_to(self, t, x, ty, env):
        if isinstance(t, ast.Name):
            if t.id in env and env[t.id] != ty:
                refuse(t, "name %s changes type from %s to %s" % (t.id, env[t.id], ty))
            if t.id in [p for p, _ in self.sig["params"]] and t.id != self.sig["mut"] and ty != dict(self.sig["params"])[t.id]:
                refuse(t, "parameter rebound at another type")
            env[t.id] = ty
            return "let %s := %s in\n" % (v(t.id), x)
        if isinstance(t, ast.Subscript) and isinstance(t.value, ast.Name) and not isinstance(t.slice, ast.Slice):
            a = t.value.id
            if env.get(a) != "listT" or ty != "T":
                refuse(t, "subscript assignment outside list-of-numbers[i] = number")
            i, ti = self.expr(t.slice, env)
            if ti != "Z":
                refuse(t, "subscript index is not an int")
            return "let %s := setz %s %s %s in\n" % (v(a), v(a), i, x)
        refuse(t, "assignment target outside the grammar")

    # ---- the function -------------------------------------------------------------------------------
    def header(self):
        ps = " ".join("(%s : %s)" % (v(p), COQ_TYPE[t]) for p, t in self.sig["params"])
        if self.sig["rec"]:
            ps = "(fuel : nat) " + ps
        if self.sig["draws"]:
            ps += " (ds : list Z)"
        return "%s %s %s : %s :=" % ("Fixpoint" if self.sig["rec"] else "Definition", GEN_NAME[self.name], ps,
                                     self.ret_type())

    def translate(self):
        fn = self.fn
        a = fn.args
        if a.vararg or a.kwarg or a.kwonlyargs or a.defaults or a.posonlyargs or fn.decorator_list:
            refuse(fn, "parameter list / decorators outside the grammar")
        if [x.arg for x in a.args] != [p for p, _ in self.sig["params"]]:
            refuse(fn, "parameters %r differ from the signature table" % [x.arg for x in a.args])
        for n in ast.walk(fn):
            if isinstance(n, (ast.Global, ast.Nonlocal, ast.Lambda, ast.FunctionDef, ast.Try, ast.With, ast.Yield,
                              ast.YieldFrom, ast.ListComp, ast.GeneratorExp, ast.Delete, ast.Raise, ast.Assert)) \
                    and n is not fn:
                refuse(n, "construct outside the grammar")
        env = {p: t for p, t in self.sig["params"]}
        for n in assigned_names(fn.body):
            if n in SIG or n in ("random", "len"):
                refuse(fn, "local name %s shadows a name the translation gives a meaning to" % n)
        if not terminates(fn.body):
            refuse(fn, "the body may fall off its end")
        ctx = dict(tail=lambda env2: refuse(fn, "the body may fall off its end"), wrap_ret=lambda r: r)
        body = self.block(fn.body, env, ctx)
        if self.sig["rec"]:
            ex = ast.parse(self.sig["exhausted"], mode="eval").body
            xv, xt = self.expr(ex, env)
            body = "match fuel with\n| O => %s\n| S fuel =>\n%s\nend" % (self.pack(v(self.sig["mut"]), xv), body)
        return "%s\n%s." % (self.header(), body)

    def alias(self, why):
        hdr = self.header()
        if self.sig["rec"]:
            hdr = hdr.replace("Fixpoint", "Definition", 1)
        return "(* REFUSED: %s *)\n%s\n%s." % (str(why).replace("*)", "* )"), hdr, self.sig["alias"])


HEADER = """(* GENERATED by harness/c07_py2coq.py from %s — do not edit, never committed.
   %s *)
From Coq Require Import List ZArith Bool.
From DV Require Import Base.PyList Base.C07_Num Model.C07_Spea2 Model.C07_RefPoints Model.C07_GenRt.
Import ListNotations.

Section Gen.
Context {T : Type} (Op : numops T).

"""


def check_module(tree):
    """the names the translation gives a fixed meaning to must be bound at module level as expected"""
    seen = {}
    for n in tree.body:
        if isinstance(n, ast.Import):
            for al in n.names:
                seen[al.asname or al.name.split(".")[0]] = ("import", al.name)
        elif isinstance(n, ast.ImportFrom):
            for al in n.names:
                seen[al.asname or al.name] = ("from", n.module)
        elif isinstance(n, (ast.FunctionDef, ast.ClassDef)):
            seen[n.name] = ("def", n.lineno)
        elif isinstance(n, ast.Assign):
            for t in n.targets:
                for x in ast.walk(t):
                    if isinstance(x, ast.Name):
                        seen[x.id] = ("assign", n.lineno)
    if seen.get("random") != ("import", "random"):
        raise Refuse("Module", "the name `random` is not `import random`")
    if "len" in seen:
        raise Refuse("Module", "the builtin len is rebound at module level")
    return seen


def translate_source(text, origin="deap/tools/emo.py", forced=None):
    """-> (Gallina text, {function: None | Refuse})"""
    forced = dict(forced or {})
    for f in os.environ.get("C07_FORCE_REFUSE", "").split(","):       # testing hook: proof scripts against the aliases
        if f.strip():
            forced.setdefault(f.strip(), Refuse("FunctionDef", "forced refusal (C07_FORCE_REFUSE)"))
    status = {}
    defs = {}
    try:
        tree = ast.parse(text)
        seen = check_module(tree)
        modfail = None
    except (SyntaxError, Refuse) as e:
        tree, seen, modfail = None, {}, e
    out = []
    for name in FUNCTIONS:
        why = None
        tr = FnTr(name, None)
        if modfail is not None:
            why = modfail
        elif name in forced:
            why = forced[name]
        else:
            fns = [n for n in tree.body if isinstance(n, ast.FunctionDef) and n.name == name]
            if len(fns) != 1 or seen.get(name, ("",))[0] != "def" or seen[name][1] != fns[0].lineno:
                why = Refuse("Module", "%s is not defined exactly once at module level" % name)
            else:
                tr = FnTr(name, fns[0])
                try:
                    # a translated function may only call table functions that were themselves found
                    out.append(tr.translate())
                except Refuse as e:
                    why = e
                except RecursionError as e:  # noqa
                    why = Refuse("FunctionDef", "translator recursion limit")
        if why is not None:
            out.append(tr.alias(why))
        status[name] = why
    summary = "; ".join("%s: %s" % (f, "regenerated" if status[f] is None else "REFUSED") for f in FUNCTIONS)
    return HEADER % (origin, summary) + "\n\n".join(out) + "\n\nEnd Gen.\n", status


def translate_repo(repo, forced=None):
    path = os.path.join(repo, "deap", "tools", "emo.py")
    with open(path) as f:
        text = f.read()
    return translate_source(text, "deap/tools/emo.py", forced)


if __name__ == "__main__":
    import sys
    txt, st = translate_repo(sys.argv[1] if len(sys.argv) > 1 else os.environ.get("VERIF_REPO", "/repo"))
    sys.stdout.write(txt)
    for k, val in st.items():
        sys.stderr.write("%s: %s\n" % (k, "ok" if val is None else val))
