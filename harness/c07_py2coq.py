"""Fail-closed translator: the pure-Python kernels of deap/tools/emo.py that property C07 is about -> Gallina.

Tie (T) of property C07 (DESIGN.md 2.3).  The working-tree source of deap/tools/emo.py is parsed with `ast`;
the body of every function of the signature table SIG is compiled statement by statement into the style of the
hand model coq/Model/C07_Spea2.v / C07_RefPoints.v (lists as values with functional update, Z indices, an
explicit list of random.randint draws, loops with explicit fuel) and written to coq/Gen/C07_gen.v (never
committed) as `gen_<name>`.  coq/Proofs/C07_gen_equiv.v proves `gen_f args = Model.f args` for all arguments
and coq/Props/C07_gen.v restates the C07 theorems on the regenerated definitions.  A semantic change of the
source therefore breaks a proof obligation; a change outside the grammar makes the translator REFUSE that
function (class Refuse): it is then emitted as an alias of the model (marked `(* REFUSED *)`) and the check
falls back to the correspondence tie for it.

Grammar (everything else is refused):
  statements   docstring | x = e | x[i] = e | tuple assignment between names and subscripts (right-hand side
               evaluated first, targets assigned left to right) | x += e, x -= e | if / elif / else (with or
               without returns) | `while True:` whose body returns (-> loop_ret) | `while c:` without return /
               break (-> while_) | for i in range(..) (-> for_ over zrange) | return e
               | x = random.randint(a, b) (a typed draw site) | x = f(args) / return f(args) for a function f
               of the table (the mutable argument must be a plain name; it is rebound to the callee's array).
  expressions  int constants, names, x[i], + - * on ints, unary -, comparisons < <= > >= == != on ints,
               < > on numbers (a > b is rendered b < a, as CPython evaluates float comparison),
               <= >= == != on numbers (a <= b rendered (a < b) || (a == b)), len(x),
               / on numbers, numbers + - *.
Types: Z (Python int), T (the number type of the model: `numops`), list T, list (list T).
The above is the grammar of the Z-typed functions (_partition, _randomizedPartition, _randomizedSelect, gen_refs_recursive,
uniform_reference_points: class FnTr).  selSPEA2 is translated by class SpeaTr (natural numbers as Coq nats, individuals as
pairs of number lists, lists of lists, Python numbers `pynum` for a list that holds ints first and floats later, `for`
with `break`, `while` with fuel, `del`, `sort()`, `reversed(sorted(..))`; see the comment at SPEA and design_notes/C07.md);
its top level and the bodies of its two archive branches are three separately refusable units.
Trusted (documented in design_notes/C07.md): the signature table below (parameter types, which parameter is
the mutated array, fuel of `while` loops / recursion and the value an exhausted fuel reads as — the conventions
of the hand model), negative indices are not wrapped (getz reads index max(i,0); the code never reads one).
"""
import ast
import os


class Refuse(Exception):
    def __init__(self, node, why):
        self.node = type(node).__name__ if not isinstance(node, str) else node
        self.line = getattr(node, "lineno", None)
        self.why = why
        Exception.__init__(self, "%s at line %s: %s" % (self.node, self.line, why))


def refuse(node, why):
    raise Refuse(node, why)


# ---- signature table (trusted) -------------------------------------------------------------------
# params: (name, type); `mut` = the parameter mutated in place (threaded: the definition returns its final
# contents next to the result when ret_array); `draws` = uses random.randint (a `ds : list Z` parameter is
# appended and the remaining draws are returned); `wfuel` = fuel of every while loop (Gallina, may mention the
# current value of a local as v_<name>); `exhausted` = Python expression returned when the fuel runs out;
# `rec` = recursive (a leading `fuel : nat` parameter, structural recursion on it);
# `call_fuel` = fuel handed in by callers (Gallina, in terms of the actual argument named ARG);
# `alias` = the model term the definition is replaced by when refused.
SIG = {
    "_partition": dict(
        params=[("array", "listT"), ("begin", "Z"), ("end", "Z")], mut="array", ret="Z", ret_array=True,
        draws=False, wfuel="S (length v_array)", exhausted="j", rec=False,
        alias="partition Op v_array v_begin v_end"),
    "_randomizedPartition": dict(
        params=[("array", "listT"), ("begin", "Z"), ("end", "Z")], mut="array", ret="Z", ret_array=True,
        draws=True, wfuel=None, exhausted=None, rec=False,
        alias="let '(r, ds') := randint v_begin v_end ds in (rand_partition Op v_array v_begin v_end r, ds')"),
    "_randomizedSelect": dict(
        params=[("array", "listT"), ("begin", "Z"), ("end", "Z"), ("i", "Z")], mut="array", ret="T", ret_array=False,
        draws=True, wfuel=None, exhausted="array[begin]", rec=True, call_fuel="S (length ARG)",
        alias="rand_select Op fuel v_array v_begin v_end v_i ds"),
    # the nested generator of uniform_reference_points; `ref` is a float vector (numpy.zeros(nobj)), the ints are Z;
    # int / int is true division of the two ints converted to floats (exact below 2^53)
    "gen_refs_recursive": dict(
        parent="uniform_reference_points",
        params=[("ref", "listT"), ("nobj", "Z"), ("left", "Z"), ("total", "Z"), ("depth", "Z")], mut="ref", ret="llT",
        ret_array=False, draws=False, wfuel=None, exhausted="[]", rec=True, call_fuel="S (Z.to_nat ARGnobj)",
        locals={"points": "llT"},
        alias="gen_refs_model Op fuel v_ref v_nobj v_left v_total v_depth"),
    # numpy primitives (declared): numpy.zeros(n) = n zeros, numpy.array(rows) = the rows, `a *= s` / `a += c` on an array and
    # a scalar are elementwise; int op float converts the int (float(z)); p=4 / scaling=None defaults are call-site sugar
    "uniform_reference_points": dict(
        params=[("nobj", "Z"), ("p", "Z"), ("scaling", "optT")], mut=None, ret="llT", ret_array=False, draws=False,
        wfuel=None, exhausted=None, rec=False, defaults_ok=True, locals={},
        alias="ref_points Op (Z.to_nat v_nobj) (Z.to_nat v_p) v_scaling"),
}
# selSPEA2 is translated by SpeaTr (below): individuals are pairs (fitness.values, fitness.wvalues) of number lists and
# are identified with their index in the input list (the model's convention: the result is the list chosen_indices);
# ints that are provably natural numbers (len, range / enumerate variables, counters) are Coq nats, a subtraction
# gives a Z.  The two branch bodies of the top-level `if len(chosen_indices) < k: ... elif len(chosen_indices) > k:`
# are separate UNITS with the interface below (names read from the enclosing function -> names handed back);
# a unit the translator cannot translate is refused on its own (alias of the model's branch function).
SPEA = dict(
    name="selSPEA2", params=["individuals", "k"],
    units=[
        dict(key="selSPEA2.fill", gen="gen_selSPEA2_fill",
             reads=["individuals", "k", "N", "L", "K", "fits", "chosen_indices"], writes=["chosen_indices"], draws=True,
             alias="fill_branch Op (map fst v_individuals) v_N v_k v_fits v_chosen_indices ds"),
        dict(key="selSPEA2.trunc", gen="gen_selSPEA2_trunc",
             reads=["individuals", "k", "L", "chosen_indices"], writes=["chosen_indices"], draws=False,
             wfuel="S (length v_chosen_indices)",
             alias="trunc_branch Op (map fst v_individuals) v_k v_chosen_indices"),
    ],
    types={"individuals": "inds", "k": "nat", "N": "nat", "L": "nat", "K": "Z", "fits": "listnat",
           "chosen_indices": "listnat"},
    alias="spea2 Op (map fst v_individuals) (map snd v_individuals) v_k ds")
FUNCTIONS = list(SIG) + ["selSPEA2"] + [u["key"] for u in SPEA["units"]]
GEN_NAME = {"_partition": "gen_partition", "_randomizedPartition": "gen_randomizedPartition",
            "_randomizedSelect": "gen_randomizedSelect", "selSPEA2": "gen_selSPEA2",
            "selSPEA2.fill": "gen_selSPEA2_fill", "selSPEA2.trunc": "gen_selSPEA2_trunc",
            "gen_refs_recursive": "gen_refs_recursive", "uniform_reference_points": "gen_uniform_reference_points"}
COQ_TYPE = {"optT": "option T", "Z": "Z", "T": "T", "listT": "list T", "llT": "list (list T)", "bool": "bool", "nat": "nat",
            "listnat": "list nat", "llnat": "list (list nat)", "inds": "list (list T * list T)", "ind": "(list T * list T)",
            "pn": "pynum T", "listpn": "list (pynum T)", "pnnat": "(pynum T * nat)", "lpnnat": "list (pynum T * nat)"}
DEFAULT = {"pn": "(@PI T 0%nat)", "pnnat": "(@PI T 0%nat, 0%nat)", "nat": "0%nat", "listnat": "(@nil nat)", "ind": "(@nil T, @nil T)", "listT": "(@nil T)", "T": "(n_ofZ Op 0%Z)"}
ELT = {"listpn": "pn", "lpnnat": "pnnat", "listnat": "nat", "llnat": "listnat", "inds": "ind", "llT": "listT", "listT": "T"}
EXPECTED_IMPORTS = {"random": "import"}


def v(name):
    return "ds" if name == "$ds" else "v_" + name


def zlit(n):
    return "%d%%Z" % n if n >= 0 else "(%d)%%Z" % n


def assigned_names(stmts):
    """names (re)bound by the statements, in order of first occurrence (subscript targets bind the array)"""
    out = []

    def add(n):
        if n not in out:
            out.append(n)

    def tgt(t):
        if isinstance(t, ast.Name):
            add(t.id)
        elif isinstance(t, ast.Subscript) and isinstance(t.value, ast.Name):
            add(t.value.id)
        elif isinstance(t, (ast.Tuple, ast.List)):
            for e in t.elts:
                tgt(e)
        else:
            refuse(t, "assignment target outside the grammar")

    def walk(ss):
        for s in ss:
            if isinstance(s, ast.Assign):
                for t in s.targets:
                    tgt(t)
                # a call of a table function rebinds its mutable argument
                if isinstance(s.value, ast.Call) and isinstance(s.value.func, ast.Name) and s.value.func.id in SIG \
                        and s.value.args and isinstance(s.value.args[0], ast.Name):
                    add(s.value.args[0].id)
            elif isinstance(s, ast.AugAssign):
                tgt(s.target)
            elif isinstance(s, ast.If):
                walk(s.body)
                walk(s.orelse)
            elif isinstance(s, (ast.While, ast.For)):
                if isinstance(s, ast.For):
                    tgt(s.target)
                walk(s.body)
                if s.orelse:
                    refuse(s, "loop with else")
            elif isinstance(s, ast.Expr) and isinstance(s.value, ast.Call) and isinstance(s.value.func, ast.Attribute) \
                    and s.value.func.attr in ("append", "extend") and isinstance(s.value.func.value, ast.Name):
                add(s.value.func.value.id)
            elif isinstance(s, (ast.Return, ast.Expr, ast.Pass)):
                pass
            elif isinstance(s, ast.FunctionDef) and s.name in SIG:
                pass
            else:
                refuse(s, "statement outside the grammar")
    walk(stmts)
    return out


def has_return(stmts):
    return any(isinstance(n, ast.Return) for s in stmts for n in ast.walk(s))


def terminates(stmts):
    if not stmts:
        return False
    s = stmts[-1]
    if isinstance(s, ast.Return):
        return True
    if isinstance(s, ast.If):
        return terminates(s.body) and terminates(s.orelse)
    if isinstance(s, ast.While) and isinstance(s.test, ast.Constant) and s.test.value is True:
        return True
    return False


class FnTr(object):
    """translation of one function"""

    def __init__(self, name, fn):
        self.name = name
        self.sig = SIG[name]
        self.fn = fn
        self.uses_draws = False

    # ---- expressions: return (text, type) --------------------------------------------------------
    def expr(self, e, env, want=None):
        if isinstance(e, ast.Constant):
            if isinstance(e.value, bool) or not isinstance(e.value, int):
                refuse(e, "constant %r outside the grammar" % (e.value,))
            return zlit(e.value), "Z"
        if isinstance(e, ast.List) and not e.elts and want == "llT":
            return "(@nil (list T))", "llT"
        if isinstance(e, ast.Name):
            if e.id not in env:
                refuse(e, "name %s is not bound here (or was clobbered by a call)" % e.id)
            if e.id in env.get("$esc", ()):
                refuse(e, "%s is used after it was stored in a list (aliasing is not modelled)" % e.id)
            return v(e.id), env[e.id]
        if isinstance(e, ast.Call) and isinstance(e.func, ast.Attribute) and e.func.attr == "copy" and not e.args \
                and not e.keywords and isinstance(e.func.value, ast.Name):
            a, ta = self.expr(e.func.value, env)
            if ta != "listT":
                refuse(e, "copy of something else than a number vector")
            return a, ta                          # values: a copy is the value itself
        if isinstance(e, ast.Call) and isinstance(e.func, ast.Attribute) and isinstance(e.func.value, ast.Name) \
                and e.func.value.id == "numpy" and len(e.args) == 1 and not e.keywords:
            if e.func.attr == "zeros":
                a, ta = self.expr(e.args[0], env)
                if ta != "Z":
                    refuse(e, "numpy.zeros of a non-int")
                return "(repeat (n_ofZ Op 0%%Z) (Z.to_nat %s))" % a, "listT"
            if e.func.attr == "array":
                a0 = e.args[0]
                if isinstance(a0, ast.Call) and isinstance(a0.func, ast.Name) and a0.func.id in SIG:
                    text, cs, arrname = self.call(a0, env, {})
                    if cs["ret"] != "llT" or cs["ret_array"] or cs["draws"] or arrname is not None:
                        refuse(e, "numpy.array of a call outside the grammar")
                    return "(%s)" % text, "llT"
                a, ta = self.expr(a0, env)
                if ta != "llT":
                    refuse(e, "numpy.array of something else than a list of number vectors")
                return a, "llT"
            refuse(e, "numpy function outside the grammar")
        if isinstance(e, ast.UnaryOp) and isinstance(e.op, ast.USub):
            a, ta = self.expr(e.operand, env)
            if ta != "Z":
                refuse(e, "unary minus on a non-int")
            return "(- %s)%%Z" % a, "Z"
        if isinstance(e, ast.BinOp):
            a, ta = self.expr(e.left, env)
            b, tb = self.expr(e.right, env)
            if ta == "Z" and tb == "Z":
                if isinstance(e.op, ast.Div):         # true division of ints: float(a) / float(b)
                    return "(n_div Op (n_ofZ Op %s) (n_ofZ Op %s))" % (a, b), "T"
                op = {ast.Add: "+", ast.Sub: "-", ast.Mult: "*"}.get(type(e.op))
                if op is None:
                    refuse(e, "integer operator %s outside the grammar" % type(e.op).__name__)
                return "(%s %s %s)%%Z" % (a, op, b), "Z"
            if ta == "T" and tb == "T":
                op = {ast.Add: "n_add", ast.Sub: "n_sub", ast.Mult: "n_mul", ast.Div: "n_div"}.get(type(e.op))
                if op is None:
                    refuse(e, "number operator %s outside the grammar" % type(e.op).__name__)
                return "(%s Op %s %s)" % (op, a, b), "T"
            if {ta, tb} == {"Z", "T"}:                 # int op float: the int is converted
                op = {ast.Add: "n_add", ast.Sub: "n_sub", ast.Mult: "n_mul", ast.Div: "n_div"}.get(type(e.op))
                if op is None:
                    refuse(e, "number operator %s outside the grammar" % type(e.op).__name__)
                a2 = a if ta == "T" else "(n_ofZ Op %s)" % a
                b2 = b if tb == "T" else "(n_ofZ Op %s)" % b
                return "(%s Op %s %s)" % (op, a2, b2), "T"
            refuse(e, "arithmetic between %s and %s" % (ta, tb))
        if isinstance(e, ast.Subscript):
            if isinstance(e.slice, ast.Slice):
                refuse(e, "slice")
            a, ta = self.expr(e.value, env)
            i, ti = self.expr(e.slice, env)
            if ti != "Z":
                refuse(e, "subscript index is not an int")
            if ta == "listT":
                return "(getz Op %s %s)" % (a, i), "T"
            refuse(e, "subscript of a value of type %s" % ta)
        if isinstance(e, ast.Compare):
            if len(e.ops) != 1:
                refuse(e, "chained comparison")
            a, ta = self.expr(e.left, env)
            b, tb = self.expr(e.comparators[0], env)
            op = type(e.ops[0])
            if ta == "Z" and tb == "Z":
                m = {ast.Lt: "(%s <? %s)%%Z" % (a, b), ast.LtE: "(%s <=? %s)%%Z" % (a, b),
                     ast.Gt: "(%s <? %s)%%Z" % (b, a), ast.GtE: "(%s <=? %s)%%Z" % (b, a),
                     ast.Eq: "(%s =? %s)%%Z" % (a, b), ast.NotEq: "(negb (%s =? %s)%%Z)" % (a, b)}
                if op not in m:
                    refuse(e, "comparison operator outside the grammar")
                return m[op], "bool"
            if ta == "T" and tb == "T":
                if op is ast.Lt:
                    return "(n_ltb Op %s %s)" % (a, b), "bool"
                if op is ast.Gt:
                    return "(n_ltb Op %s %s)" % (b, a), "bool"
                # a <= b is (a < b) or (a == b) in IEEE arithmetic as well as in the exact instance
                if op is ast.LtE:
                    return "(n_ltb Op %s %s || n_eqb Op %s %s)" % (a, b, a, b), "bool"
                if op is ast.GtE:
                    return "(n_ltb Op %s %s || n_eqb Op %s %s)" % (b, a, a, b), "bool"
                if op is ast.Eq:
                    return "(n_eqb Op %s %s)" % (a, b), "bool"
                if op is ast.NotEq:
                    return "(negb (n_eqb Op %s %s))" % (a, b), "bool"
                refuse(e, "number comparison outside the grammar")
            refuse(e, "comparison between %s and %s" % (ta, tb))
        if isinstance(e, ast.Call) and isinstance(e.func, ast.Name) and e.func.id == "len" and len(e.args) == 1 \
                and not e.keywords:
            a, ta = self.expr(e.args[0], env)
            if ta not in ("listT", "llT"):
                refuse(e, "len of a non-list")
            return "(Z.of_nat (length %s))" % a, "Z"
        refuse(e, "expression outside the grammar")

    def cond(self, e, env):
        if isinstance(e, ast.BoolOp):
            refuse(e, "and / or")
        c, t = self.expr(e, env)
        if t != "bool":
            refuse(e, "condition is not a comparison")
        return c

    # ---- return value ------------------------------------------------------------------------------
    def pack(self, arr, val):
        r = "(%s, %s)" % (arr, val) if self.sig["ret_array"] else val
        return "(%s, ds)" % r if self.sig["draws"] else r

    def ret_type(self):
        r = COQ_TYPE[self.sig["ret"]]
        if self.sig["ret_array"]:
            r = "%s * %s" % (COQ_TYPE[dict(self.sig["params"])[self.sig["mut"]]], r)
        return "(%s) * list Z" % r if self.sig["draws"] else r

    def call(self, c, env, ctx):
        """a call of a table function: returns (binder prefix, value text, value type); rebinds the array"""
        f = c.func.id
        cs = SIG[f]
        if c.keywords or len(c.args) != len(cs["params"]):
            refuse(c, "call of %s with other than its positional parameters" % f)
        if ctx.get("in_loop") and cs["draws"]:
            refuse(c, "a function that draws random numbers is called inside a loop")
        args = []
        arrname = None
        for (pn, pt), a in zip(cs["params"], c.args):
            if pn == cs["mut"]:
                if isinstance(a, ast.Call) and isinstance(a.func, ast.Attribute) and a.func.attr == "copy" \
                        and not cs["ret_array"]:
                    pass                          # the callee works on a copy: the caller's object is untouched
                elif isinstance(a, ast.Call) and isinstance(a.func, ast.Attribute) and isinstance(a.func.value, ast.Name) \
                        and a.func.value.id == "numpy" and a.func.attr == "zeros" and not cs["ret_array"]:
                    pass                          # a fresh array nobody else refers to
                elif not isinstance(a, ast.Name):
                    refuse(a, "the mutated argument of %s is not a plain name" % f)
                else:
                    arrname = a.id
            t, ty = self.expr(a, env)
            if ty != pt:
                refuse(a, "argument %s of %s has type %s, expected %s" % (pn, f, ty, pt))
            args.append(t)
        if cs["draws"] and not self.sig["draws"]:
            refuse(c, "%s draws random numbers but the caller is not declared to" % f)
        head = GEN_NAME[f]
        if cs["rec"]:
            if f == self.name:
                head += " fuel"
            else:
                fuel = cs["call_fuel"]
                for (pn, _), t in zip(cs["params"], args):
                    fuel = fuel.replace("ARG" + pn, t)
                head += " (%s)" % fuel.replace("ARG", v(arrname) if arrname else "?")
        text = "%s %s%s" % (head, " ".join(args), " ds" if cs["draws"] else "")
        return text, cs, arrname

    # ---- statements ----------------------------------------------------------------------------------
    def block(self, stmts, env, ctx):
        """Gallina text of the statements followed by ctx['tail'](env) when they fall through."""
        if not stmts:
            return ctx["tail"](env)
        s, rest = stmts[0], stmts[1:]
        env = dict(env)

        def go():
            return self.block(rest, env, ctx)

        if isinstance(s, ast.Expr) and isinstance(s.value, ast.Constant) and isinstance(s.value.value, str):
            return go()
        if isinstance(s, ast.Pass):
            return go()
        if isinstance(s, ast.FunctionDef):
            if SIG.get(s.name, {}).get("parent") != self.name or ctx.get("in_loop") or s.name in env:
                refuse(s, "nested function outside the signature table")
            return go()                           # translated on its own (gen_<name>)
        if isinstance(s, ast.If) and isinstance(s.test, ast.Compare) and len(s.test.ops) == 1 \
                and isinstance(s.test.ops[0], ast.IsNot) and isinstance(s.test.left, ast.Name) \
                and isinstance(s.test.comparators[0], ast.Constant) and s.test.comparators[0].value is None:
            o = s.test.left.id
            if env.get(o) != "optT" or s.orelse or has_return(s.body):
                refuse(s, "`is not None` test outside `if <optional number> is not None:` without else / return")
            names = [n for n in assigned_names(s.body)]
            for n in names:
                if n not in env:
                    refuse(s, "name %s is first bound inside an if" % n)
            if not names or o in names:
                refuse(s, "if without effect / rebinding the tested name")
            tup = "(%s)" % ", ".join(v(n) for n in names) if len(names) != 1 else v(names[0])
            env2 = dict(env)
            env2[o] = "T"
            a = self.block(s.body, env2, dict(ctx, tail=lambda env3: tup))
            q = "'" if len(names) > 1 else ""
            return "let %s%s := match %s with Some %s => (\n%s\n) | None => %s end in\n%s" % (q, tup, v(o), v(o), a, tup, go())
        if isinstance(s, ast.AugAssign) and isinstance(s.target, ast.Name) and env.get(s.target.id) == "llT" \
                and isinstance(s.op, (ast.Mult, ast.Add)):
            x, tx = self.expr(s.value, env)
            if tx != "T":
                refuse(s, "array op= something else than a number")
            op = "n_mul" if isinstance(s.op, ast.Mult) else "n_add"
            n = s.target.id
            return "let %s := map (map (fun x_ => %s Op x_ %s)) %s in\n%s" % (v(n), op, x, v(n), go())
        if isinstance(s, ast.Return):
            if s.value is None:
                refuse(s, "return without a value")
            if ctx.get("no_return"):
                refuse(s, "return inside this kind of loop")
            mut = self.sig["mut"]
            if mut not in env and self.sig["ret_array"]:
                refuse(s, "the array parameter is not bound at return")
            if isinstance(s.value, ast.Call) and isinstance(s.value.func, ast.Name) and s.value.func.id in SIG:
                text, cs, arrname = self.call(s.value, env, ctx)
                if arrname != mut and (cs["ret_array"] or self.sig["ret_array"] or arrname is not None):
                    refuse(s, "tail call on an array other than the parameter")
                if cs["ret"] != self.sig["ret"]:
                    refuse(s, "tail call returns another type")
                if cs["ret_array"] == self.sig["ret_array"] and cs["draws"] == self.sig["draws"]:
                    res = text
                else:
                    pat = "(%s, r_)" % v(mut) if cs["ret_array"] else "r_"
                    if cs["draws"]:
                        pat = "(%s, ds)" % pat
                    if not cs["ret_array"] and self.sig["ret_array"]:
                        refuse(s, "the callee does not return the array the caller must return")
                    res = "let '%s := %s in %s" % (pat, text, self.pack(v(mut) if mut else None, "r_"))
            else:
                val, ty = self.expr(s.value, env)
                if ty != self.sig["ret"]:
                    refuse(s, "returns a value of type %s, expected %s" % (ty, self.sig["ret"]))
                res = self.pack(v(mut) if mut else None, val)
            return ctx["wrap_ret"](res)
        if isinstance(s, ast.Assign):
            if len(s.targets) != 1:
                refuse(s, "chained assignment")
            t = s.targets[0]
            val = s.value
            # typed draw site
            if isinstance(val, ast.Call) and isinstance(val.func, ast.Attribute) and isinstance(val.func.value, ast.Name) \
                    and val.func.value.id == "random":
                if val.func.attr != "randint" or len(val.args) != 2 or val.keywords or not isinstance(t, ast.Name):
                    refuse(s, "draw site other than x = random.randint(a, b)")
                if not self.sig["draws"] or ctx.get("in_loop"):
                    refuse(s, "draw site in a function / loop not declared to draw")
                a, ta = self.expr(val.args[0], env)
                b, tb = self.expr(val.args[1], env)
                if ta != "Z" or tb != "Z":
                    refuse(s, "randint bounds are not ints")
                env[t.id] = "Z"
                return "let '(%s, ds) := randint %s %s ds in\n%s" % (v(t.id), a, b, go())
            if isinstance(val, ast.Call) and isinstance(val.func, ast.Name) and val.func.id in SIG:
                if not isinstance(t, ast.Name):
                    refuse(s, "call result assigned to a non-name")
                text, cs, arrname = self.call(val, env, ctx)
                pat = v(t.id)
                if cs["ret_array"]:
                    pat = "(%s, %s)" % (v(arrname), pat)
                elif arrname is not None:
                    env.pop(arrname, None)          # the callee's final array is not returned: clobbered
                if cs["draws"]:
                    pat = "(%s, ds)" % pat
                env[t.id] = cs["ret"]
                if "(" in pat:
                    return "let '%s := %s in\n%s" % (pat, text, go())
                return "let %s := %s in\n%s" % (pat, text, go())
            if isinstance(t, ast.Tuple):
                if not isinstance(val, ast.Tuple) or len(val.elts) != len(t.elts):
                    refuse(s, "tuple assignment from a non-tuple")
                out = ""
                tmps = []
                for n, e in enumerate(val.elts):
                    x, ty = self.expr(e, env)
                    tmps.append(("t%d_" % n, ty))
                    out += "let t%d_ := %s in\n" % (n, x)
                for (tn, ty), tg in zip(tmps, t.elts):
                    out += self.assign_to(tg, tn, ty, env)
                return out + go()
            want = self.sig.get("locals", {}).get(t.id) if isinstance(t, ast.Name) else None
            x, ty = self.expr(val, env, want)
            if isinstance(t, ast.Name) and "$esc" in env:
                env["$esc"] = env["$esc"] - {t.id}          # rebound to a new value
            return self.assign_to(t, x, ty, env) + go()
        if isinstance(s, ast.AugAssign):
            if not isinstance(s.target, ast.Name):
                refuse(s, "augmented assignment to a non-name")
            e = ast.BinOp(left=ast.Name(id=s.target.id, ctx=ast.Load()), op=s.op, right=s.value)
            ast.copy_location(e, s)
            ast.copy_location(e.left, s)
            x, ty = self.expr(e, env)
            return self.assign_to(s.target, x, ty, env) + go()
        if isinstance(s, ast.Expr) and isinstance(s.value, ast.Call) and isinstance(s.value.func, ast.Attribute) \
                and isinstance(s.value.func.value, ast.Name) and s.value.func.attr in ("append", "extend") \
                and len(s.value.args) == 1 and not s.value.keywords:
            lst = s.value.func.value.id
            if env.get(lst) != "llT":
                refuse(s, "append / extend on something else than a list of number vectors")
            a = s.value.args[0]
            if s.value.func.attr == "append":
                if not isinstance(a, ast.Name) or env.get(a.id) != "listT":
                    refuse(s, "append of something else than a number vector held in a name")
                if ctx.get("in_loop"):
                    refuse(s, "a vector is stored in a list inside a loop (aliasing is not modelled)")
                x, _ = self.expr(a, env)
                env["$esc"] = frozenset(env.get("$esc", ())) | {a.id}
                return "let %s := %s ++ [%s] in\n%s" % (v(lst), v(lst), x, go())
            if isinstance(a, ast.Call) and isinstance(a.func, ast.Name) and a.func.id in SIG:
                text, cs, arrname = self.call(a, env, ctx)
                if cs["ret"] != "llT" or cs["ret_array"] or cs["draws"] or arrname is not None:
                    refuse(s, "extend with a call outside the grammar")
                return "let %s := %s ++ %s in\n%s" % (v(lst), v(lst), text, go())
            refuse(s, "extend with something else than a call of a table function")
        if isinstance(s, ast.For):
            if s.orelse or any(isinstance(n, (ast.Break, ast.Continue, ast.Return)) for n in ast.walk(s)):
                refuse(s, "for with else / break / continue / return")
            it = s.iter
            if not (isinstance(it, ast.Call) and isinstance(it.func, ast.Name) and it.func.id == "range" and not it.keywords
                    and len(it.args) in (1, 2) and isinstance(s.target, ast.Name)):
                refuse(s, "for over something else than range(..) with a plain loop variable")
            bounds = [self.expr(a, env) for a in it.args]
            if any(t != "Z" for _, t in bounds):
                refuse(s, "range bounds are not ints")
            lo, hi = ("0%Z", bounds[0][0]) if len(bounds) == 1 else (bounds[0][0], bounds[1][0])
            if s.target.id in env:
                refuse(s, "the loop variable %s is already bound" % s.target.id)
            names = [n for n in assigned_names(s.body) if n != s.target.id]
            for n in names:
                if n not in env:
                    refuse(s, "name %s is first bound inside a loop" % n)
            if not names:
                refuse(s, "loop without effect")
            names = [n for n in env if n in names]          # canonical order
            tup = "(%s)" % ", ".join(v(n) for n in names) if len(names) != 1 else v(names[0])
            pat = "'%s" % tup if len(names) > 1 else tup
            env2 = dict(env)
            env2[s.target.id] = "Z"
            sub = dict(ctx, in_loop=True, no_return=True, tail=lambda env3: tup)
            body = self.block(s.body, env2, sub)
            return "let %s := for_ (zrange %s %s) (fun %s st_ => let %s := st_ in\n%s) %s in\n%s" % (
                pat, lo, hi, v(s.target.id), pat, body, tup, go())
        if isinstance(s, ast.If):
            c = self.cond(s.test, env)
            if has_return(s.body) or has_return(s.orelse) or not rest:
                # the rest of the block is the continuation of every branch that falls through
                sub = dict(ctx, tail=lambda env2: self.block(rest, env2, ctx))
                if rest and not terminates(s.body) and not terminates(s.orelse):
                    refuse(s, "if with a return in one branch while both branches may fall through")
                a = self.block(s.body, env, sub)
                b = self.block(s.orelse, env, sub)
                return "if %s then (\n%s\n) else (\n%s\n)" % (c, a, b)
            later = [n.id for st in rest for n in ast.walk(st) if isinstance(n, ast.Name) and isinstance(n.ctx, ast.Load)]
            names = []
            for n in assigned_names(s.body + s.orelse):
                if n in env:
                    names.append(n)
                elif n in later or ctx.get("in_loop"):
                    refuse(s, "name %s is first bound inside an if and may be used afterwards" % n)
            names = [n for n in env if n in names]          # canonical order
            tup = "(%s)" % ", ".join(v(n) for n in names) if len(names) != 1 else v(names[0])
            escs = []

            def tail_if(env2):
                escs.append(env2.get("$esc", frozenset()))
                return tup
            sub = dict(ctx, tail=tail_if)
            a = self.block(s.body, env, sub)
            b = self.block(s.orelse, env, sub)
            for x in escs:
                env["$esc"] = frozenset(env.get("$esc", ())) | x
            if not names:
                return go()
            q = "'" if len(names) > 1 else ""
            return "let %s%s := if %s then (\n%s\n) else (\n%s\n) in\n%s" % (q, tup, c, a, b, go())
        if isinstance(s, ast.While):
            if s.orelse:
                refuse(s, "while with else")
            if any(isinstance(n, (ast.Break, ast.Continue)) for n in ast.walk(s)):
                refuse(s, "break / continue in a while")
            fuel = self.sig["wfuel"]
            if fuel is None:
                refuse(s, "while loop in a function the table gives no fuel for")
            names = assigned_names(s.body)
            for n in names:
                if n not in env:
                    refuse(s, "name %s is first bound inside a loop" % n)
            names = [n for n in env if n in names]          # canonical order: order of first binding in the function
            tup = "(%s)" % ", ".join(v(n) for n in names) if len(names) != 1 else v(names[0])
            pat = "'%s" % tup if len(names) > 1 else tup
            if isinstance(s.test, ast.Constant) and s.test.value is True:
                if rest:
                    refuse(rest[0], "statement after `while True` (unreachable)")
                if ctx.get("in_loop"):
                    refuse(s, "nested `while True`")
                ex = ast.parse(self.sig["exhausted"], mode="eval").body
                xv, xt = self.expr(ex, env)
                if xt != self.sig["ret"]:
                    refuse(s, "exhausted value has the wrong type")
                sub = dict(ctx, in_loop=True, tail=lambda env2: "Next %s" % tup,
                           wrap_ret=lambda r: "Ret (%s)" % r)
                body = self.block(s.body, env, sub)
                return ctx["wrap_ret"]("loop_ret (%s) (fun %s =>\n%s) (fun %s => %s) %s" % (
                    fuel, pat, body, pat, self.pack(v(self.sig["mut"]), xv), tup))
            if has_return(s.body):
                refuse(s, "return inside a conditional while")
            c = self.cond(s.test, env)
            sub = dict(ctx, in_loop=True, no_return=True, tail=lambda env2: tup)
            body = self.block(s.body, env, sub)
            return "let %s := while_ (%s) (fun %s => %s) (fun %s =>\n%s) %s in\n%s" % (
                pat, fuel, pat, c, pat, body, tup, go())
        refuse(s, "statement outside the grammar")

    def assign_to(self, t, x, ty, env):
        if isinstance(t, ast.Name):
            if t.id in env and env[t.id] != ty:
                refuse(t, "name %s changes type from %s to %s" % (t.id, env[t.id], ty))
            if t.id in [p for p, _ in self.sig["params"]] and t.id != self.sig["mut"] and ty != dict(self.sig["params"])[t.id]:
                refuse(t, "parameter rebound at another type")
            env[t.id] = ty
            return "let %s := %s in\n" % (v(t.id), x)
        if isinstance(t, ast.Subscript) and isinstance(t.value, ast.Name) and not isinstance(t.slice, ast.Slice):
            a = t.value.id
            if env.get(a) != "listT" or ty != "T":
                refuse(t, "subscript assignment outside list-of-numbers[i] = number")
            i, ti = self.expr(t.slice, env)
            if ti != "Z":
                refuse(t, "subscript index is not an int")
            return "let %s := setz %s %s %s in\n" % (v(a), v(a), i, x)
        refuse(t, "assignment target outside the grammar")

    # ---- the function -------------------------------------------------------------------------------
    def header(self):
        ps = " ".join("(%s : %s)" % (v(p), COQ_TYPE[t]) for p, t in self.sig["params"])
        if self.sig["rec"]:
            ps = "(fuel : nat) " + ps
        if self.sig["draws"]:
            ps += " (ds : list Z)"
        return "%s %s %s : %s :=" % ("Fixpoint" if self.sig["rec"] else "Definition", GEN_NAME[self.name], ps,
                                     self.ret_type())

    def translate(self):
        fn = self.fn
        a = fn.args
        if a.vararg or a.kwarg or a.kwonlyargs or (a.defaults and not self.sig.get("defaults_ok")) or a.posonlyargs \
                or fn.decorator_list:
            refuse(fn, "parameter list / decorators outside the grammar")
        if [x.arg for x in a.args] != [p for p, _ in self.sig["params"]]:
            refuse(fn, "parameters %r differ from the signature table" % [x.arg for x in a.args])
        for n in ast.walk(fn):
            if isinstance(n, (ast.Global, ast.Nonlocal, ast.Lambda, ast.Try, ast.With, ast.Yield,
                              ast.YieldFrom, ast.ListComp, ast.GeneratorExp, ast.Delete, ast.Raise, ast.Assert)) \
                    and n is not fn:
                refuse(n, "construct outside the grammar")
            if isinstance(n, ast.FunctionDef) and n is not fn and n not in fn.body:
                refuse(n, "nested function outside the grammar")
        env = {p: t for p, t in self.sig["params"]}
        for n in assigned_names(fn.body):
            if n in SIG or n in ("random", "len"):
                refuse(fn, "local name %s shadows a name the translation gives a meaning to" % n)
        if not terminates(fn.body):
            refuse(fn, "the body may fall off its end")
        ctx = dict(tail=lambda env2: refuse(fn, "the body may fall off its end"), wrap_ret=lambda r: r)
        body = self.block(fn.body, env, ctx)
        if self.sig["rec"]:
            ex = ast.parse(self.sig["exhausted"], mode="eval").body
            xv, xt = self.expr(ex, env, self.sig["ret"])
            body = "match fuel with\n| O => %s\n| S fuel =>\n%s\nend" % (self.pack(v(self.sig["mut"]), xv), body)
        return "%s\n%s." % (self.header(), body)

    def alias(self, why):
        hdr = self.header()
        if self.sig["rec"]:
            hdr = hdr.replace("Fixpoint", "Definition", 1)
        return "(* REFUSED: %s *)\n%s\n%s." % (str(why).replace("*)", "* )"), hdr, self.sig["alias"])


# ---- selSPEA2 ------------------------------------------------------------------------------------------
LOCAL_TYPES = {"strength_fits": "listnat", "dominating_inds": "llnat", "to_remove": "listnat"}       # declared types of empty-list locals
UNIT_GLOBALS = ("range", "len", "float", "sorted", "reversed", "list", "_randomizedSelect")
ZERO_OF = {"T": "(n_ofZ Op 0%Z)", "nat": "0%nat"}


def tup(names):
    return "(%s)" % ", ".join(v(n) for n in names) if len(names) != 1 else v(names[0])


def letpat(names):
    return ("'" if len(names) > 1 else "") + tup(names)


class Widen(Exception):
    """x[i] += <number> on a list of natural numbers: the list must hold Python numbers (pynum) from the
    outermost enclosing loop on"""
    def __init__(self, name, node):
        Exception.__init__(self, name)
        self.name, self.node = name, node


class SpeaTr(object):
    """selSPEA2: nat-typed translation (see the comment at SPEA)."""

    def __init__(self, fn, forced=None):
        self.fn = fn
        self.forced = forced or {}
        self.unit_status = {}
        self.unit_defs = []
        self.for_depth = 0
        self.z_names = set()

    # ---- expressions ---------------------------------------------------------------------------------
    def coerceZ(self, x, t, node):
        if t == "Z":
            return x
        if t == "nat":
            return "(Z.of_nat %s)" % x
        refuse(node, "an int was expected, found %s" % t)

    def is_fit_attr(self, e, attr, env):
        """X.fitness.<attr> with X an individual -> text of X"""
        if isinstance(e, ast.Attribute) and e.attr == attr and isinstance(e.value, ast.Attribute) \
                and e.value.attr == "fitness":
            x, t = self.expr(e.value.value, env)
            if t == "ind":
                return x
        return None

    def expr(self, e, env, want=None):
        if isinstance(e, ast.Constant):
            if isinstance(e.value, float) and e.value == int(e.value) and abs(e.value) < 2 ** 53:
                return "(n_ofZ Op %s)" % zlit(int(e.value)), "T"          # an integer-valued float literal is float(z)
            if isinstance(e.value, bool) or not isinstance(e.value, int):
                refuse(e, "constant %r outside the grammar" % (e.value,))
            if want != "Z" and e.value >= 0:
                return "%d%%nat" % e.value, "nat"
            return zlit(e.value), "Z"
        if isinstance(e, ast.Name):
            if e.id not in env:
                refuse(e, "name %s is not bound here" % e.id)
            return v(e.id), env[e.id]
        if isinstance(e, ast.UnaryOp) and isinstance(e.op, ast.USub) and isinstance(e.operand, ast.Constant) \
                and isinstance(e.operand.value, int) and not isinstance(e.operand.value, bool):
            return zlit(-e.operand.value), "Z"
        if isinstance(e, ast.BoolOp) and isinstance(e.op, ast.And):
            # pure operands: `a and b` is the conjunction (the short circuit only matters for exceptions)
            cs = [self.expr(x, env) for x in e.values]
            if any(t != "bool" for _, t in cs):
                refuse(e, "`and` between non-conditions")
            return "(%s)" % " && ".join(c for c, _ in cs), "bool"
        if isinstance(e, ast.Call) and isinstance(e.func, ast.Name) and e.func.id == "float" and len(e.args) == 1 \
                and not e.keywords and isinstance(e.args[0], ast.Constant) and e.args[0].value == "inf":
            return "(n_inf Op)", "T"
        if isinstance(e, ast.BinOp):
            if isinstance(e.op, ast.Mult) and isinstance(e.left, ast.List) and len(e.left.elts) == 1:
                c, tc = self.expr(e.left.elts[0], env)
                n, tn = self.expr(e.right, env)
                if tc not in ("nat", "T") or tn != "nat" or not isinstance(e.left.elts[0], ast.Constant):
                    refuse(e, "[c] * n outside [constant] * nat")
                return "(repeat %s %s)" % (c, n), "listnat" if tc == "nat" else "listT"
            wz = "Z" if isinstance(e.op, ast.Sub) else None        # a subtraction is an int (Z): int literals directly
            a, ta = self.expr(e.left, env, wz if isinstance(e.left, ast.Constant) else None)
            b, tb = self.expr(e.right, env, wz if isinstance(e.right, ast.Constant) else None)
            if ta == "T" and tb == "T":
                op = {ast.Add: "n_add", ast.Sub: "n_sub", ast.Mult: "n_mul", ast.Div: "n_div"}.get(type(e.op))
                if op is None:
                    refuse(e, "number operator %s outside the grammar" % type(e.op).__name__)
                return "(%s Op %s %s)" % (op, a, b), "T"
            if "T" in (ta, tb):
                refuse(e, "arithmetic between %s and %s" % (ta, tb))
            if isinstance(e.op, (ast.Add, ast.Mult)) and ta == "nat" and tb == "nat":
                return "(%s %s %s)%%nat" % (a, "+" if isinstance(e.op, ast.Add) else "*", b), "nat"
            op = {ast.Add: "+", ast.Sub: "-", ast.Mult: "*"}.get(type(e.op))
            if op is None:
                refuse(e, "operator %s outside the grammar" % type(e.op).__name__)
            return "(%s %s %s)%%Z" % (self.coerceZ(a, ta, e), op, self.coerceZ(b, tb, e)), "Z"
        if isinstance(e, ast.Compare):
            if len(e.ops) != 1:
                refuse(e, "chained comparison")
            a, ta = self.expr(e.left, env)
            b, tb = self.expr(e.comparators[0], env)
            op = type(e.ops[0])
            if op in (ast.In, ast.NotIn):
                if ta != "nat" or tb != "listnat":
                    refuse(e, "membership test outside <natural number> in <list of natural numbers>")
                return ("(memb %s %s)" if op is ast.In else "(negb (memb %s %s))") % (a, b), "bool"
            if ta == "T" and tb == "T":
                if op is ast.Lt:
                    return "(n_ltb Op %s %s)" % (a, b), "bool"
                if op is ast.Gt:
                    return "(n_ltb Op %s %s)" % (b, a), "bool"
                refuse(e, "number comparison other than < and >")
            if ta == "nat" and tb == "nat":
                m = {ast.Lt: "(Nat.ltb %s %s)" % (a, b), ast.LtE: "(Nat.leb %s %s)" % (a, b),
                     ast.Gt: "(Nat.ltb %s %s)" % (b, a), ast.GtE: "(Nat.leb %s %s)" % (b, a),
                     ast.Eq: "(Nat.eqb %s %s)" % (a, b), ast.NotEq: "(negb (Nat.eqb %s %s))" % (a, b)}
            else:
                a, b = self.coerceZ(a, ta, e), self.coerceZ(b, tb, e)
                m = {ast.Lt: "(%s <? %s)%%Z" % (a, b), ast.LtE: "(%s <=? %s)%%Z" % (a, b),
                     ast.Gt: "(%s <? %s)%%Z" % (b, a), ast.GtE: "(%s <=? %s)%%Z" % (b, a),
                     ast.Eq: "(%s =? %s)%%Z" % (a, b), ast.NotEq: "(negb (%s =? %s)%%Z)" % (a, b)}
            if op not in m:
                refuse(e, "comparison operator outside the grammar")
            return m[op], "bool"
        x = self.is_fit_attr(e, "values", env)
        if x is not None:
            return "(fst %s)" % x, "listT"
        x = self.is_fit_attr(e, "wvalues", env)
        if x is not None:
            return "(snd %s)" % x, "listT"
        if isinstance(e, ast.Call) and not e.keywords:
            f = e.func
            if isinstance(f, ast.Name) and f.id == "len" and len(e.args) == 1:
                a, ta = self.expr(e.args[0], env)
                if ta not in ELT:
                    refuse(e, "len of a non-list")
                return "(length %s)" % a, "nat"
            if isinstance(f, ast.Name) and f.id == "list" and not e.args and want in ("listnat",):
                return DEFAULT[want], want
            if isinstance(f, ast.Attribute) and f.attr == "sqrt" and isinstance(f.value, ast.Name) and f.value.id == "math" \
                    and len(e.args) == 1:
                a, ta = self.expr(e.args[0], env)
                if ta != "nat":
                    refuse(e, "math.sqrt of something else than a natural number")
                return "(Z.sqrt (Z.of_nat %s))" % a, "Z"       # convention: K is only compared with ints (design_notes)
            if isinstance(f, ast.Attribute) and f.attr == "dominates" and isinstance(f.value, ast.Attribute) \
                    and f.value.attr == "fitness" and len(e.args) == 1 and isinstance(e.args[0], ast.Attribute) \
                    and e.args[0].attr == "fitness":
                a, ta = self.expr(f.value.value, env)
                b, tb = self.expr(e.args[0].value, env)
                if ta != "ind" or tb != "ind":
                    refuse(e, "dominates between non-individuals")
                return "(dominates Op (snd %s) (snd %s))" % (a, b), "bool"
            refuse(e, "call outside the grammar")
        if isinstance(e, ast.List) and not e.elts and want in ("listnat",):
            return DEFAULT[want], want
        if isinstance(e, ast.Subscript):
            a, ta = self.expr(e.value, env)
            if ta not in ELT:
                refuse(e, "subscript of a value of type %s" % ta)
            if isinstance(e.slice, ast.Slice):
                sl = e.slice
                if sl.lower is None and sl.step is None and sl.upper is not None:
                    hi, th = self.expr(sl.upper, env)
                    if th == "nat":
                        return "(firstn %s %s)" % (hi, a), ta
                    if th == "Z":
                        return "(py_firstn %s %s)" % (hi, a), ta          # a negative bound counts from the end
                    refuse(e, "slice bound is not an int")
                if sl.upper is not None or sl.step is not None or sl.lower is None:
                    refuse(e, "slice other than x[a:] / x[:b]")
                lo, tl = self.expr(sl.lower, env)
                if tl != "nat":
                    refuse(e, "slice bound is not a natural number")
                return "(skipn %s %s)" % (lo, a), ta
            i, ti = self.expr(e.slice, env)
            if ti == "Z":
                i = "(Z.to_nat %s)" % i                # negative indices are not wrapped (never read by the code)
            elif ti != "nat":
                refuse(e, "subscript index is not an int")
            return "(nth %s %s %s)" % (i, a, DEFAULT[ELT[ta]]), ELT[ta]
        if isinstance(e, ast.ListComp):
            if len(e.generators) != 1 or e.generators[0].is_async or len(e.generators[0].ifs) > 1:
                refuse(e, "comprehension with several clauses")
            g = e.generators[0]
            it, tgt_bind, tgt_env = self.iterable(g.iter, g.target, env)
            env2 = dict(env)
            env2.update(tgt_env)
            res = it
            if g.ifs:
                c = self.cond(g.ifs[0], env2)
                res = "(filter (fun x_ => %s%s) %s)" % (tgt_bind, c, res)
            same = isinstance(e.elt, ast.Name) and isinstance(g.target, ast.Name) and e.elt.id == g.target.id
            if same:
                if tgt_env[g.target.id] != "nat":
                    refuse(e, "comprehension over non-numbers")
                return res, "listnat"
            ew = ELT.get(want)
            if isinstance(e.elt, ast.Tuple) and len(e.elt.elts) == 2:
                x0, t0 = self.expr(e.elt.elts[0], env2)
                x1, t1 = self.expr(e.elt.elts[1], env2)
                if t0 == "nat":
                    x0, t0 = "(@PI T %s)" % x0, "pn"
                elif t0 == "T":
                    x0, t0 = "(@PF T %s)" % x0, "pn"
                if (t0, t1) != ("pn", "nat"):
                    refuse(e, "tuple element outside (number, natural number)")
                x, tx = "(%s, %s)" % (x0, x1), "pnnat"
            else:
                x, tx = self.expr(e.elt, env2, ew)
            lt = {"nat": "listnat", "listnat": "llnat", "pnnat": "lpnnat", "listT": "llT"}.get(tx)
            if lt is None:
                refuse(e, "comprehension element of type %s" % tx)
            return "(map (fun x_ => %s%s) %s)" % (tgt_bind, x, res), lt
        refuse(e, "expression outside the grammar")

    def cond(self, e, env):
        if isinstance(e, ast.BoolOp) and not isinstance(e.op, ast.And):
            refuse(e, "or")
        c, t = self.expr(e, env)
        if t != "bool":
            refuse(e, "condition is not a comparison / dominates call")
        return c

    def iterable(self, it, target, env):
        """-> (list text, binder prefix that destructures x_ into the targets, {target: type})"""
        def names_free(ns):
            for n in ns:
                if n in env:
                    refuse(target, "loop variable %s is already bound" % n)
        if isinstance(it, ast.Call) and isinstance(it.func, ast.Name) and not it.keywords:
            if it.func.id == "reversed" and len(it.args) == 1 and isinstance(target, ast.Name) \
                    and isinstance(it.args[0], ast.Call) and isinstance(it.args[0].func, ast.Name) \
                    and it.args[0].func.id == "sorted" and len(it.args[0].args) == 1 and not it.args[0].keywords:
                xs, tx = self.expr(it.args[0].args[0], env)
                if tx != "listnat":
                    refuse(it, "sorted of something else than a list of natural numbers")
                names_free([target.id])
                return "(rev (sort_nat %s))" % xs, "let %s := x_ in " % v(target.id), {target.id: "nat"}
            if it.func.id == "sorted" and len(it.args) == 1 and isinstance(target, ast.Name):
                xs, tx = self.expr(it.args[0], env)
                if tx != "listnat":
                    refuse(it, "sorted of something else than a list of natural numbers")
                names_free([target.id])
                return "(sort_nat %s)" % xs, "let %s := x_ in " % v(target.id), {target.id: "nat"}
            if it.func.id == "range" and len(it.args) in (1, 2) and isinstance(target, ast.Name):
                args = [self.expr(a, env) for a in it.args]
                args = [("(Z.to_nat %s)" % x, "nat") if t == "Z" else (x, t) for x, t in args]   # range(.., negative) is empty
                if any(t != "nat" for _, t in args):
                    refuse(it, "range over something else than ints")
                names_free([target.id])
                txt = "(seq 0 %s)" % args[0][0] if len(args) == 1 else "(seq %s (%s - %s))" % (args[0][0], args[1][0], args[0][0])
                return txt, "let %s := x_ in " % v(target.id), {target.id: "nat"}
            if it.func.id == "enumerate" and len(it.args) in (1, 2) and isinstance(target, ast.Tuple) \
                    and len(target.elts) == 2 and all(isinstance(t, ast.Name) for t in target.elts):
                xs, tx = self.expr(it.args[0], env)
                if tx not in ELT:
                    refuse(it, "enumerate of a non-list")
                st = "0%nat"
                if len(it.args) == 2:
                    st, ts = self.expr(it.args[1], env)
                    if ts != "nat":
                        refuse(it, "enumerate start is not a natural number")
                a, b = target.elts[0].id, target.elts[1].id
                names_free([a, b])
                return "(enum %s %s)" % (st, xs), "let '(%s, %s) := x_ in " % (v(a), v(b)), {a: "nat", b: ELT[tx]}
            refuse(it, "iterable outside the grammar")
        if isinstance(target, ast.Name):
            xs, tx = self.expr(it, env)
            if tx not in ELT:
                refuse(it, "iteration over a non-list")
            names_free([target.id])
            return xs, "let %s := x_ in " % v(target.id), {target.id: ELT[tx]}
        if isinstance(target, ast.Tuple) and len(target.elts) == 2 and all(isinstance(t, ast.Name) for t in target.elts):
            xs, tx = self.expr(it, env)
            if tx != "lpnnat":
                refuse(it, "tuple loop target over something else than (number, index) pairs")
            a, b = target.elts[0].id, target.elts[1].id
            names_free([a, b])
            return xs, "let '(%s, %s) := x_ in " % (v(a), v(b)), {a: "pn", b: "nat"}
        refuse(it, "iterable / loop target outside the grammar")

    # ---- statements ----------------------------------------------------------------------------------
    def assigned(self, stmts):
        out = []

        def add(n):
            if n not in out:
                out.append(n)
        for s in stmts:
            if isinstance(s, ast.Assign) and len(s.targets) == 1 and isinstance(s.targets[0], ast.Name):
                add(s.targets[0].id)
            elif isinstance(s, ast.Assign) and len(s.targets) == 1 and isinstance(s.targets[0], ast.Subscript) \
                    and isinstance(s.targets[0].value, ast.Name):
                add(s.targets[0].value.id)
            elif isinstance(s, ast.Assign) and len(s.targets) == 1 and isinstance(s.targets[0], ast.Subscript) \
                    and isinstance(s.targets[0].value, ast.Subscript) and isinstance(s.targets[0].value.value, ast.Name):
                add(s.targets[0].value.value.id)
            elif isinstance(s, ast.AugAssign) and isinstance(s.target, ast.Name):
                add(s.target.id)
            elif isinstance(s, ast.AugAssign) and isinstance(s.target, ast.Subscript) and isinstance(s.target.value, ast.Name):
                add(s.target.value.id)
            elif isinstance(s, ast.Expr) and isinstance(s.value, ast.Call) and isinstance(s.value.func, ast.Attribute) \
                    and s.value.func.attr == "append":
                t = s.value.func.value
                while isinstance(t, ast.Subscript):
                    t = t.value
                if not isinstance(t, ast.Name):
                    refuse(s, "append target outside the grammar")
                add(t.id)
            elif isinstance(s, ast.Expr) and isinstance(s.value, ast.Call) and isinstance(s.value.func, ast.Attribute) \
                    and s.value.func.attr == "sort" and isinstance(s.value.func.value, ast.Name):
                add(s.value.func.value.id)
            elif isinstance(s, ast.Expr) and isinstance(s.value, ast.Constant):
                pass
            elif isinstance(s, ast.If):
                for n in self.assigned(s.body) + self.assigned(s.orelse):
                    add(n)
            elif isinstance(s, (ast.For, ast.While)):
                if s.orelse:
                    refuse(s, "loop with else")
                for n in self.assigned(s.body):
                    add(n)
            elif isinstance(s, ast.Delete) and len(s.targets) == 1 and isinstance(s.targets[0], ast.Subscript) \
                    and isinstance(s.targets[0].value, ast.Name):
                add(s.targets[0].value.id)
            elif isinstance(s, (ast.Pass, ast.Break)):
                pass
            else:
                refuse(s, "statement outside the grammar")
        return out

    def loop_targets(self, stmts):
        out = []
        for s in stmts:
            for n in ast.walk(s):
                if isinstance(n, (ast.For, ast.comprehension)):
                    out += [x.id for x in ast.walk(n.target) if isinstance(x, ast.Name)]
        return out

    def own_nodes(self, st):
        """the nodes of a statement that are not inside a nested loop"""
        if isinstance(st, (ast.For, ast.While)):
            return []
        out = [st]
        for ch in ast.iter_child_nodes(st):
            out += self.own_nodes(ch)
        return out

    def block(self, stmts, env, tail, top=False, brk=None):
        if not stmts:
            return tail(env)
        s, rest = stmts[0], stmts[1:]
        env = dict(env)

        def go():
            return self.block(rest, env, tail, top, brk)

        if isinstance(s, ast.Expr) and isinstance(s.value, ast.Constant) and isinstance(s.value.value, str):
            return go()
        if isinstance(s, ast.Pass):
            return go()
        if isinstance(s, ast.Break):
            if brk is None or rest:
                refuse(s, "break outside a for loop / followed by statements")
            return brk(env)
        if isinstance(s, ast.Assign) and len(s.targets) == 1 and isinstance(s.targets[0], ast.Subscript) \
                and isinstance(s.targets[0].value, ast.Subscript) and isinstance(s.targets[0].value.value, ast.Name):
            # x[i][j] = e
            t = s.targets[0]
            a = t.value.value.id
            ta = env.get(a)
            if ta not in ("llT", "llnat") or isinstance(t.slice, ast.Slice) or isinstance(t.value.slice, ast.Slice):
                refuse(s, "x[i][j] = e on something else than a list of lists")
            idx = []
            for sl in (t.value.slice, t.slice):
                i, ti = self.expr(sl, env)
                if ti == "Z":
                    i = "(Z.to_nat %s)" % i
                elif ti != "nat":
                    refuse(s, "index is not an int")
                idx.append(i)
            x, tx = self.expr(s.value, env)
            et = ELT[ELT[ta]]
            if et == "T" and tx in ("Z", "nat"):       # an int stored in a list of floats reads as float(z)
                x, tx = "(n_ofZ Op %s)" % self.coerceZ(x, tx, s), "T"
            if tx != et:
                refuse(s, "x[i][j] = e stores a value of type %s in a %s" % (tx, ta))
            return "let %s := set_nth %s %s (set_nth (nth %s %s %s) %s %s) in\n%s" % (
                v(a), v(a), idx[0], idx[0], v(a), DEFAULT[ELT[ta]], idx[1], x, go())
        if isinstance(s, ast.Delete):
            if len(s.targets) != 1 or not isinstance(s.targets[0], ast.Subscript) or not isinstance(s.targets[0].value, ast.Name) \
                    or isinstance(s.targets[0].slice, ast.Slice):
                refuse(s, "del outside del x[i]")
            a = s.targets[0].value.id
            i, ti = self.expr(s.targets[0].slice, env)
            if env.get(a) != "listnat" or ti != "nat":
                refuse(s, "del x[i] on something else than a list of natural numbers / a natural index")
            return "let %s := remove_nth %s %s in\n%s" % (v(a), i, v(a), go())
        if isinstance(s, ast.AugAssign) and isinstance(s.op, ast.Sub) and isinstance(s.target, ast.Name):
            n = s.target.id
            x, tx = self.expr(s.value, env, "Z")
            if env.get(n) != "Z":
                refuse(s, "x -= e on a name that is not an int (Z)")
            return "let %s := (%s - %s)%%Z in\n%s" % (v(n), v(n), self.coerceZ(x, tx, s), go())
        if isinstance(s, ast.While):
            if s.orelse or any(isinstance(n, (ast.Break, ast.Continue, ast.Return)) for n in ast.walk(s) if not isinstance(n, ast.For)) \
                    and any(isinstance(n, (ast.Continue, ast.Return)) for n in ast.walk(s)):
                refuse(s, "while with else / continue / return")
            if any(isinstance(n, ast.Break) for st in s.body for n in self.own_nodes(st)):
                refuse(s, "break in a while")
            fuel = env.get("$wfuel")
            if not fuel:
                refuse(s, "while loop in a unit the table gives no fuel for")
            names = self.assigned(s.body)
            state = [n for n in env if n in names]
            for n in names:
                if n not in env and n in self.reads_after(s.body, rest):
                    refuse(s, "name %s is first bound inside a loop and used afterwards" % n)
            if not state:
                refuse(s, "loop without effect on the variables bound before it")
            c = self.cond(s.test, env)
            self.for_depth += 1
            try:
                body = self.block(s.body, dict(env), lambda e2: tup(state))
            finally:
                self.for_depth -= 1
            return "let %s := while_ (%s) (fun st_ => let %s := st_ in %s) (fun st_ => let %s := st_ in\n%s) %s in\n%s" % (
                letpat(state), fuel, letpat(state), c, letpat(state), body, tup(state), go())
        if isinstance(s, ast.Assign) and len(s.targets) == 1 and isinstance(s.targets[0], ast.Name) \
                and not (isinstance(s.value, ast.Call) and isinstance(s.value.func, ast.Name)
                         and s.value.func.id == "_randomizedSelect"):
            n = s.targets[0].id
            want = env.get(n) or SPEA["types"].get(n) or LOCAL_TYPES.get(n)
            x, t = self.expr(s.value, env, want)
            if n in self.z_names and t == "nat":        # a name that is decremented somewhere is an int (Z) throughout
                x, t = "(Z.of_nat %s)" % x, "Z"
            if want is not None and want != t:
                refuse(s, "name %s gets a value of type %s, declared / previously %s" % (n, t, want))
            if n in self.loop_targets(self.fn.body) and n not in env:
                pass
            env[n] = t
            return "let %s := %s in\n%s" % (v(n), x, go())
        if isinstance(s, ast.Assign) and len(s.targets) == 1 and isinstance(s.targets[0], ast.Name) \
                and isinstance(s.value, ast.Call) and isinstance(s.value.func, ast.Name) and s.value.func.id == "_randomizedSelect":
            c = s.value
            n = s.targets[0].id
            if c.keywords or len(c.args) != 4 or not isinstance(c.args[0], ast.Name) or not env.get("$draws"):
                refuse(s, "call of _randomizedSelect outside x = _randomizedSelect(<name>, a, b, i) in a unit that draws")
            arr = c.args[0].id
            if env.get(arr) != "listT" or (n in env and env[n] != "T"):
                refuse(s, "_randomizedSelect on something else than a list of numbers")
            args = []
            for a in c.args[1:]:
                x, t = self.expr(a, env, "Z")
                args.append(self.coerceZ(x, t, a))
            fuel = SIG["_randomizedSelect"]["call_fuel"].replace("ARG", v(arr))
            text = "gen_randomizedSelect (%s) %s %s ds" % (fuel, v(arr), " ".join(args))
            del env[arr]                       # the callee's final array is not returned: clobbered
            env[n] = "T"
            return "let '(%s, ds) := %s in\n%s" % (v(n), text, go())
        if isinstance(s, ast.Assign) and len(s.targets) == 1 and isinstance(s.targets[0], ast.Subscript) \
                and isinstance(s.targets[0].value, ast.Name) and not isinstance(s.targets[0].slice, ast.Slice):
            t = s.targets[0]
            a = t.value.id
            i, ti = self.expr(t.slice, env)
            x, tx = self.expr(s.value, env)
            if env.get(a) != "listT" or ti != "nat" or tx != "T":
                refuse(s, "subscript assignment outside <list of numbers>[natural number] = number")
            return "let %s := set_nth %s %s %s in\n%s" % (v(a), v(a), i, x, go())
        if isinstance(s, ast.Expr) and isinstance(s.value, ast.Call) and isinstance(s.value.func, ast.Attribute) \
                and s.value.func.attr == "sort" and isinstance(s.value.func.value, ast.Name) and not s.value.args \
                and not s.value.keywords:
            a = s.value.func.value.id
            if env.get(a) != "lpnnat":
                refuse(s, "sort of something else than a list of (number, index) tuples")
            return "let %s := sort_pn Op %s in\n%s" % (v(a), v(a), go())
        if isinstance(s, ast.AugAssign) and isinstance(s.op, ast.Add):
            t = s.target
            if isinstance(t, ast.Name):
                x, tx = self.expr(s.value, env)
                if env.get(t.id) == "T" and tx == "T":
                    return "let %s := n_add Op %s %s in\n%s" % (v(t.id), v(t.id), x, go())
                if env.get(t.id) == "listnat" and tx == "listnat":
                    return "let %s := %s ++ %s in\n%s" % (v(t.id), v(t.id), x, go())
                refuse(s, "augmented assignment outside number += number / index list += index list")
            if isinstance(t, ast.Subscript) and isinstance(t.value, ast.Name) and not isinstance(t.slice, ast.Slice):
                a = t.value.id
                i, ti = self.expr(t.slice, env)
                x, tx = self.expr(s.value, env)
                if ti != "nat":
                    refuse(s, "x[i] += e with a non-natural index")
                if env.get(a) == "listnat" and tx == "T":
                    raise Widen(a, s)
                if env.get(a) == "listpn" and tx in ("T", "nat"):
                    return "let %s := set_nth %s %s (padd Op (nth %s %s %s) (%s %s)) in\n%s" % (
                        v(a), v(a), i, i, v(a), DEFAULT["pn"], "@PF T" if tx == "T" else "@PI T", x, go())
                if env.get(a) != "listnat" or tx != "nat":
                    refuse(s, "x[i] += e outside lists of natural numbers / Python numbers")
                return "let %s := set_nth %s %s (nth %s %s 0%%nat + %s)%%nat in\n%s" % (v(a), v(a), i, i, v(a), x, go())
            refuse(s, "augmented assignment outside the grammar")
        if isinstance(s, ast.Expr) and isinstance(s.value, ast.Call) and isinstance(s.value.func, ast.Attribute) \
                and s.value.func.attr == "append" and len(s.value.args) == 1 and not s.value.keywords:
            t = s.value.func.value
            x, tx = self.expr(s.value.args[0], env)
            if isinstance(t, ast.Subscript) and isinstance(t.value, ast.Name) and not isinstance(t.slice, ast.Slice) \
                    and env.get(t.value.id) == "llnat" and tx == "nat":
                a = t.value.id
                i, ti = self.expr(t.slice, env)
                if ti != "nat":
                    refuse(s, "index is not a natural number")
                return "let %s := set_nth %s %s (nth %s %s (@nil nat) ++ [%s]) in\n%s" % (v(a), v(a), i, i, v(a), x, go())
            if isinstance(t, ast.Name) and env.get(t.id) == "listnat" and tx == "nat":
                return "let %s := %s ++ [%s] in\n%s" % (v(t.id), v(t.id), x, go())
            refuse(s, "append outside x[i].append(natural number) / x.append(natural number)")
        if isinstance(s, ast.For):
            if any(isinstance(n, (ast.Continue, ast.Return)) for n in ast.walk(s)):
                refuse(s, "continue / return inside a for")
            has_brk = any(isinstance(n, ast.Break) for st in s.body for n in self.own_nodes(st))
            it, bind, tenv = self.iterable(s.iter, s.target, env)
            names = self.assigned(s.body)
            state = [n for n in env if n in names]          # canonical order: order of first binding in the function
            for n in names:
                if n not in env and n in self.reads_after(s.body, rest):
                    refuse(s, "name %s is first bound inside a loop and used afterwards" % n)
            if any(isinstance(n, ast.Name) and n.id == "_randomizedSelect" for n in ast.walk(s)):
                state.append("$ds")                          # the draw list is threaded through the loop
            if not state:
                refuse(s, "loop without effect on the variables bound before it")
            pre = ""
            for _ in range(3):
                env2 = dict(env)
                env2.update(tenv)
                self.for_depth += 1
                try:
                    if has_brk:
                        body = self.block(s.body, env2, lambda e2: "Next %s" % tup(state), False,
                                          lambda e2: "Ret %s" % tup(state))
                    else:
                        body = self.block(s.body, env2, lambda e2: tup(state))
                    break
                except Widen as w:
                    if self.for_depth > 1 or env.get(w.name) != "listnat":
                        raise
                    pre += "let %s := map (@PI T) %s in\n" % (v(w.name), v(w.name))
                    env[w.name] = "listpn"
                finally:
                    self.for_depth -= 1
            else:
                refuse(s, "type widening did not settle")
            return "%slet %s := %s %s (fun x_ st_ => %slet %s := st_ in\n%s) %s in\n%s" % (
                pre, letpat(state), "for_brk" if has_brk else "for_", it, bind, letpat(state), body, tup(state), go())
        if isinstance(s, ast.If):
            if top:
                return self.unit_chain(s, rest, env, tail)
            if has_return(s.body) or has_return(s.orelse):
                refuse(s, "return inside an if")
            c = self.cond(s.test, env)
            if any(isinstance(n, ast.Break) for st in s.body + s.orelse for n in self.own_nodes(st)):
                # a branch may leave the loop: the rest of the block is the continuation of the branches that fall through
                cont = lambda e2: self.block(rest, e2, tail, top, brk)      # noqa
                a = self.block(s.body, env, cont, False, brk)
                b = self.block(s.orelse, env, cont, False, brk)
                return "if %s then (\n%s\n) else (\n%s\n)" % (c, a, b)
            names = self.assigned(s.body + s.orelse)
            for n in names:
                if n not in env:
                    refuse(s, "name %s is first bound inside an if" % n)
            names = [n for n in env if n in names]          # canonical order
            if not names:
                return go()
            a = self.block(s.body, env, lambda e2: tup(names))
            b = self.block(s.orelse, env, lambda e2: tup(names))
            return "let %s := if %s then (\n%s\n) else (\n%s\n) in\n%s" % (letpat(names), c, a, b, go())
        if isinstance(s, ast.Return) and top:
            if rest:
                refuse(rest[0], "statement after return")
            e = s.value
            if isinstance(e, ast.ListComp) and len(e.generators) == 1 and not e.generators[0].ifs \
                    and isinstance(e.generators[0].target, ast.Name) and isinstance(e.generators[0].iter, ast.Name) \
                    and isinstance(e.elt, ast.Subscript) and isinstance(e.elt.value, ast.Name) \
                    and e.elt.value.id == "individuals" and isinstance(e.elt.slice, ast.Name) \
                    and e.elt.slice.id == e.generators[0].target.id and env.get(e.generators[0].iter.id) == "listnat" \
                    and env.get("individuals") == "inds":
                # individuals are identified with their indices (the model's convention)
                return "(%s, ds)" % v(e.generators[0].iter.id)
            refuse(s, "return other than [individuals[i] for i in <index list>]")
        refuse(s, "statement outside the grammar")

    def reads_after(self, body, rest):
        return [n.id for s in rest for n in ast.walk(s) if isinstance(n, ast.Name) and isinstance(n.ctx, ast.Load)]

    # ---- the two branch units ----------------------------------------------------------------------------
    def unit_chain(self, s, rest, env, tail):
        units = SPEA["units"]
        if not (len(s.orelse) == 1 and isinstance(s.orelse[0], ast.If) and not s.orelse[0].orelse):
            refuse(s, "the top-level if is not `if ...: elif ...:` without else")
        if self.unit_defs:
            refuse(s, "a second top-level if")
        branches = [(s.test, s.body), (s.orelse[0].test, s.orelse[0].body)]
        conds = [self.cond(t, env) for t, _ in branches]
        calls = []
        for u, (_, body) in zip(units, branches):
            for r in u["reads"]:
                if env.get(r) != SPEA["types"][r]:
                    refuse(s, "the branch interface expects %s : %s to be bound here" % (r, SPEA["types"][r]))
            assigned_in = set()
            for st in body:
                for n in ast.walk(st):
                    if isinstance(n, ast.Name) and isinstance(n.ctx, (ast.Store, ast.Del)):
                        assigned_in.add(n.id)
            for st in body:
                for n in ast.walk(st):
                    if isinstance(n, ast.Name) and isinstance(n.ctx, ast.Load) and n.id not in u["reads"] \
                            and n.id not in assigned_in and n.id not in UNIT_GLOBALS:
                        refuse(n, "the branch reads %s, which is outside its declared interface" % n.id)
                    if isinstance(n, (ast.Return, ast.Global, ast.Nonlocal, ast.Lambda, ast.Yield)):
                        refuse(n, "construct outside the grammar inside a branch")
            hdr = "Definition %s %s%s : %s :=" % (
                u["gen"], " ".join("(%s : %s)" % (v(r), COQ_TYPE[SPEA["types"][r]]) for r in u["reads"]),
                " (ds : list Z)" if u["draws"] else "", "list nat * list Z" if u["draws"] else "list nat")
            why = self.forced.get(u["key"])
            if why is None and u.get("attempt") is False and not os.environ.get("C07_TRY_" + u["key"].split(".")[1].upper()):
                why = Refuse(s, "this branch is not attempted by the translator (no equivalence proof for it yet)")
            text = None
            if why is None:
                try:
                    uenv = {r: SPEA["types"][r] for r in u["reads"]}
                    if u["draws"]:
                        uenv["$draws"] = True
                    if u.get("wfuel"):
                        uenv["$wfuel"] = u["wfuel"]
                    text = self.block(body, uenv, lambda e2: ("(%s, ds)" if u["draws"] else "%s") % tup(u["writes"]))
                except Refuse as e:
                    why = e
            if why is not None:
                self.unit_defs.append("(* REFUSED: %s *)\n%s\n%s." % (str(why).replace("*)", "* )"), hdr, u["alias"]))
            else:
                self.unit_defs.append("%s\n%s." % (hdr, text))
            self.unit_status[u["key"]] = why
            call = "%s %s%s" % (u["gen"], " ".join(v(r) for r in u["reads"]), " ds" if u["draws"] else "")
            calls.append(call if u["draws"] else "(%s, ds)" % call)
        w = units[0]["writes"]
        env = dict(env)
        for n in list(env):
            if n not in SPEA["params"] and n not in w:
                del env[n]                     # the branches may rebind any other local
        return "let '(%s, ds) := if %s then %s else if %s then %s else (%s, ds) in\n%s" % (
            tup(w), conds[0], calls[0], conds[1], calls[1], tup(w), self.block(rest, env, tail, True))

    def translate(self):
        fn = self.fn
        a = fn.args
        if a.vararg or a.kwarg or a.kwonlyargs or a.defaults or a.posonlyargs or fn.decorator_list:
            refuse(fn, "parameter list / decorators outside the grammar")
        if [x.arg for x in a.args] != SPEA["params"]:
            refuse(fn, "parameters %r differ from the signature table" % [x.arg for x in a.args])
        for n in ast.walk(fn):
            if isinstance(n, (ast.Global, ast.Nonlocal, ast.Lambda, ast.FunctionDef, ast.Try, ast.With, ast.Yield,
                              ast.YieldFrom, ast.GeneratorExp, ast.Raise, ast.Assert)) and n is not fn:
                refuse(n, "construct outside the grammar")
        if not fn.body or not isinstance(fn.body[-1], ast.Return):
            refuse(fn, "the body does not end with a return")
        env = {"individuals": "inds", "k": "nat"}
        self.z_names = set(n.target.id for n in ast.walk(fn) if isinstance(n, ast.AugAssign) and isinstance(n.op, ast.Sub)
                           and isinstance(n.target, ast.Name))
        body = self.block(fn.body, env, lambda e2: refuse(fn, "the body may fall off its end"), True)
        if len(self.unit_defs) != len(SPEA["units"]):
            refuse(fn, "the top-level if / elif with the two archive branches was not found")
        return "%s\n%s." % (self.header(), body)

    @staticmethod
    def header():
        return "Definition gen_selSPEA2 (v_individuals : list (list T * list T)) (v_k : nat) (ds : list Z) : list nat * list Z :="

    @staticmethod
    def alias_all(why):
        out = []
        for u in SPEA["units"]:
            hdr = "Definition %s %s%s : %s :=" % (
                u["gen"], " ".join("(%s : %s)" % (v(r), COQ_TYPE[SPEA["types"][r]]) for r in u["reads"]),
                " (ds : list Z)" if u["draws"] else "", "list nat * list Z" if u["draws"] else "list nat")
            out.append("(* REFUSED: %s *)\n%s\n%s." % (str(why).replace("*)", "* )"), hdr, u["alias"]))
        out.append("(* REFUSED: %s *)\n%s\n%s." % (str(why).replace("*)", "* )"), SpeaTr.header(), SPEA["alias"]))
        return out



HEADER = """(* GENERATED by harness/c07_py2coq.py from %s — do not edit, never committed.
   %s *)
From Coq Require Import List ZArith Bool.
From DV Require Import Base.PyList Base.C07_Num Model.C07_Spea2 Model.C07_RefPoints Model.C07_GenRt.
Import ListNotations.

Section Gen.
Context {T : Type} (Op : numops T).

"""


def check_module(tree):
    """the names the translation gives a fixed meaning to must be bound at module level as expected"""
    seen = {}
    for n in tree.body:
        if isinstance(n, ast.Import):
            for al in n.names:
                seen[al.asname or al.name.split(".")[0]] = ("import", al.name)
        elif isinstance(n, ast.ImportFrom):
            for al in n.names:
                seen[al.asname or al.name] = ("from", n.module)
        elif isinstance(n, (ast.FunctionDef, ast.ClassDef)):
            seen[n.name] = ("def", n.lineno)
        elif isinstance(n, ast.Assign):
            for t in n.targets:
                for x in ast.walk(t):
                    if isinstance(x, ast.Name):
                        seen[x.id] = ("assign", n.lineno)
    if seen.get("random") != ("import", "random"):
        raise Refuse("Module", "the name `random` is not `import random`")
    if "len" in seen:
        raise Refuse("Module", "the builtin len is rebound at module level")
    return seen


def translate_source(text, origin="deap/tools/emo.py", forced=None):
    """-> (Gallina text, {function: None | Refuse})"""
    forced = dict(forced or {})
    for f in os.environ.get("C07_FORCE_REFUSE", "").split(","):       # testing hook: proof scripts against the aliases
        if f.strip():
            forced.setdefault(f.strip(), Refuse("FunctionDef", "forced refusal (C07_FORCE_REFUSE)"))
    status = {}
    defs = {}
    try:
        tree = ast.parse(text)
        seen = check_module(tree)
        modfail = None
    except (SyntaxError, Refuse) as e:
        tree, seen, modfail = None, {}, e
    out = []
    for name in SIG:
        why = None
        tr = FnTr(name, None)
        if modfail is not None:
            why = modfail
        elif name in forced:
            why = forced[name]
        else:
            parent = SIG[name].get("parent")
            if parent is None:
                fns = [n for n in tree.body if isinstance(n, ast.FunctionDef) and n.name == name]
                found = len(fns) == 1 and seen.get(name, ("",))[0] == "def" and seen[name][1] == fns[0].lineno
            else:
                ps = [n for n in tree.body if isinstance(n, ast.FunctionDef) and n.name == parent]
                found = len(ps) == 1 and seen.get(parent, ("",))[0] == "def" and seen[parent][1] == ps[0].lineno
                fns = [n for n in ast.walk(ps[0]) if isinstance(n, ast.FunctionDef) and n.name == name] if found else []
                found = found and len(fns) == 1 and fns[0] in ps[0].body and name not in seen
            if not found:
                why = Refuse("Module", "%s is not defined exactly once%s" % (
                    name, " at module level" if parent is None else " inside " + parent))
            else:
                tr = FnTr(name, fns[0])
                try:
                    # a translated function may only call table functions that were themselves found
                    out.append(tr.translate())
                except Refuse as e:
                    why = e
                except Exception as e:  # noqa  (fail closed, per function)
                    why = Refuse("FunctionDef", "translator error %s: %s" % (type(e).__name__, e))
        if why is not None:
            out.append(tr.alias(why))
        status[name] = why
    # selSPEA2 and its two branch units
    why, sp = None, None
    if modfail is not None:
        why = modfail
    elif "selSPEA2" in forced:
        why = forced["selSPEA2"]
    elif "math" in seen and seen["math"] != ("import", "math"):
        why = Refuse("Module", "the name `math` is not `import math`")
    else:
        fns = [n for n in tree.body if isinstance(n, ast.FunctionDef) and n.name == "selSPEA2"]
        if len(fns) != 1 or seen.get("selSPEA2", ("",))[0] != "def" or seen["selSPEA2"][1] != fns[0].lineno:
            why = Refuse("Module", "selSPEA2 is not defined exactly once at module level")
        else:
            sp = SpeaTr(fns[0], forced)
            try:
                text = sp.translate()
                out += sp.unit_defs + [text]
                status["selSPEA2"] = None
                for u in SPEA["units"]:
                    status[u["key"]] = sp.unit_status[u["key"]]
            except Refuse as e:
                why = e
            except Exception as e:  # noqa  (fail closed)
                why = Refuse("FunctionDef", "translator error %s: %s" % (type(e).__name__, e))
    if why is not None:
        out += SpeaTr.alias_all(why)
        status["selSPEA2"] = why
        for u in SPEA["units"]:
            status[u["key"]] = why
    summary = "; ".join("%s: %s" % (f, "regenerated" if status[f] is None else "REFUSED") for f in FUNCTIONS)
    return HEADER % (origin, summary) + "\n\n".join(out) + "\n\nEnd Gen.\n", status


def translate_repo(repo, forced=None):
    path = os.path.join(repo, "deap", "tools", "emo.py")
    with open(path) as f:
        text = f.read()
    return translate_source(text, "deap/tools/emo.py", forced)


if __name__ == "__main__":
    import sys
    txt, st = translate_repo(sys.argv[1] if len(sys.argv) > 1 else os.environ.get("VERIF_REPO", "/repo"))
    sys.stdout.write(txt)
    for k, val in st.items():
        sys.stderr.write("%s: %s\n" % (k, "ok" if val is None else val))
