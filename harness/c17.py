"""C17 — runs are reproducible, resumable from any checkpoint, map-schedule independent.

Two parts (DESIGN.md section 5, C17):
  * model part: coq/Model/C17_Repro.v (a run as a fold over an explicit state record, token codec save/restore,
    pmap) with the theorems of coq/Props/C17.v, tied to /repo by running a real DEAP GA (harness/c17_families.py,
    family `modelga`) on an explicit draw list, uninterrupted / killed-and-resumed at every k / with a parallel map,
    and recomputing every boundary of those runs with the model inside coqc;
  * runtime part (what no model theorem can exhibit): for every algorithm family fresh interpreter processes are
    compared through fingerprints of population / archive / logbook / strategy / generator states at every
    generation boundary: second run, kill-after-k + resume-from-pickle for every k and protocol, parallel maps.
"""
import concurrent.futures
import json
import os
import shutil
import subprocess
import sys

import vlib
from vlib import cz, czl, cnat, cnatl, cbool, clist, copt

HERE = os.path.dirname(os.path.abspath(__file__))
FAMPY = os.path.join(HERE, "c17_families.py")
COMPONENTS = ["population", "archive", "logbook", "strategy", "rnd", "nprnd", "stream"]

# name -> (family key, params, label used by the property text)
CONFIGS = [
    ("ga", "ga", {}, "GA on lists"),
    ("ga_array", "ga_array", {}, "GA on lists (array individuals, mu+lambda)"),
    ("ga_numpy", "ga_numpy", {}, "GA on lists (numpy individuals, mu,lambda)"),
    ("ga_np_int8", "ga_np_int8", {}, "GA on lists (numpy int8 individuals)"),
    ("ga_array_f", "ga_array_f", {}, "GA on lists (array('f') individuals)"),
    ("nsga2", "nsga2", {}, "NSGA-II"),
    ("nsga2_np32", "nsga2_np32", {}, "NSGA-II (numpy float32 individuals)"),
    ("spea2", "spea2", {}, "SPEA2"),
    ("nsga3", "nsga3", {"nd": "log"}, "NSGA-III with memory"),
    ("nsga3_std", "nsga3", {"nd": "standard"}, "NSGA-III with memory"),
    ("nsga3_comma", "nsga3", {"nd": "log", "comma": True}, "NSGA-III with memory (selection among offspring only)"),
    ("gp", "gp", {}, "GP with ephemerals"),
    ("gp_adf", "gp_adf", {}, "GP with ephemerals (automatically defined functions: individuals are lists of trees)"),
    ("ga_constrained", "ga_constrained", {}, "GA on lists (ConstrainedFitness)"),
    ("gp_typed_builtin", "gp_typed", {"variant": "builtin"}, "GP with ephemerals (typed, builtin types)"),
    ("gp_typed_heap", "gp_typed", {"variant": "heap"}, "GP with ephemerals (typed, user classes as types)"),
    ("gp_typed_heap_b", "gp_typed", {"variant": "heap"}, "GP with ephemerals (typed, user classes as types; second evolution seed)"),
    ("gp_typed_sub", "gp_typed", {"variant": "sub"}, "GP with ephemerals (typed, bool < int: the super type inherits the subtype's entries)"),
    ("cma", "cma", {}, "CMA-ES"),
    ("cma_user", "cma", {"user": {"centroid": "ndarray"}}, "CMA-ES (user-supplied cmatrix and ndarray centroid)"),
    ("cma_user_list", "cma", {"user": {"centroid": "list"}}, "CMA-ES (user-supplied cmatrix and list centroid)"),
    ("cma1pl", "cma1pl", {}, "(1+lambda)-CMA"),
    ("cma1pl_user", "cma1pl", {"user": True}, "(1+lambda)-CMA (user-supplied parent object)"),
    ("cma_active", "cma_active", {}, "(1+lambda)-CMA (active, mixed-integer, constrained)"),
    ("mocma", "mocma", {"lambda_": 6}, "MO-CMA-ES"),
    ("mocma_l3", "mocma", {"lambda_": 3}, "MO-CMA-ES (lambda != mu)"),
    ("mocma_user", "mocma", {"lambda_": 6, "user": True}, "MO-CMA-ES (user-supplied initial population objects)"),
    ("es", "es", {}, "GA on lists (evolution strategy, array individuals with a strategy attribute)"),
    ("islands", "islands", {}, "GA on lists (three demes, tools.migRing)"),
    # hardening round: sequences on the same objects, value domains, rarely used routes, boundaries
    ("ga_reconf", "ga", {"reconf": True}, "GA on lists (logbook / archive reconfigured between generations through their public routes)"),
    ("ga_array_reconf", "ga_array", {"reconf": True}, "GA on lists (array individuals, logbook with chapters: header/pop/del/remove between generations)"),
    ("ga_p0", "ga", {"cxpb": 0.0, "mutpb": 0.0}, "GA on lists (cxpb = mutpb = 0: no evaluation task at all after generation 0)"),
    ("ga_p1", "ga", {"cxpb": 1.0, "mutpb": 1.0, "indpb": 1.0}, "GA on lists (cxpb = mutpb = indpb = 1)"),
    ("ga_tiny", "ga", {"n": 2, "len": 2, "hof": 1}, "GA on lists (population of 2, genome of 2, hall of fame of 1)"),
    ("ga_special", "ga_special", {}, "GA on lists (-0.0, denormals, inf, ints > 2**53, numpy scalars as genes; weights 0.3 / -2.75)"),
    ("nsga2_w", "nsga2", {"weights": [-3.0, -0.1], "nd": "log"}, "NSGA-II (weights -3 / -0.1, nd='log')"),
    ("spea2_w", "spea2", {"weights": [-0.25, 7.0]}, "SPEA2 (weights -0.25 / +7)"),
    ("cma_linear", "cma", {"strategy_kw": {"weights": "linear", "mu": 3, "lambda_": 9}, "relambda": [3, 12]},
     "CMA-ES (linear weights, explicit mu; lambda changed and computeParams called in generation 3)"),
    ("cma_equal", "cma", {"strategy_kw": {"weights": "equal", "lambda_": 4, "ccum": 0.5, "damps": 2.0}}, "CMA-ES (equal weights, lambda 4, explicit ccum/damps)"),
    ("cma1pl_l1", "cma1pl", {"strategy_kw": {"lambda_": 1}, "relambda": [3, 5]}, "(1+1)-CMA, lambda raised to 5 in generation 3"),
    ("cma_active_relambda", "cma_active", {"relambda": [3, 3]}, "(1+lambda)-CMA active (lambda set through the property setter in generation 3)"),
    ("gp_harm", "gp_harm", {}, "GP with ephemerals (gp.harm loop, one call per generation)"),
    ("ea_simple", "ealoops", {"loop": "simple"}, "GA on lists (algorithms.eaSimple, one call per generation)"),
    ("ea_plus", "ealoops", {"loop": "plus"}, "GA on lists (algorithms.eaMuPlusLambda)"),
    ("ea_comma", "ealoops", {"loop": "comma"}, "GA on lists (algorithms.eaMuCommaLambda)"),
    ("ea_genupd", "ealoops", {"loop": "genupd"}, "CMA-ES (algorithms.eaGenerateUpdate)"),
]


class Jobs(object):
    """runs c17_families.py subprocesses, at most NCPU at a time"""

    def __init__(self, run):
        self.run = run
        self.dir = os.path.join(run.rundir, "c17")
        os.makedirs(self.dir, exist_ok=True)
        self.n = 0
        self.ex = concurrent.futures.ThreadPoolExecutor(max_workers=max(4, min(16, vlib.NCPU)))
        self.launched = 0

    def submit(self, spec, hashseed="0", timeout=600):
        self.n += 1
        tag = "j%05d" % self.n
        spec = dict(spec)
        spec["out"] = os.path.join(self.dir, tag + ".out.json")
        sp = os.path.join(self.dir, tag + ".spec.json")
        with open(sp, "w") as f:
            json.dump(spec, f)
        self.launched += 1
        return self.ex.submit(self._go, sp, spec, hashseed, timeout)

    @staticmethod
    def _go(sp, spec, hashseed, timeout):
        env = dict(os.environ)
        env["PYTHONPATH"] = vlib.REPO
        env["PYTHONHASHSEED"] = str(hashseed)
        env["PYTHONDONTWRITEBYTECODE"] = "1"
        env["OMP_NUM_THREADS"] = "1"
        env["OPENBLAS_NUM_THREADS"] = "1"
        env["MKL_NUM_THREADS"] = "1"
        rc, log = -1, ""
        for attempt in (1, 2):      # a second attempt only if the process produced no result file at all (killed / timed out)
            try:
                p = subprocess.run(["timeout", str(timeout), sys.executable, FAMPY, sp], env=env, cwd=os.path.dirname(sp),
                                   stdout=subprocess.PIPE, stderr=subprocess.STDOUT, text=True)
                rc, log = p.returncode, p.stdout[-2000:]
            except Exception as e:   # noqa
                rc, log = -1, repr(e)
            if os.path.exists(spec["out"]):
                break
        res = None
        if os.path.exists(spec["out"]):
            try:
                with open(spec["out"]) as f:
                    res = json.load(f)
            except Exception as e:   # noqa
                log += "\nunreadable result: %r" % e
        for fn in (sp, spec["out"]):
            try:
                os.remove(fn)
            except OSError:
                pass
        return {"rc": rc, "log": log, "res": res, "hashseed": str(hashseed)}

    def close(self):
        self.ex.shutdown(wait=True)
        shutil.rmtree(self.dir, ignore_errors=True)


def bmap(res):
    return {b["gen"]: b for b in res["boundaries"]}


def compare(ref, other, skip_stream_at=None):
    """first (generation, component) at which the fingerprints differ, over the generations `other` has"""
    rb, ob = bmap(ref), bmap(other)
    for g in sorted(ob):
        if g not in rb:
            return (g, "missing-in-reference")
        for c in COMPONENTS:
            if c == "stream" and g == skip_stream_at:
                continue
            if rb[g]["sha"][c] != ob[g]["sha"][c]:
                return (g, c)
    return None


def text_diff(a, b, width=160):
    if a is None or b is None:
        return None
    n = min(len(a), len(b))
    i = 0
    while i < n and a[i] == b[i]:
        i += 1
    lo = max(0, i - width // 2)
    return {"at": i, "reference": a[lo:i + width], "observed": b[lo:i + width]}


# The C16 pickling defects (array-backed individuals below protocol 3, GP trees below protocol 2) were repaired in
# /repo by the C16 worker (commits 40d1650, c8db131) before this check was finished, so nothing is tolerated:
# a checkpoint that cannot be written or read with some protocol 0..5 is a violation of "every pickle protocol".
def is_c16_pickle_issue(cfg, protocol, msg):
    return False


def runtime_part(run, jobs):
    rng = run.rng
    thorough = run.thorough
    ngen = run.scale(5, 7)
    nseeds = run.scale(2, 3)
    protocols = [0, 1, 2, 3, 4, 5] if thorough else [2, 5]
    pool_workers = list(range(1, 9)) if thorough else None
    only = os.environ.get("C17_ONLY")
    configs = [c for c in CONFIGS if not only or c[0] in only.split(",")]
    ckroot = os.path.join(jobs.dir, "ck")

    # operator sweep: representation x selection x crossover x mutation x loop, drawn from the run's generator
    import c17_families_ops as ops
    configs = list(configs)
    if not only or "ga_ops" in only.split(","):
        for j in range(run.scale(3, 12)):
            prm = ops.draw(rng)
            configs.append(("ga_ops", "ga_ops", prm, "GA on lists (operator sweep %s)" % "/".join(str(prm[k]) for k in sorted(prm))))
    # corpus: minimised past misses, run first and in every tier (fixed seeds / generations / protocols)
    corpus = []
    cdir = os.path.join(vlib.VERIF, "corpus")
    for fn in sorted(os.listdir(cdir)) if os.path.isdir(cdir) else []:
        if fn.startswith("C17_") and fn.endswith(".json"):
            with open(os.path.join(cdir, fn)) as f:
                c = json.load(f)
            if not only or c["cfg"] in only.split(","):
                corpus.append(c)
    plan = []
    primary = {"ga", "nsga2", "spea2", "nsga3", "nsga3_comma", "gp", "cma", "cma1pl", "mocma"}
    todo = [(c["cfg"], c["family"], c.get("params", {}), "corpus: " + c.get("what", c["cfg"]), 0, c) for c in corpus]
    for (cfg, fam, params, label) in configs:
        for si in range(nseeds if (thorough or cfg in primary) else 1):
            todo.append((cfg, fam, params, label, si, None))
    for (cfg, fam, params, label, si, cor) in todo:
        if True:
            seed = cor["seed"] if cor else rng.randrange(1, 2 ** 31)
            e_ngen = cor["ngen"] if cor else ngen
            e_protocols = cor.get("protocols", protocols) if cor else protocols
            kinds = set(cor.get("modes", ["rerun", "twice", "resume", "pool"])) if cor else {"rerun", "twice", "resume", "pool"}
            base = {"family": fam, "params": params, "seed": seed, "ngen": e_ngen}
            ck = os.path.join(ckroot, "%s_%d%s" % (cfg, seed, "_corpus" if cor else ""))
            os.makedirs(ck, exist_ok=True)
            entry = {"cfg": cfg, "label": label, "base": base, "ck": ck, "seed": seed, "ngen": e_ngen, "protocols": e_protocols,
                     "kinds": kinds}
            # quick tier: the variants (not the eight named families) get a lighter plan: one re-run, one pool run, one
            # protocol per checkpoint (alternating) -- every k is still enumerated
            light = (not thorough) and (cor is None) and (cfg not in primary)
            entry["light"] = light
            entry["ref"] = jobs.submit(dict(base, mode="full", keep_text=True))
            entry["twice"] = jobs.submit(dict(base, mode="twice")) if "twice" in kinds else None
            # checkpointing (dump + load back in the same process) after every generation must not disturb the run
            entry["ckptcont"] = jobs.submit(dict(base, mode="full", pickle_every_gen=e_protocols)) if "twice" in kinds else None
            # two evolutions interleaved in one process (second seed): each must equal its own fresh-process run
            entry["inter"] = None
            if "twice" in kinds and fam != "modelga":
                seed2 = rng.randrange(1, 2 ** 31)
                entry["inter"] = (seed2, jobs.submit(dict(base, mode="interleave", seed2=seed2)),
                                  jobs.submit(dict(base, mode="full", seed=seed2)))
            h2 = str(rng.randrange(1, 2 ** 32 - 1))
            entry["rep"] = [(dict(hashseed=h2, perturb=p), jobs.submit(dict(base, mode="full", perturb=p), hashseed=h2))
                            for p in (([rng.choice([1, 3, 6])] if (light and not str(cfg).startswith("gp_typed")) else
                                       ([1, 2, 3, 4, 5, 6, 7, 9, 11] if str(cfg).startswith("gp_typed_heap") else [1, 3, 6]))
                                      if not thorough else [0, 1, 2, 3, 5, 6])] \
                if "rerun" in kinds else []
            entry["save"] = {k: jobs.submit(dict(base, mode="save", k=k, protocols=e_protocols, ckpt=ck))
                             for k in range(0, e_ngen + 1)} if "resume" in kinds else {}
            # chains: resume from k1, run on to k2, checkpoint again and be killed again, resume from that
            entry["chains"] = []
            if "resume" in kinds and e_ngen >= 2:
                for _ in range(run.scale(1, 3)):
                    k1 = rng.randrange(0, e_ngen - 1)
                    k2 = rng.randrange(k1 + 1, e_ngen)
                    entry["chains"].append((k1, k2, rng.choice(e_protocols), rng.choice(e_protocols)))
            ws = (pool_workers or sorted(rng.sample(range(1, 9), 1 if light else 3))) if "pool" in kinds else []
            entry["pool"] = []
            # mp/mp_imap/cf: forked workers; mp_spawn: workers are fresh interpreters that rebuild types, primitive set and
            # toolbox in an initializer; cf_thread: threads
            allkinds = ["mp", "cf", "mp_imap", "mp_spawn", "cf_thread"]
            for w in ws:
                kinds = [allkinds[(w + si) % 5], allkinds[(w + si + 2) % 5]] if thorough else [rng.choice(allkinds[:4])]
                for kind in kinds:
                    ds = rng.randrange(10 ** 6)
                    sched = {"workers": w, "pool_kind": kind, "delay_seed": ds}
                    entry["pool"].append((sched, jobs.submit(dict(base, mode="pool", **sched))))
            plan.append(entry)

    blocked = []
    per_family = {}
    orders_seen = set()
    type_orders = set()
    for e in plan:
        cfg = e["cfg"]
        fam_cov = per_family.setdefault(cfg, {"label": e["label"], "seeds": 0, "fresh_reruns": 0, "resumes": 0,
                                              "pool_runs": 0, "tolerated_c16": 0})
        ref = e["ref"].result()
        ngen = e["ngen"]
        protocols = e["protocols"]
        case0 = {"family": cfg, "family_key": e["base"]["family"], "params": e["base"]["params"], "seed": e["seed"], "ngen": ngen}
        if ref["res"] is None:
            run.broken.append({"kind": "harness_exception", "where": ["c17_families.py %s" % cfg], "log": ref["log"]})
            continue
        ref = ref["res"]
        if ref["error"] is not None:
            if cfg == "spea2" and ref["error"]["type"] == "IndexError":
                blocked.append("spea2 seed %d: reference run raises IndexError in selSPEA2 (C07 defect: loop variables "
                               "clobber k); family skipped until that fix is in /repo" % e["seed"])
                for fut in [f for _, f in e["rep"]] + list(e["save"].values()) + [f for _, f in e["pool"]] + \
                        [f for f in (e["twice"], e["ckptcont"]) if f is not None] + (list(e["inter"][1:]) if e["inter"] else []):
                    fut.result()
                continue
            run.oracle_violation("uninterrupted run of an ordinary configuration raises", dict(case0, mode="full"),
                                 observed=ref["error"])
            continue
        fam_cov["seeds"] += 1

        def report(kind, what, case, other, where, skip=None):
            g, comp = where
            obs = {"first_difference": {"generation": g, "component": comp}}
            # re-run the failing history keeping the canonical text to show what differs
            spec = dict(other["spec"], keep_text=True)
            spec.pop("out", None)
            again = jobs.submit(spec, hashseed=other.get("hashseed", "0")).result()["res"]
            if again is not None and case.get("which") == "second":
                again = dict(again, boundaries=again.get("boundaries_b", []))
            if again is not None and comp in COMPONENTS:
                tb = bmap(again).get(g)
                rb = bmap(ref).get(g)
                if tb and rb and "text" in tb:
                    obs["diff"] = text_diff(rb["text"][comp], tb["text"][comp])
            final_differs = any(bmap(ref)[ngen]["sha"][c] != bmap(other).get(ngen, {"sha": {}})["sha"].get(c)
                                for c in COMPONENTS[:4]) if other["boundaries"] else True
            obs["final_state_differs"] = final_differs
            obs["replay_history"] = ("cd /verif && VERIF_REPO=%s /venv/bin/python harness/c17_replay.py '%s'"
                                     % (vlib.REPO, json.dumps({k: v for k, v in case.items() if k != "completion_orders"})))
            run.oracle_violation(what, case, observed=obs)

        # (a0) the same process runs the evolution twice with the same seeds, the same toolbox / primitive set / classes
        # and the SAME user-supplied argument objects (initial covariance matrix, centroid, parent, initial population,
        # reference points); each run must equal the fresh-interpreter reference, and the arguments must keep their content
        if e["twice"] is not None:
            r = e["twice"].result()
            case = dict(case0, mode="twice")
            run.note_case(case, True)
            if r["res"] is None or r["res"]["error"] is not None:
                run.oracle_violation("running the evolution twice in one process fails although a single run did not", case,
                                     observed=(r["res"] or {}).get("error") or r["log"])
            else:
                res = r["res"]
                fam_cov["twice"] = fam_cov.get("twice", 0) + 1
                shas = res.get("args_sha", [])
                if len(set(shas)) > 1:
                    run.oracle_violation("a run modifies the argument objects the caller supplied (content fingerprint before / after "
                                         "run 1 / after run 2 differ), so a second run with the same objects starts from other inputs",
                                         case, observed={"args_sha": shas,
                                                         "replay_history": "cd /verif && VERIF_REPO=%s /venv/bin/python harness/c17_replay.py '%s'"
                                                                           % (vlib.REPO, json.dumps(case))})
                d = compare(ref, res)
                if d or len(res["boundaries"]) != ngen + 1:
                    report("twice", "first of two runs in one process differs from the run in a fresh interpreter", dict(case, which="first"),
                           res, d or (ngen, "length"))
                second = dict(res, boundaries=res.get("boundaries_b", []))
                d = compare(ref, second)
                if d or len(second["boundaries"]) != ngen + 1:
                    report("twice", "identically seeded second run in the same process (same argument objects) differs from the first",
                           dict(case, which="second"), second, d or (ngen, "length"))

        if e["ckptcont"] is not None:
            r = e["ckptcont"].result()
            case = dict(case0, mode="checkpoint_every_generation_and_continue", protocols=protocols)
            run.note_case(case, True)
            if r["res"] is None or r["res"]["error"] is not None:
                run.oracle_violation("a run that pickles (and loads back) its checkpoint after every generation fails although the plain run "
                                     "did not", case, observed=(r["res"] or {}).get("error") or r["log"])
            else:
                fam_cov["ckptcont"] = fam_cov.get("ckptcont", 0) + 1
                d = compare(ref, r["res"])
                if d or len(r["res"]["boundaries"]) != ngen + 1:
                    report("ckptcont", "writing (and reading back) a checkpoint after every generation changes the run that continues",
                           case, r["res"], d or (ngen, "length"))
        if e["inter"] is not None:
            seed2, fi, fr2 = e["inter"]
            r, r2 = fi.result(), fr2.result()
            case = dict(case0, mode="interleave", seed2=seed2)
            run.note_case(case, True)
            if r["res"] is None or r["res"]["error"] is not None or r2["res"] is None or r2["res"]["error"] is not None:
                run.oracle_violation("two evolutions interleaved in one process fail although each alone does not", case,
                                     observed=(r["res"] or {}).get("error") or (r2["res"] or {}).get("error") or r["log"])
            else:
                fam_cov["interleaved"] = fam_cov.get("interleaved", 0) + 1
                d = compare(ref, r["res"])
                if d or len(r["res"]["boundaries"]) != ngen + 1:
                    report("interleave", "evolution interleaved with another one in the same process (generator states swapped by the script) "
                           "differs from the same evolution alone", dict(case, which="first"), r["res"], d or (ngen, "length"))
                second = dict(r["res"], boundaries=r["res"].get("boundaries_b", []))
                d = compare(r2["res"], second)
                if d or len(second["boundaries"]) != ngen + 1:
                    g, comp = d or (ngen, "length")
                    run.oracle_violation("second of two interleaved evolutions differs from the same evolution alone in a fresh process",
                                         dict(case, which="second"), observed={"first_difference": {"generation": g, "component": comp}})

        # (a) fresh interpreter again (other hash seed / other allocation history)
        for (var, fut) in e["rep"]:
            r = fut.result()
            case = dict(case0, mode="rerun", **var)
            run.note_case(case, True)
            if r["res"] is None or r["res"]["error"] is not None:
                run.oracle_violation("second run in a fresh interpreter fails although the first did not", case,
                                     observed=(r["res"] or {}).get("error") or r["log"])
                continue
            r["res"]["hashseed"] = var["hashseed"]
            if "type_set_order" in r["res"]:
                type_orders.add(tuple(r["res"]["type_set_order"]))
            d = compare(ref, r["res"])
            fam_cov["fresh_reruns"] += 1
            if d or len(r["res"]["boundaries"]) != ngen + 1:
                report("rerun", "identically seeded run in a fresh interpreter differs", case, r["res"], d or (ngen, "length"))

        # (b) kill after generation k, resume from the pickle in a new process
        resumes = []
        for k, fut in e["save"].items():
            s = fut.result()
            case = dict(case0, mode="save", k=k)
            if s["res"] is None or s["res"]["error"] is not None:
                run.oracle_violation("run up to the checkpoint fails although the uninterrupted run did not", case,
                                     observed=(s["res"] or {}).get("error") or s["log"])
                continue
            d = compare(ref, s["res"])
            if d:
                report("save", "run up to the checkpoint differs from the uninterrupted run", case, s["res"], d)
                continue
            for p in ([protocols[k % len(protocols)]] if e["light"] else protocols):
                msg = s["res"]["unsupported_protocols"].get(str(p))
                casep = dict(case0, mode="resume", k=k, protocol=p)
                if msg is not None:
                    if is_c16_pickle_issue(cfg, p, msg):
                        fam_cov["tolerated_c16"] += 1
                    else:
                        run.note_case(casep, True)
                        run.oracle_violation("checkpoint cannot be pickled", casep, observed=msg)
                    continue
                hs = "0" if rng.random() < 0.5 else str(rng.randrange(1, 2 ** 32 - 1))
                pert = rng.choice([0, 1, 2, 3, 5, 7])
                var = dict(hashseed=hs, perturb=pert)
                resumes.append((dict(casep, **var),
                                jobs.submit(dict(e["base"], mode="resume", k=k, protocol=p, ckpt=e["ck"], perturb=pert),
                                            hashseed=hs), k, p))
        for (case, fut, k, p) in resumes:
            r = fut.result()
            run.note_case(case, True, sample=case if (k == 2 and p == protocols[-1]) else None)
            if r["res"] is None:
                run.broken.append({"kind": "harness_exception", "where": ["c17_families.py resume"], "log": r["log"]})
                continue
            res = r["res"]
            res["hashseed"] = case["hashseed"]
            if "type_set_order" in res:
                type_orders.add(tuple(res["type_set_order"]))
            if res["error"] is not None:
                msg = "%s: %s" % (res["error"]["type"], res["error"]["msg"])
                if res["error"]["at_gen"] == 0 and is_c16_pickle_issue(cfg, p, msg):
                    fam_cov["tolerated_c16"] += 1
                    continue
                run.oracle_violation("resumed run fails although the uninterrupted run did not", case, observed=res["error"])
                continue
            fam_cov["resumes"] += 1
            d = compare(ref, res, skip_stream_at=k)
            if d or len(res["boundaries"]) != ngen + 1 - k:
                report("resume", "killed after generation k and resumed from the pickle: state differs from the uninterrupted run",
                       case, res, d or (ngen, "length"))

        # (b2) chained checkpoints: resume from k1, continue to k2, checkpoint and be killed again, resume from that
        for (k1, k2, p1, p2) in e["chains"]:
            s1 = e["save"].get(k1)
            if s1 is None or s1.result()["res"] is None or s1.result()["res"]["error"] is not None \
                    or str(p1) in s1.result()["res"]["unsupported_protocols"]:
                continue
            case = dict(case0, mode="chain", k=k1, k2=k2, protocol=p1, protocol2=p2)
            run.note_case(case, True)
            hop = "hop_%d_%d_%d_%d.pkl" % (k1, k2, p1, p2)
            r1 = jobs.submit(dict(e["base"], mode="resume", k=k1, protocol=p1, ckpt=e["ck"], stop_k=k2, save_as=hop, protocols=[p2])).result()
            if r1["res"] is None or r1["res"]["error"] is not None or r1["res"].get("unsupported_protocols"):
                run.oracle_violation("resumed run cannot continue to a second checkpoint", case,
                                     observed=(r1["res"] or {}).get("error") or (r1["res"] or {}).get("unsupported_protocols") or r1["log"])
                continue
            d = compare(ref, r1["res"], skip_stream_at=k1)
            if d:
                report("chain", "resumed run differs from the uninterrupted run before its second checkpoint", case, r1["res"], d)
                continue
            r2 = jobs.submit(dict(e["base"], mode="resume", k=k2, protocol=p2, ckpt=e["ck"], ckpt_file=hop)).result()
            if r2["res"] is None or r2["res"]["error"] is not None:
                run.oracle_violation("run resumed from the checkpoint of a resumed run fails", case,
                                     observed=(r2["res"] or {}).get("error") or r2["log"])
                continue
            fam_cov["chains"] = fam_cov.get("chains", 0) + 1
            d = compare(ref, r2["res"], skip_stream_at=k2)
            if d or len(r2["res"]["boundaries"]) != ngen + 1 - k2:
                report("chain", "killed and resumed twice (checkpoint of a resumed run): state differs from the uninterrupted run",
                       case, r2["res"], d or (ngen, "length"))

        # (c) order-preserving parallel maps, completion order scrambled by per-task delays
        for (sched, fut) in e["pool"]:
            r = fut.result()
            case = dict(case0, mode="pool", **sched)
            if r["res"] is None:
                run.broken.append({"kind": "harness_exception", "where": ["c17_families.py pool"], "log": r["log"]})
                continue
            res = r["res"]
            case["completion_orders"] = res.get("orders", [])[:3]
            run.note_case(case, True)
            if res["error"] is not None:
                run.oracle_violation("run with a parallel map fails although the serial run did not", case, observed=res["error"])
                continue
            fam_cov["pool_runs"] += 1
            for o in res.get("orders", []):
                orders_seen.add(tuple(o))
            d = compare(ref, res)
            if d or len(res["boundaries"]) != ngen + 1:
                report("pool", "order-preserving parallel map gives a different evolution than the serial map", case, res,
                       d or (ngen, "length"))
        shutil.rmtree(e["ck"], ignore_errors=True)

    nonid = [o for o in orders_seen if list(o) != sorted(o)]
    run.extra_cov["runtime_part"] = {"families": per_family, "generations": run.scale(5, 7),
                                     "protocols": [0, 1, 2, 3, 4, 5] if thorough else [2, 5],
                                     "corpus": [c.get("what", c["cfg"]) for c in corpus],
                                     "distinct_completion_orders": len(orders_seen),
                                     "completion_orders_not_submission_order": len(nonid),
                                     "subprocesses": jobs.launched, "blocked": blocked,
                                     "iteration_orders_of_the_set_of_gp_type_objects_seen": sorted("/".join(o) for o in type_orders)}
    for b in blocked:
        run.notes.append("BLOCKED " + b)


def main(run):
    run.level = "partial"
    run.rule = ("runtime part: per algorithm family and seed (seeds drawn from VERIF_SEED) one uninterrupted reference run in a "
                "fresh interpreter; re-runs in fresh interpreters with other PYTHONHASHSEED / allocation history; for EVERY "
                "generation k a process that checkpoints after k and is killed (os._exit) and, per pickle protocol, a new "
                "process that resumes; runs with pool maps (1..8 workers, scrambled completion orders). A case = one such "
                "history (family, seed, k, protocol, hash seed, schedule); all are non-trivial (>= 1 generation compared). "
                "model part: DEAP GA on explicit draw lists vs. the Gallina model, every boundary, every k.")
    run.trusted += ["Coq 8.16.1 kernel and vm_compute",
                    "hand-written model coq/Model/C17_Repro.v tied by correspondence on the modelga family only",
                    "CPython pickle / multiprocessing / process isolation; sha256 fingerprints of canonical texts (harness/c17_families.py canon)",
                    "that the eight scripted family set-ups are representative of 'an evolution built from the library's operators and loops'"]
    run.assumptions += ["evaluation functions are deterministic and do not draw from the global generators",
                        "the checkpoint dictionary is {population, generation, halloffame/archive, logbook, strategy or selector-with-memory, "
                        "random.getstate(), numpy.random.get_state()}; toolbox, primitive set and creator classes are rebuilt by the "
                        "resuming script as in doc/tutorials/advanced/checkpoint.rst",
                        "same Python / numpy / BLAS build and thread count in the resuming process"]
    import time
    t0 = time.time()
    run.build_props()
    t1 = time.time()
    jobs = Jobs(run)
    try:
        if os.environ.get("C17_SKIP_RUNTIME") != "1":
            runtime_part(run, jobs)
        t2 = time.time()
        import c17_model
        c17_model.model_part(run, jobs)
        t3 = time.time()
        run.extra_cov["phase_seconds"] = {"build": round(t1 - t0, 1), "runtime_part": round(t2 - t1, 1),
                                          "model_part": round(t3 - t2, 1), "subprocesses": jobs.launched}
    finally:
        jobs.close()
    if run.thorough and not run.broken:
        independent_recheck(run)


def independent_recheck(run):
    """thorough tier: forbidden-construct scan of the C17 sources and coqchk (the independent checker) on the closure
    of Props/C17 and Corr/C17"""
    import re
    srcs = ["Base/C17_Codec.v", "Model/C17_Repro.v", "Proofs/C17_Repro.v", "Props/C17.v", "Corr/C17.v"]
    bad = []
    for f in srcs:
        txt = open(os.path.join(vlib.COQ, f)).read()
        txt = re.sub(r"\(\*.*?\*\)", "", txt, flags=re.S)
        for m in re.finditer(r"\b(Axiom|Parameter|Conjecture|Admitted|admit|Unset Guard Checking|native_compute)\b", txt):
            bad.append("%s: %s" % (f, m.group(1)))
    if bad:
        run.broken.append({"kind": "obligation_broken", "where": bad, "log": "forbidden construct"})
    p = subprocess.run(["timeout", "1800", "coqchk", "-silent", "-o", "-Q", vlib.COQ, "DV", "DV.Props.C17", "DV.Corr.C17"],
                       stdout=subprocess.PIPE, stderr=subprocess.STDOUT, text=True)
    out = p.stdout
    m = re.search(r"\* Axioms:(.*?)\n\s*\n", out, re.S)
    run.extra_cov["coqchk"] = {"rc": p.returncode, "axioms": (m.group(1).strip() if m else None)}
    if p.returncode != 0 and re.search(r"Error|Fatal|Anomaly", out):
        run.broken.append({"kind": "obligation_broken", "where": ["coqchk DV.Props.C17"], "log": out[-2000:]})
    elif p.returncode != 0:
        run.notes.append("coqchk did not complete (killed / timed out without an error); not a verdict")
    elif m and m.group(1).strip() != "<none>":
        run.notes.append("coqchk reports axioms: %s" % m.group(1).strip())
