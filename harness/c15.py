"""C15 — hypervolume: rebuilt C extension, pyhv fallback, indicator / benchmarks wrappers."""
import importlib
import importlib.util
import itertools
import math
import os
import shutil
import subprocess
import sysconfig
import warnings
from fractions import Fraction

import numpy

import vlib
from vlib import cq, cbool, clist, cnat, copt

F0 = Fraction(0)


# ----------------------------------------------------------------------------
# independent statement of the property: measure of a union of boxes [p, ref)
# ----------------------------------------------------------------------------
def measure_ie(pts, ref):
    """Inclusion-exclusion: |U B_p| = sum over non-empty S of (-1)^(|S|+1) |cap_{p in S} B_p|,
    the intersection being the box of the coordinate-wise maximum.  Exact (Fractions)."""
    d = len(ref)
    pts = [tuple(p) for p in pts if all(p[i] < ref[i] for i in range(d))]   # empty boxes have measure 0
    pts = sorted(set(pts))
    # drop dominated points (their boxes are inside another box) to keep 2^n small
    keep = [p for p in pts if not any(q != p and all(q[i] <= p[i] for i in range(d)) for q in pts)]
    total = F0

    def rec(i, corner, sign):
        nonlocal total
        for j in range(i, len(keep)):
            c = tuple(max(a, b) for a, b in zip(corner, keep[j])) if corner is not None else keep[j]
            vol = Fraction(1)
            for k in range(d):
                vol *= ref[k] - c[k]
            total += sign * vol
            rec(j + 1, c, -sign)

    rec(0, None, 1)
    return total


def measure_grid(pts, ref, limit=200000):
    """Sum of the volumes of the covered cells of the coordinate grid (None when the grid is too big)."""
    d = len(ref)
    axes = []
    ncell = 1
    for i in range(d):
        ax = sorted(set(p[i] for p in pts if p[i] < ref[i])) + [ref[i]]
        axes.append(ax)
        ncell *= max(len(ax) - 1, 0)
        if ncell > limit:
            return None
    total = F0
    for idx in itertools.product(*[range(len(ax) - 1) for ax in axes]):
        lo = [axes[i][idx[i]] for i in range(d)]
        if any(all(p[i] <= lo[i] for i in range(d)) for p in pts):
            vol = Fraction(1)
            for i in range(d):
                vol *= axes[i][idx[i] + 1] - axes[i][idx[i]]
            total += vol
    return total


# ----------------------------------------------------------------------------
# rebuild the extension from the working tree
# ----------------------------------------------------------------------------
def build_extension(run):
    src = os.path.join(vlib.REPO, "deap", "tools", "_hypervolume")
    out = os.path.join(vlib.BUILD, "hvext_%d" % os.getpid())
    os.makedirs(out, exist_ok=True)
    inc = sysconfig.get_paths()["include"]
    cmds = [
        ["gcc", "-O2", "-fPIC", "-fwrapv", "-c", os.path.join(src, "_hv.c"), "-o", os.path.join(out, "_hv.o"), "-I", src],
        ["g++", "-O2", "-fPIC", "-fwrapv", "-c", os.path.join(src, "hv.cpp"), "-o", os.path.join(out, "hvmod.o"), "-I", src, "-I", inc],
        ["g++", "-shared", os.path.join(out, "_hv.o"), os.path.join(out, "hvmod.o"), "-o", os.path.join(out, "hv.so")],
    ]
    for c in cmds:
        p = subprocess.run(["timeout", "300"] + c, stdout=subprocess.PIPE, stderr=subprocess.STDOUT, text=True)
        if p.returncode != 0:
            run.broken.append({"kind": "extension_build_failed", "where": [" ".join(c[:6])], "log": p.stdout[-3000:]})
            return None, out
    spec = importlib.util.spec_from_file_location("hv", os.path.join(out, "hv.so"))
    mod = importlib.util.module_from_spec(spec)
    spec.loader.exec_module(mod)
    return mod, out


class Recorder:
    """Stands in for the `hv` module attribute of a wrapper module; records what the back-end returned."""

    def __init__(self, real):
        self.real = real
        self.log = []

    def hypervolume(self, pts, ref):
        v = self.real.hypervolume(pts, ref)
        self.log.append(v)
        return v


def exact(x):
    """float -> Fraction, None if not finite."""
    x = float(x)
    if math.isnan(x) or math.isinf(x):
        return None
    return Fraction(x)


def cql(l):
    return clist([cq(x) for x in l])


def cpts(pts):
    return clist([cql(p) for p in pts])


def fl(p):
    return [float(x) for x in p]


# ----------------------------------------------------------------------------
def main(run):
    from deap import base
    run.rule = ("point sets of 1..12 points in 1..7 dimensions on integer / dyadic grids: general position, tie-heavy "
                "grids, duplicates, dominated points, points on the reference boundary, negative coordinates, reference "
                "at the origin; exhaustive {0,1,2}^d scopes for small d,n; every permutation of sets of <= 4 (quick) / 5 "
                "(thorough) points, random shuffles above; each set is given to the C extension rebuilt from the working "
                "tree, to pyhv.hypervolume and (as a population) to benchmarks.tools.hypervolume / "
                "tools.indicator.hypervolume with both back-ends. Distinct = distinct (ordered) input; non-trivial = "
                "at least two points with a non-empty box.")
    run.trusted += ["Coq 8.16.1 kernel and vm_compute",
                    "hand-written model coq/Model/C15_HV.v (HSO recursion, grid measure, wrappers) tied by correspondence "
                    "(harness/c15.py); the dimension-sweep algorithms of _hv.c / pyhv.py are not modelled, only their "
                    "input/output behaviour is compared with the model",
                    "reading 'Lebesgue measure of a finite union of boxes' as the finite sum over grid cells "
                    "(grid_measure); finite additivity of the measure on disjoint boxes is not formalised (no measure "
                    "theory library installed)",
                    "gcc/g++ and the CPython C-API glue used to rebuild the extension on every run",
                    "numpy array arithmetic, numpy.max, numpy.argmax (first maximum), numpy.concatenate",
                    "inputs restricted to integers / short dyadics so that every double operation is exact"]
    run.assumptions += ["coordinates finite (no NaN/inf)", "every point weakly dominates the reference point (p_i <= ref_i)",
                        "all points have the dimension of the reference point", "weights non-zero"]
    run.build_props()
    rng = run.rng
    warnings.simplefilter("ignore")

    hvc, extdir = build_extension(run)
    try:
        _main(run, rng, base, hvc)
    finally:
        shutil.rmtree(extdir, ignore_errors=True)


def _main(run, rng, base, hvc):
    pyhv = importlib.import_module("deap.tools._hypervolume.pyhv")
    indmod = importlib.import_module("deap.tools.indicator")
    benchmod = importlib.import_module("deap.benchmarks.tools")
    backends = []
    if hvc is not None:
        backends.append(("c-extension(rebuilt)", hvc))
    backends.append(("pyhv", pyhv))

    terms, cases = [], []

    def add(term, case, nontrivial=True):
        terms.append(term)
        cases.append(case)
        run.note_case(case, nontrivial, sample=case if len(cases) % 211 == 1 else None)

    def call_hv(name, mod, pts, ref, aslist):
        """pts/ref: Fractions. Returns Fraction or a string describing the failure."""
        try:
            if aslist and name != "pyhv":
                v = mod.hypervolume([fl(p) for p in pts], fl(ref))
            elif aslist and not any(ref):
                # pyhv subtracts the reference in place only when it is not the origin; plain lists work then
                v = mod.hypervolume([fl(p) for p in pts], fl(ref))
            else:
                v = mod.hypervolume(numpy.array([fl(p) for p in pts], dtype=float).reshape(len(pts), len(ref)),
                                    numpy.array(fl(ref), dtype=float))
        except Exception as e:  # noqa
            return "raised %s: %s" % (type(e).__name__, str(e)[:200])
        x = exact(v)
        return x if x is not None else "returned %r" % (v,)

    grid_budget = [run.scale(600, 6000)]

    def hv_case(pts, ref, tag, expected=None):
        """One ordered point list: run every back-end, oracle, Coq term."""
        d = len(ref)
        if expected is None:
            expected = measure_ie(pts, ref)
        aslist = rng.random() < 0.3
        obs = []
        case = {"kind": "hv", "tag": tag, "points": [[str(x) for x in p] for p in pts], "ref": [str(x) for x in ref],
                "expected": str(expected)}
        for name, mod in backends:
            v = call_hv(name, mod, pts, ref, aslist)
            case[name] = str(v)
            if isinstance(v, str) or v != expected:
                run.oracle_violation("%s.hypervolume(points, ref) is not the measure of the union of the boxes "
                                     "[p, ref)" % name, dict(case), observed=str(v))
            if not isinstance(v, str):
                obs.append(v)
        ncell = 1
        for i in range(d):
            ncell *= max(1, len(set(p[i] for p in pts)))
        grid = ncell <= 400 and grid_budget[0] > 0
        if grid:
            grid_budget[0] -= 1
        nboxes = sum(1 for p in pts if all(p[i] < ref[i] for i in range(d)))
        add("CHv %s %s %s %s" % (cql(ref), cpts(pts), cbool(grid), cql(obs)), case, nboxes >= 2)
        return expected

    def hv_set(pts, ref, tag, maxperm):
        """A point set: the given order, then all permutations (<= maxperm points) or two shuffles."""
        expected = measure_ie(pts, ref)
        g = measure_grid(pts, ref, limit=3000)
        if g is not None and g != expected:
            raise RuntimeError("harness self-check: inclusion-exclusion %s != grid sum %s on %r %r" % (expected, g, pts, ref))
        n = len(pts)
        hv_case(pts, ref, tag, expected)
        if n <= 1:
            return
        if n <= maxperm:
            seen = {tuple(map(tuple, pts))}
            for perm in itertools.permutations(range(n)):
                q = [pts[i] for i in perm]
                k = tuple(map(tuple, q))
                if k in seen:
                    continue
                seen.add(k)
                hv_case(q, ref, tag + "/perm", expected)
        else:
            for _ in range(2):
                q = list(pts)
                rng.shuffle(q)
                hv_case(q, ref, tag + "/shuffle", expected)

    def transform(pts, ref):
        """Exact affine change of coordinates: dyadic scaling per axis and translation (sometimes to ref = origin)."""
        d = len(ref)
        mode = rng.random()
        sc = [Fraction(1, rng.choice([1, 1, 2, 4])) for _ in range(d)]
        if mode < 0.25:
            sh = [-(r * s) for r, s in zip(ref, sc)]          # reference at the origin
        elif mode < 0.6:
            sh = [Fraction(rng.randint(-6, 3)) for _ in range(d)]
        else:
            sh = [F0] * d
        pts = [[p[i] * sc[i] + sh[i] for i in range(d)] for p in pts]
        ref = [ref[i] * sc[i] + sh[i] for i in range(d)]
        return pts, ref

    def gen_set(d, n, style):
        """Integer point set and reference (every point <= ref), then decorated with duplicates / dominated /
        boundary points."""
        if style == "general":
            cols = [rng.sample(range(0, 3 * n + 2), n) for _ in range(d)]
            pts = [[Fraction(cols[i][j]) for i in range(d)] for j in range(n)]
        elif style == "front":
            # mutually non-dominated-ish: random permutations per axis
            cols = [rng.sample(range(n), n) for _ in range(d)]
            pts = [[Fraction(cols[i][j]) for i in range(d)] for j in range(n)]
        else:
            k = rng.choice([1, 1, 2, 2, 3, 5])
            pts = [[Fraction(rng.randint(0, k)) for _ in range(d)] for _ in range(n)]
        for j in range(n):
            u = rng.random()
            if j > 0 and u < 0.08:
                pts[j] = list(pts[rng.randrange(j)])                                  # duplicate
            elif j > 0 and u < 0.2:
                b = pts[rng.randrange(j)]
                pts[j] = [b[i] + rng.choice([0, 0, 1, 2]) for i in range(d)]          # weakly dominated
        slack = rng.choice([0, 0, 1, 1, 2, 3])
        ref = [max(p[i] for p in pts) + (slack if rng.random() < 0.8 else rng.choice([0, 1])) for i in range(d)]
        for j in range(n):
            if rng.random() < 0.1:
                i = rng.randrange(d)
                pts[j][i] = ref[i]                                                    # on the reference boundary
        if rng.random() < 0.03:
            pts[rng.randrange(n)] = list(ref)                                         # the reference point itself
        return pts, ref

    maxperm = run.scale(4, 5)

    # ---- corpus: the inputs on which pyhv was wrong before the repair (see known_findings/C15.json "fixed") ----
    corpus = [
        ([[0, 1, 0, 1], [0, 0, 2, 1], [0, 1, 0, 0]], [1, 3, 3, 3]),
        ([[0, 1, 0, 1], [0, 1, 0, 0], [0, 0, 1, 1]], [1, 3, 2, 2]),
        ([[2, 0, 1, 1, 0, 1], [2, 0, 1, 0, 0, 1], [1, 1, 1, 1, 1, 1]], [2, 2, 2, 2, 2, 2]),
        ([[1, 0, 0, 2, 0, 0], [1, 0, 0, 2, 0, 0], [0, 3, 1, 1, 0, 0]], [3, 3, 2, 2, 2, 3]),
        ([[0, 1, 2, 1, 0, 1, 0], [1, 1, 0, 0, 1, 2, 0], [1, 1, 1, 2, 1, 1, 1]], [2, 2, 2, 2, 2, 2, 2]),
        ([[3, 1, 4, 3, 3, 1], [2, 0, 3, 2, 3, 1], [4, 2, 3, 1, 3, 0]], [4, 2, 4, 3, 4, 2]),
        ([[1, 0, 2, 1], [1, 0, 2, 0], [0, 3, 1, 3]], [3, 3, 3, 4]),
    ]
    for pts, ref in corpus:
        hv_set([[Fraction(x) for x in p] for p in pts], [Fraction(x) for x in ref], "corpus", 5)

    # ---- exhaustive small scopes: all point lists over {0,1,2}^d, reference (2,..,2) and (3,..,3) ----
    for d, n in run.scale([(1, 3), (2, 2), (3, 2)], [(1, 3), (2, 3), (3, 2), (4, 2)]):
        allp = list(itertools.product([0, 1, 2], repeat=d))
        for combo in itertools.product(allp, repeat=n):
            pts = [[Fraction(x) for x in p] for p in combo]
            r = 2 + (sum(map(sum, combo)) % 2)
            hv_case(pts, [Fraction(r)] * d, "exhaustive")

    # ---- random structured sets ----
    nsets = run.scale(420, 5000)
    for it in range(nsets):
        d = rng.randint(1, 7)
        big = rng.random() < 0.25
        n = rng.randint(6, 12) if big else rng.randint(1, 6)
        style = rng.choice(["general", "front", "ties", "ties", "ties"])
        pts, ref = gen_set(d, n, style)
        pts, ref = transform(pts, ref)
        hv_set(pts, ref, style, maxperm)
    # a few sets of maximal size in every dimension
    for d in range(1, 8):
        for style in ("front", "ties"):
            pts, ref = gen_set(d, 12, style)
            hv_set(pts, ref, style + "/max", maxperm)

    run.correspond("hv", "C15", terms, cases)

    # ---- populations: benchmarks.tools.hypervolume and tools.indicator.hypervolume ----
    terms2, cases2 = [], []
    fitcls = {}

    class Ind(list):
        pass

    def population(w, vals):
        key = tuple(w)
        if key not in fitcls:
            fitcls[key] = type("FitC15_%d" % len(fitcls), (base.Fitness,), {"weights": tuple(float(x) for x in w)})
        pop = []
        for v in vals:
            ind = Ind(fl(v))
            ind.fitness = fitcls[key]()
            ind.fitness.values = tuple(fl(v))
            pop.append(ind)
        return pop

    def pop_case(w, vals, refo):
        nobj = len(w)
        P = [[-(x * wi) for x, wi in zip(v, w)] for v in vals]
        ref = refo if refo is not None else [max(p[i] for p in P) + 1 for i in range(nobj)]
        total = measure_ie(P, ref)
        loo = [measure_ie(P[:i] + P[i + 1:], ref) for i in range(len(P))]
        losses = [total - x for x in loo]
        case = {"kind": "population", "weights": [str(x) for x in w], "values": [[str(x) for x in v] for v in vals],
                "ref": None if refo is None else [str(x) for x in refo], "expected_hv": str(total),
                "expected_losses": [str(x) for x in losses]}
        obs_hv, obs_idx, obs_contrib = [], [], []
        for name, mod in backends:
            pop = population(w, vals)
            kw = {}
            if refo is not None:
                kw["ref"] = numpy.array(fl(refo)) if rng.random() < 0.7 else fl(refo)
            # benchmarks.tools.hypervolume
            old = benchmod.hv
            benchmod.hv = Recorder(mod)
            try:
                try:
                    v = benchmod.hypervolume(pop, kw.get("ref")) if refo is not None else benchmod.hypervolume(pop)
                    x = exact(v)
                    v = x if x is not None else "returned %r" % (v,)
                except Exception as e:  # noqa
                    v = "raised %s: %s" % (type(e).__name__, str(e)[:200])
            finally:
                benchmod.hv = old
            case["benchmarks.tools.hypervolume[%s]" % name] = str(v)
            if isinstance(v, str) or v != total:
                run.oracle_violation("benchmarks.tools.hypervolume (back-end %s) is not the measure of the union of the boxes "
                                     "of the negated weighted objectives" % name, dict(case), observed=str(v))
            if not isinstance(v, str):
                obs_hv.append(v)
            # tools.indicator.hypervolume
            old = indmod.hv
            rec = Recorder(mod)
            indmod.hv = rec
            try:
                try:
                    i = indmod.hypervolume(pop, **kw)
                    i = int(i)
                except Exception as e:  # noqa
                    i = "raised %s: %s" % (type(e).__name__, str(e)[:200])
            finally:
                indmod.hv = old
            case["tools.indicator.hypervolume[%s]" % name] = str(i)
            if isinstance(i, str) or not (0 <= i < len(vals)) or losses[i] != min(losses):
                run.oracle_violation("tools.indicator.hypervolume (back-end %s) does not return the index of an individual "
                                     "whose removal reduces the hypervolume the least" % name, dict(case), observed=str(i))
            if not isinstance(i, str) and i >= 0:
                obs_idx.append(i)
                contrib = [exact(x) for x in rec.log]
                if len(contrib) == len(vals) and all(c is not None for c in contrib):
                    obs_contrib.append(contrib)
        distinct_losses = len(set(losses)) > 1
        t1 = "CPop %s %s %s %s" % (cql(w), cpts(vals), copt(refo, cql), cql(obs_hv))
        t2 = "CInd %s %s %s %s %s" % (cql(w), cpts(vals), copt(refo, cql), clist([cnat(i) for i in obs_idx]),
                                      clist([cql(c) for c in obs_contrib]))
        terms2.append(t1)
        cases2.append(case)
        terms2.append(t2)
        cases2.append(case)
        run.note_case(case, distinct_losses, sample=case if len(cases2) % 150 == 2 else None)

    npop = run.scale(350, 4000)
    for it in range(npop):
        nobj = rng.randint(2, 4)
        n = rng.randint(2, 4) if rng.random() < 0.5 else rng.randint(5, 9)
        wkind = rng.random()
        if wkind < 0.6:
            w = [Fraction(rng.choice([1, -1])) for _ in range(nobj)]
        else:
            w = [Fraction(rng.choice([1, -1])) * rng.choice([Fraction(1), Fraction(2), Fraction(1, 2), Fraction(3)]) for _ in range(nobj)]
        style = rng.random()
        if style < 0.4:
            cols = [rng.sample(range(n + 2), n) for _ in range(nobj)]
            vals = [[Fraction(cols[i][j]) for i in range(nobj)] for j in range(n)]
        else:
            k = rng.choice([1, 2, 3, 6])
            vals = [[Fraction(rng.randint(-k, k)) / rng.choice([1, 1, 2]) for _ in range(nobj)] for _ in range(n)]
        if rng.random() < 0.15:
            vals[rng.randrange(n)] = list(vals[rng.randrange(n)])
        u = rng.random()
        if u < 0.6:
            refo = None
        else:
            P = [[-(x * wi) for x, wi in zip(v, w)] for v in vals]
            refo = [max(p[i] for p in P) + rng.choice([0, 1, 1, 2, Fraction(1, 2)]) for i in range(nobj)]
        pop_case(w, vals, refo)

    run.correspond("pop", "C15", terms2, cases2)
