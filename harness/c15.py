"""C15 — hypervolume: rebuilt C extension, pyhv fallback, indicator / benchmarks wrappers."""
import itertools
import json
import math
import os
import shutil
import subprocess
import sys
import sysconfig
import time
from fractions import Fraction

import vlib
from vlib import cq, cbool, clist, cnat, copt

F0 = Fraction(0)


# ----------------------------------------------------------------------------
# independent statement of the property: measure of a union of boxes [p, ref)
# ----------------------------------------------------------------------------
def to_ints(pts, ref):
    """Scale rationals to integers by the common denominator L (exact)."""
    L = 1
    for x in list(ref) + [c for p in pts for c in p]:
        dn = x.denominator
        if dn != 1:
            L = L * dn // math.gcd(L, dn)
    if L == 1:
        return [tuple(int(c) for c in p) for p in pts], [int(x) for x in ref], 1
    return [tuple(int(c * L) for c in p) for p in pts], [int(x * L) for x in ref], L


def measure_ie(pts, ref):
    """Inclusion-exclusion: |U B_p| = sum over non-empty S of (-1)^(|S|+1) |cap_{p in S} B_p|,
    the intersection being the box of the coordinate-wise maximum.  Exact: coordinates are scaled to integers."""
    d = len(ref)
    ipts, iref, L = to_ints(pts, ref)
    rng_d = range(d)
    ipts = sorted(p for p in set(ipts) if all(p[i] < iref[i] for i in rng_d))     # empty boxes have measure 0
    # drop dominated points (their boxes are inside another box) to keep 2^n small
    keep = [p for p in ipts if not any(q != p and all(q[i] <= p[i] for i in rng_d) for q in ipts)]
    total = 0

    def rec(i, corner, sign):
        nonlocal total
        for j in range(i, len(keep)):
            kj = keep[j]
            c = [a if a > b else b for a, b in zip(corner, kj)]
            vol = 1
            for k in rng_d:
                vol *= iref[k] - c[k]
            total += sign * vol
            rec(j + 1, c, -sign)

    for j in range(len(keep)):
        vol = 1
        for k in rng_d:
            vol *= iref[k] - keep[j][k]
        total += vol
        rec(j + 1, list(keep[j]), -1)
    return Fraction(total, L ** d)


def measure_grid(pts, ref, limit=200000):
    """Sum of the volumes of the covered cells of the coordinate grid (None when the grid is too big)."""
    d = len(ref)
    ipts, iref, L = to_ints(pts, ref)
    axes = []
    ncell = 1
    for i in range(d):
        ax = sorted(set(p[i] for p in ipts if p[i] < iref[i])) + [iref[i]]
        axes.append(ax)
        ncell *= max(len(ax) - 1, 0)
        if ncell > limit:
            return None
    total = 0
    rng_d = range(d)
    for idx in itertools.product(*[range(len(ax) - 1) for ax in axes]):
        lo = [axes[i][idx[i]] for i in rng_d]
        for p in ipts:
            if all(p[i] <= lo[i] for i in rng_d):
                vol = 1
                for i in rng_d:
                    vol *= axes[i][idx[i] + 1] - lo[i]
                total += vol
                break
    return Fraction(total, L ** d)


# ----------------------------------------------------------------------------
# rebuild the extension from the working tree
# ----------------------------------------------------------------------------
def build_extension(run):
    """Compile _hv.c + hv.cpp of $VERIF_REPO (the Extension of /repo/setup.py) into build/hvext_<pid>/hv.so.
    The module is only ever loaded by the worker process."""
    src = os.path.join(vlib.REPO, "deap", "tools", "_hypervolume")
    out = os.path.join(vlib.BUILD, "hvext_%d" % os.getpid())
    os.makedirs(out, exist_ok=True)
    inc = sysconfig.get_paths()["include"]
    cmds = [
        ["gcc", "-O2", "-fPIC", "-fwrapv", "-c", os.path.join(src, "_hv.c"), "-o", os.path.join(out, "_hv.o"), "-I", src],
        ["g++", "-O2", "-fPIC", "-fwrapv", "-c", os.path.join(src, "hv.cpp"), "-o", os.path.join(out, "hvmod.o"), "-I", src, "-I", inc],
        ["g++", "-shared", os.path.join(out, "_hv.o"), os.path.join(out, "hvmod.o"), "-o", os.path.join(out, "hv.so")],
    ]
    for c in cmds:
        p = subprocess.run(["timeout", "300"] + c, stdout=subprocess.PIPE, stderr=subprocess.STDOUT, text=True)
        if p.returncode != 0:
            run.broken.append({"kind": "extension_build_failed", "where": [" ".join(c[:6])], "log": p.stdout[-3000:]})
            return None, out
    return os.path.join(out, "hv.so"), out


HANG_SECONDS = 60
NAMES = {"c": "c-extension(rebuilt)", "py": "pyhv"}


def run_worker(run, jobs, so_path, state):
    """Run the jobs in worker processes; returns (results, crashes). A worker that dies or hangs inside a back-end
    call is restarted after that call has been marked 'skip'; the call is reported as a crash."""
    n = len(jobs)
    results = [None] * n
    crashes = []
    start, restarts, nbad = 0, 0, state["nbad"]
    for be, cnt in nbad.items():
        if cnt >= 10:          # disabled in an earlier chunk
            for j in jobs:
                j["job"].setdefault("skip", []).append(be)
    worker = os.path.join(os.path.dirname(os.path.abspath(__file__)), "c15_worker.py")
    env = dict(os.environ)
    env["VERIF_REPO"] = vlib.REPO
    env["PYTHONPATH"] = vlib.REPO
    while start < n:
        jp = os.path.join(run.rundir, "jobs_%d.jsonl" % restarts)
        op = os.path.join(run.rundir, "out_%d.jsonl" % restarts)
        ep = os.path.join(run.rundir, "err_%d.txt" % restarts)
        with open(jp, "w") as f:
            for j in jobs[start:]:
                f.write(json.dumps(j["job"]) + "\n")
        if os.path.exists(op):
            os.remove(op)
        with open(ep, "w") as ef:
            p = subprocess.Popen([sys.executable, worker, jp, op, so_path or "-"], env=env,
                                 stdout=subprocess.DEVNULL, stderr=ef)
            last_size, last_change, hung = -1, time.time(), False
            while True:
                rc = p.poll()
                size = os.path.getsize(op) if os.path.exists(op) else 0
                if size != last_size:
                    last_size, last_change = size, time.time()
                if rc is not None:
                    break
                if time.time() - last_change > (HANG_SECONDS if size > 0 else 5 * HANG_SECONDS):
                    p.kill()
                    p.wait()
                    hung = True
                    rc = p.returncode
                    break
                time.sleep(0.05)
        done, marker = 0, None
        if os.path.exists(op):
            for line in open(op):
                if not line.endswith("\n"):
                    break
                if line.startswith("#"):
                    try:
                        a, b = line[1:].split()
                        marker = (int(a), b)
                    except ValueError:
                        pass
                    continue
                try:
                    idx, res = json.loads(line)
                except ValueError:
                    break
                results[start + idx] = res
                done = idx + 1
        for f in (jp, op):
            try:
                os.remove(f)
            except OSError:
                pass
        if done == n - start:
            if rc != 0:
                run.notes.append("worker finished every job but exited with status %s" % rc)
            try:
                os.remove(ep)
            except OSError:
                pass
            break
        errtxt = open(ep).read()[-2000:] if os.path.exists(ep) else ""
        if marker is None or marker[0] != done:
            run.broken.append({"kind": "worker_failed", "where": ["harness/c15_worker.py"],
                               "log": "worker exit status %s after %d jobs, outside a back-end call\n%s" % (rc, done, errtxt)})
            break
        how = ("did not return within %d s" % HANG_SECONDS) if hung else "killed the interpreter (exit status %s)" % rc
        crashes.append((start + marker[0], marker[1], how))
        jobs[start + marker[0]]["job"].setdefault("skip", []).append(marker[1])
        start += marker[0]
        restarts += 1
        nbad[marker[1]] = nbad.get(marker[1], 0) + (5 if hung else 1)
        if nbad[marker[1]] >= 10:
            # two hangs or ten crashes of one back-end: stop calling it (the failing inputs found so far are reported)
            for j in jobs[start:]:
                j["job"].setdefault("skip", []).append(marker[1])
            run.notes.append("back-end %s not called on the jobs after #%d: it %s repeatedly" % (marker[1], start, how))
    return results, crashes


def cql(l):
    return clist([cq(x) for x in l])


def cpts(pts):
    return clist([cql(p) for p in pts])


def fl(p):
    return [float(x) for x in p]


def sfr(l):
    return [str(x) for x in l]


# ----------------------------------------------------------------------------
def main(run):
    run.rule = ("point sets of 1..12 points in 1..7 dimensions on integer / dyadic grids: general position, tie-heavy "
                "grids, duplicates, dominated points, points on the reference boundary, negative coordinates, reference "
                "at the origin; exhaustive {0,1,2}^d scopes for small d,n; every permutation of sets of <= 4 (quick) / 5 "
                "(thorough) points, random shuffles above; each ordered list is given to the C extension rebuilt from the "
                "working tree, to pyhv.hypervolume and (as a population of 2..9 individuals, 2..4 objectives, any weight "
                "signs) to benchmarks.tools.hypervolume / tools.indicator.hypervolume with both back-ends; all of these are "
                "also evaluated by the Coq model. A further 'stress' set of tie-heavy lists in 4..7 dimensions is compared "
                "with the inclusion-exclusion measure only (every 25th also by the model). Distinct = distinct ordered "
                "input; non-trivial = at least two points with a non-empty box / at least two different losses.")
    run.trusted += ["Coq 8.16.1 kernel and vm_compute",
                    "hand-written model coq/Model/C15_HV.v (HSO recursion, grid measure, wrappers) tied by correspondence "
                    "(harness/c15.py); the dimension-sweep algorithms of _hv.c / pyhv.py are not modelled, only their "
                    "input/output behaviour is compared with the model",
                    "reading 'Lebesgue measure of a finite union of boxes' as the finite sum over grid cells "
                    "(grid_measure, justified by C15_cell_homogeneous); finite additivity of the measure on disjoint boxes "
                    "is not formalised (no measure theory library installed)",
                    "gcc/g++ and the CPython C-API glue used to rebuild the extension on every run",
                    "numpy array arithmetic, numpy.max, numpy.argmax (first maximum), numpy.concatenate",
                    "inputs restricted to integers / short dyadics so that every double operation is exact"]
    run.assumptions += ["coordinates finite (no NaN/inf)", "every point weakly dominates the reference point (p_i <= ref_i)",
                        "all points have the dimension of the reference point", "weights non-zero"]
    run.build_props()
    so_path, extdir = build_extension(run)
    try:
        _main(run, run.rng, so_path)
    finally:
        shutil.rmtree(extdir, ignore_errors=True)
        if not run.disagreements and not run.broken:
            shutil.rmtree(run.rundir, ignore_errors=True)     # hidden .aux files of the shards etc.


def _main(run, rng, so_path):
    backends = (["c"] if so_path else []) + ["py"]
    jobs = []          # {"job": what the worker gets, + bookkeeping}
    state = {"grid_budget": run.scale(800, 8000), "nstress": 0, "ncrash": 0, "nbad": {}}
    CHUNK = 25000

    def flush():
        if not jobs:
            return
        # ------------------------------------------------------------------ run the implementations
        results, crashes = run_worker(run, jobs, so_path, state)
        crashed = {}
        for idx, be, how in crashes:
            crashed[(idx, be)] = how

        # ------------------------------------------------------------------ oracle + Coq terms
        terms, cases = [], []
        terms2, cases2 = [], []
        for idx, j in enumerate(jobs):
            res = results[idx]
            if j["job"]["k"] == "hv":
                pts, ref, expected = j["pts"], j["ref"], j["expected"]
                d = len(ref)
                case = {"kind": "hv", "tag": j["tag"], "points": [sfr(p) for p in pts], "ref": sfr(ref), "expected": str(expected),
                        "as_lists": j["job"]["aslist"]}
                obs = []
                for be in backends:
                    name = NAMES[be]
                    if (idx, be) in crashed:
                        case[name] = crashed[(idx, be)]
                        run.oracle_violation("%s.hypervolume(points, ref) %s" % (name, crashed[(idx, be)]), dict(case),
                                             observed=crashed[(idx, be)])
                        continue
                    if res is None or be not in res:
                        continue            # not run (worker failure recorded in run.broken)
                    r = res[be]
                    v = Fraction(r[1]) if r[0] == "ok" else r[1]
                    case[name] = str(v)
                    if r[0] != "ok" or v != expected:
                        run.oracle_violation("%s.hypervolume(points, ref) is not the measure of the union of the boxes "
                                             "[p, ref)" % name, dict(case), observed=str(v))
                    if r[0] == "ok":
                        obs.append(v)
                nboxes = sum(1 for p in pts if all(p[i] < ref[i] for i in range(d)))
                if j["stress"]:
                    state["nstress"] += 1
                    run.note_case(case, nboxes >= 2, sample=case if state["nstress"] == 7 else None)
                    if not j["coq"]:
                        continue
                ncell = 1
                for i in range(d):
                    ncell *= max(1, len(set(p[i] for p in pts)))
                grid = ncell <= 400 and state["grid_budget"] > 0
                if grid:
                    state["grid_budget"] -= 1
                terms.append("CHv %s %s %s %s" % (cql(ref), cpts(pts), cbool(grid), cql(obs)))
                cases.append(case)
                if d <= 2:
                    # the transcribed one-/two-objective code paths, each against its own implementation
                    byname = {}
                    for be in backends:
                        r = None if res is None else res.get(be)
                        byname[be] = Fraction(r[1]) if (r is not None and r[0] == "ok") else None
                    terms.append("CLow %s %s %s %s" % (cql(ref), cpts(pts), copt(byname.get("c"), cq), copt(byname.get("py"), cq)))
                    cases.append(case)
                if not j["stress"]:
                    run.note_case(case, nboxes >= 2, sample=case if run.evaluations % 211 == 1 else None)
            else:
                w, vals, refo = j["w"], j["vals"], j["refo"]
                nobj = len(w)
                P = [[-(x * wi) for x, wi in zip(v, w)] for v in vals]
                ref = refo if refo is not None else [max(p[i] for p in P) + 1 for i in range(nobj)]
                total = measure_ie(P, ref)
                loo = [measure_ie(P[:i] + P[i + 1:], ref) for i in range(len(P))]
                losses = [total - x for x in loo]
                case = {"kind": "population", "weights": sfr(w), "values": [sfr(v) for v in vals],
                        "ref": None if refo is None else sfr(refo), "ref_as_array": j["job"]["refarr"],
                        "expected_hv": str(total), "expected_losses": sfr(losses)}
                obs_hv, obs_idx, obs_contrib = [], [], []
                for be in backends:
                    name = NAMES[be]
                    if (idx, be) in crashed:
                        case[name] = crashed[(idx, be)]
                        run.oracle_violation("hypervolume wrappers with back-end %s: %s" % (name, crashed[(idx, be)]), dict(case),
                                             observed=crashed[(idx, be)])
                        continue
                    if res is None or be not in res:
                        continue
                    r = res[be]
                    bt = r["bt"]
                    v = Fraction(bt[1]) if bt[0] == "ok" else bt[1]
                    case["benchmarks.tools.hypervolume[%s]" % name] = str(v)
                    if bt[0] != "ok" or v != total:
                        run.oracle_violation("benchmarks.tools.hypervolume (back-end %s) is not the measure of the union of the "
                                             "boxes of the negated weighted objectives (default reference: worst + 1)" % name,
                                             dict(case), observed=str(v))
                    if bt[0] == "ok":
                        obs_hv.append(v)
                    ind = r["ind"]
                    i = ind[1]
                    case["tools.indicator.hypervolume[%s]" % name] = str(i)
                    if ind[0] != "ok" or not (0 <= i < len(vals)) or losses[i] != min(losses):
                        run.oracle_violation("tools.indicator.hypervolume (back-end %s) does not return the index of an "
                                             "individual whose removal reduces the hypervolume the least" % name, dict(case),
                                             observed=str(i))
                    if ind[0] == "ok" and i >= 0:
                        obs_idx.append(i)
                        contrib = r["contrib"]
                        if len(contrib) == len(vals) and all(c[0] == "ok" for c in contrib):
                            obs_contrib.append([Fraction(c[1]) for c in contrib])
                terms2.append("CPop %s %s %s %s" % (cql(w), cpts(vals), copt(refo, cql), cql(obs_hv)))
                cases2.append(case)
                terms2.append("CInd %s %s %s %s %s" % (cql(w), cpts(vals), copt(refo, cql), clist([cnat(i) for i in obs_idx]),
                                                       clist([cql(c) for c in obs_contrib])))
                cases2.append(case)
                run.note_case(case, len(set(losses)) > 1, sample=case if run.evaluations % 150 == 2 else None)

        state["ncrash"] += len(crashes)
        run.extra_cov["implementation_crashes_or_hangs"] = state["ncrash"]
        run.extra_cov["stress_cases_oracle_only"] = state["nstress"]
        run.correspond("hv", "C15", terms, cases, shard=300)
        run.correspond("pop", "C15", terms2, cases2, shard=150)
        del jobs[:]


    # ------------------------------------------------------------------ generation
    def hv_job(pts, ref, tag, expected, stress=False, coq=True):
        jobs.append({"job": {"k": "hv", "pts": [fl(p) for p in pts], "ref": fl(ref), "aslist": rng.random() < 0.3,
                             "backends": backends},
                     "pts": pts, "ref": ref, "tag": tag, "expected": expected, "stress": stress, "coq": coq})

    def hv_set(pts, ref, tag, maxperm, stress=False):
        """A point set: the given order, then all permutations (<= maxperm points) or two shuffles."""
        expected = measure_ie(pts, ref)
        g = measure_grid(pts, ref, limit=400) if (not stress or rng.random() < 0.03) else None
        if g is not None and g != expected:
            raise RuntimeError("harness self-check: inclusion-exclusion %s != grid sum %s on %r %r" % (expected, g, pts, ref))
        n = len(pts)
        if stress:
            q = list(pts)
            rng.shuffle(q)
            hv_job(q, ref, tag, expected, stress=True, coq=(len(jobs) % 25 == 0))
            return
        hv_job(pts, ref, tag, expected)
        if n <= 1:
            return
        if n <= maxperm:
            seen = {tuple(map(tuple, pts))}
            for perm in itertools.permutations(range(n)):
                q = [pts[i] for i in perm]
                k = tuple(map(tuple, q))
                if k in seen:
                    continue
                seen.add(k)
                hv_job(q, ref, tag + "/perm", expected)
        else:
            for _ in range(2):
                q = list(pts)
                rng.shuffle(q)
                hv_job(q, ref, tag + "/shuffle", expected)

    def transform(pts, ref):
        """Exact affine change of coordinates: dyadic scaling per axis and translation (sometimes to ref = origin)."""
        d = len(ref)
        mode = rng.random()
        sc = [Fraction(1, rng.choice([1, 1, 2, 4])) for _ in range(d)]
        if mode < 0.25:
            sh = [-(r * s) for r, s in zip(ref, sc)]          # reference at the origin
        elif mode < 0.6:
            sh = [Fraction(rng.randint(-6, 3)) for _ in range(d)]
        else:
            sh = [F0] * d
        pts = [[p[i] * sc[i] + sh[i] for i in range(d)] for p in pts]
        ref = [ref[i] * sc[i] + sh[i] for i in range(d)]
        return pts, ref

    def gen_set(d, n, style):
        """Integer point set and reference (every point <= ref), decorated with duplicates / dominated / boundary points."""
        if style == "general":
            cols = [rng.sample(range(0, 3 * n + 2), n) for _ in range(d)]
            pts = [[Fraction(cols[i][j]) for i in range(d)] for j in range(n)]
        elif style == "front":
            cols = [rng.sample(range(n), n) for _ in range(d)]
            pts = [[Fraction(cols[i][j]) for i in range(d)] for j in range(n)]
        else:
            k = rng.choice([1, 1, 2, 2, 3, 5])
            pts = [[Fraction(rng.randint(0, k)) for _ in range(d)] for _ in range(n)]
        for j in range(n):
            u = rng.random()
            if j > 0 and u < 0.08:
                pts[j] = list(pts[rng.randrange(j)])                                  # duplicate
            elif j > 0 and u < 0.2:
                b = pts[rng.randrange(j)]
                pts[j] = [b[i] + rng.choice([0, 0, 1, 2]) for i in range(d)]          # weakly dominated
        slack = rng.choice([0, 0, 1, 1, 2, 3])
        ref = [max(p[i] for p in pts) + (slack if rng.random() < 0.8 else rng.choice([0, 1])) for i in range(d)]
        for j in range(n):
            if rng.random() < 0.1:
                i = rng.randrange(d)
                pts[j][i] = ref[i]                                                    # on the reference boundary
        if rng.random() < 0.03:
            pts[rng.randrange(n)] = list(ref)                                         # the reference point itself
        return pts, ref

    maxperm = run.scale(4, 5)

    # corpus: the inputs on which pyhv was wrong before the repair (known_findings/C15.json "fixed"), and inputs that
    # distinguished mutants of _hv.c during the self-test
    corpus = [
        ([[0, 1, 0, 1], [0, 0, 2, 1], [0, 1, 0, 0]], [1, 3, 3, 3]),
        ([[0, 1, 0, 1], [0, 1, 0, 0], [0, 0, 1, 1]], [1, 3, 2, 2]),
        ([[2, 0, 1, 1, 0, 1], [2, 0, 1, 0, 0, 1], [1, 1, 1, 1, 1, 1]], [2, 2, 2, 2, 2, 2]),
        ([[1, 0, 0, 2, 0, 0], [1, 0, 0, 2, 0, 0], [0, 3, 1, 1, 0, 0]], [3, 3, 2, 2, 2, 3]),
        ([[0, 1, 2, 1, 0, 1, 0], [1, 1, 0, 0, 1, 2, 0], [1, 1, 1, 2, 1, 1, 1]], [2, 2, 2, 2, 2, 2, 2]),
        ([[3, 1, 4, 3, 3, 1], [2, 0, 3, 2, 3, 1], [4, 2, 3, 1, 3, 0]], [4, 2, 4, 3, 4, 2]),
        ([[1, 0, 2, 1], [1, 0, 2, 0], [0, 3, 1, 3]], [3, 3, 3, 4]),
        ([[0, 0, 1, 2, 2, 2, 1], [0, 1, 1, 2, 2, 2, 1], [0, 1, 1, 2, 2, 0, 1], [1, 2, 1, 0, 2, 2, 2]], [2, 3, 2, 3, 4, 3, 3]),
    ]
    for pts, ref in corpus:
        hv_set([[Fraction(x) for x in p] for p in pts], [Fraction(x) for x in ref], "corpus", 5)

    # exhaustive small scopes: all point lists over {0,1,2}^d, reference (2,..,2) or (3,..,3)
    for d, n in run.scale([(1, 3), (2, 2), (3, 2)], [(1, 3), (2, 3), (3, 2), (4, 2)]):
        allp = list(itertools.product([0, 1, 2], repeat=d))
        for combo in itertools.product(allp, repeat=n):
            pts = [[Fraction(x) for x in p] for p in combo]
            ref = [Fraction(2 + (sum(map(sum, combo)) % 2))] * d
            hv_job(pts, ref, "exhaustive", measure_ie(pts, ref))

    # random structured sets
    for it in range(run.scale(600, 4500)):
        d = rng.randint(1, 7)
        big = rng.random() < 0.25
        n = rng.randint(6, 12) if big else rng.randint(1, 6)
        style = rng.choice(["general", "front", "ties", "ties", "ties"])
        pts, ref = gen_set(d, n, style)
        pts, ref = transform(pts, ref)
        hv_set(pts, ref, style, maxperm)
        if len(jobs) >= CHUNK:
            flush()
    # sets of maximal size in every dimension
    for d in range(1, 8):
        for style in ("front", "ties"):
            pts, ref = gen_set(d, 12, style)
            hv_set(pts, ref, style + "/max", maxperm)

    # stress: tie-heavy lists in 4..7 dimensions, small coordinate range, with and without slack to the reference
    for it in range(run.scale(12000, 120000)):
        d = rng.choice([4, 5, 6, 6, 7, 7, 7])
        n = rng.randint(3, 7)
        k = rng.choice([1, 2, 2, 3, 3])
        slack = rng.choice([0, 1, 1, 2])
        pts = [[Fraction(rng.randint(0, k)) for _ in range(d)] for _ in range(n)]
        ref = [max(p[i] for p in pts) + slack for i in range(d)]
        hv_set(pts, ref, "stress", 0, stress=True)
        if len(jobs) >= CHUNK:
            flush()

    # populations
    def pop_job(w, vals, refo):
        jobs.append({"job": {"k": "pop", "w": fl(w), "vals": [fl(v) for v in vals], "refo": None if refo is None else fl(refo),
                             "refarr": rng.random() < 0.7, "backends": backends},
                     "w": w, "vals": vals, "refo": refo})

    for it in range(run.scale(500, 5000)):
        nobj = rng.randint(2, 4)
        n = rng.randint(2, 4) if rng.random() < 0.5 else rng.randint(5, 9)
        if rng.random() < 0.6:
            w = [Fraction(rng.choice([1, -1])) for _ in range(nobj)]
        else:
            w = [Fraction(rng.choice([1, -1])) * rng.choice([Fraction(1), Fraction(2), Fraction(1, 2), Fraction(3)]) for _ in range(nobj)]
        if rng.random() < 0.4:
            cols = [rng.sample(range(n + 2), n) for _ in range(nobj)]
            vals = [[Fraction(cols[i][j]) for i in range(nobj)] for j in range(n)]
        else:
            k = rng.choice([1, 2, 3, 6])
            vals = [[Fraction(rng.randint(-k, k)) / rng.choice([1, 1, 2]) for _ in range(nobj)] for _ in range(n)]
        if rng.random() < 0.15:
            vals[rng.randrange(n)] = list(vals[rng.randrange(n)])
        if rng.random() < 0.6:
            refo = None
        else:
            P = [[-(x * wi) for x, wi in zip(v, w)] for v in vals]
            refo = [max(p[i] for p in P) + rng.choice([0, 1, 1, 2, Fraction(1, 2)]) for i in range(nobj)]
        pop_job(w, vals, refo)
        if len(jobs) >= CHUNK:
            flush()
    flush()
