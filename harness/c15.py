"""C15 — hypervolume: rebuilt C extension, pyhv fallback, indicator / benchmarks wrappers."""
import itertools
import json
import math
import os
import shutil
import struct
import subprocess
import sys
import sysconfig
import time
from fractions import Fraction

import vlib
from vlib import cq, cbool, clist, cnat, copt

F0 = Fraction(0)


# ----------------------------------------------------------------------------
# independent statement of the property: measure of a union of boxes [p, ref)
# ----------------------------------------------------------------------------
def to_ints(pts, ref):
    """Scale rationals to integers by the common denominator L (exact)."""
    L = 1
    for x in list(ref) + [c for p in pts for c in p]:
        dn = x.denominator
        if dn != 1:
            L = L * dn // math.gcd(L, dn)
    if L == 1:
        return [tuple(int(c) for c in p) for p in pts], [int(x) for x in ref], 1
    return [tuple(int(c * L) for c in p) for p in pts], [int(x * L) for x in ref], L


def measure_ie(pts, ref):
    """Inclusion-exclusion: |U B_p| = sum over non-empty S of (-1)^(|S|+1) |cap_{p in S} B_p|,
    the intersection being the box of the coordinate-wise maximum.  Exact: coordinates are scaled to integers."""
    d = len(ref)
    ipts, iref, L = to_ints(pts, ref)
    rng_d = range(d)
    ipts = sorted(p for p in set(ipts) if all(p[i] < iref[i] for i in rng_d))     # empty boxes have measure 0
    # drop dominated points (their boxes are inside another box) to keep 2^n small
    keep = [p for p in ipts if not any(q != p and all(q[i] <= p[i] for i in rng_d) for q in ipts)]
    total = 0

    def rec(i, corner, sign):
        nonlocal total
        for j in range(i, len(keep)):
            kj = keep[j]
            c = [a if a > b else b for a, b in zip(corner, kj)]
            vol = 1
            for k in rng_d:
                vol *= iref[k] - c[k]
            total += sign * vol
            rec(j + 1, c, -sign)

    for j in range(len(keep)):
        vol = 1
        for k in rng_d:
            vol *= iref[k] - keep[j][k]
        total += vol
        rec(j + 1, list(keep[j]), -1)
    return Fraction(total, L ** d)


def measure_grid(pts, ref, limit=200000):
    """Sum of the volumes of the covered cells of the coordinate grid (None when the grid is too big)."""
    d = len(ref)
    ipts, iref, L = to_ints(pts, ref)
    axes = []
    ncell = 1
    for i in range(d):
        ax = sorted(set(p[i] for p in ipts if p[i] < iref[i])) + [iref[i]]
        axes.append(ax)
        ncell *= max(len(ax) - 1, 0)
        if ncell > limit:
            return None
    total = 0
    rng_d = range(d)
    for idx in itertools.product(*[range(len(ax) - 1) for ax in axes]):
        lo = [axes[i][idx[i]] for i in rng_d]
        for p in ipts:
            if all(p[i] <= lo[i] for i in rng_d):
                vol = 1
                for i in rng_d:
                    vol *= axes[i][idx[i] + 1] - lo[i]
                total += vol
                break
    return Fraction(total, L ** d)


# ----------------------------------------------------------------------------
# rebuild the extension from the working tree
# ----------------------------------------------------------------------------
def build_extension(run):
    """Compile _hv.c + hv.cpp of $VERIF_REPO (the Extension of /repo/setup.py) into build/hvext_<pid>/hv.so.
    The module is only ever loaded by the worker process."""
    src = os.path.join(vlib.REPO, "deap", "tools", "_hypervolume")
    out = os.path.join(vlib.BUILD, "hvext_%d" % os.getpid())
    os.makedirs(out, exist_ok=True)
    inc = sysconfig.get_paths()["include"]
    cmds = [
        ["gcc", "-O2", "-fPIC", "-fwrapv", "-c", os.path.join(src, "_hv.c"), "-o", os.path.join(out, "_hv.o"), "-I", src],
        ["g++", "-O2", "-fPIC", "-fwrapv", "-c", os.path.join(src, "hv.cpp"), "-o", os.path.join(out, "hvmod.o"), "-I", src, "-I", inc],
        ["g++", "-shared", os.path.join(out, "_hv.o"), os.path.join(out, "hvmod.o"), "-o", os.path.join(out, "hv.so")],
    ]
    for c in cmds:
        p = subprocess.run(["timeout", "300"] + c, stdout=subprocess.PIPE, stderr=subprocess.STDOUT, text=True)
        if p.returncode != 0:
            run.broken.append({"kind": "extension_build_failed", "where": [" ".join(c[:6])], "log": p.stdout[-3000:]})
            return None, out
    return os.path.join(out, "hv.so"), out


HANG_SECONDS = 60
NAMES = {"c": "c-extension(rebuilt)", "py": "pyhv", "fb": "library-selected fallback (extension import blocked)"}


def run_worker(run, jobs, so_path, state):
    """Run the jobs in worker processes; returns (results, crashes). A worker that dies or hangs inside a back-end
    call is restarted after that call has been marked 'skip'; the call is reported as a crash."""
    n = len(jobs)
    results = [None] * n
    crashes = []
    start, restarts, nbad = 0, 0, state["nbad"]
    for be, cnt in nbad.items():
        if cnt >= 10:          # disabled in an earlier chunk
            for j in jobs:
                j["job"].setdefault("skip", []).append(be)
    worker = os.path.join(os.path.dirname(os.path.abspath(__file__)), "c15_worker.py")
    env = dict(os.environ)
    env["VERIF_REPO"] = vlib.REPO
    env["PYTHONPATH"] = vlib.REPO
    while start < n:
        jp = os.path.join(run.rundir, "jobs_%d.jsonl" % restarts)
        op = os.path.join(run.rundir, "out_%d.jsonl" % restarts)
        ep = os.path.join(run.rundir, "err_%d.txt" % restarts)
        with open(jp, "w") as f:
            for j in jobs[start:]:
                f.write(json.dumps(j["job"]) + "\n")
        if os.path.exists(op):
            os.remove(op)
        with open(ep, "w") as ef:
            p = subprocess.Popen([sys.executable, worker, jp, op, so_path or "-"], env=env,
                                 stdout=subprocess.DEVNULL, stderr=ef)
            last_size, last_change, hung = -1, time.time(), False
            while True:
                rc = p.poll()
                size = os.path.getsize(op) if os.path.exists(op) else 0
                if size != last_size:
                    last_size, last_change = size, time.time()
                if rc is not None:
                    break
                if time.time() - last_change > (HANG_SECONDS if size > 0 else 5 * HANG_SECONDS):
                    p.kill()
                    p.wait()
                    hung = True
                    rc = p.returncode
                    break
                time.sleep(0.05)
        done, marker = 0, None
        if os.path.exists(op):
            for line in open(op):
                if not line.endswith("\n"):
                    break
                if line.startswith("#"):
                    try:
                        a, b = line[1:].split()
                        marker = (int(a), b)
                    except ValueError:
                        pass
                    continue
                try:
                    idx, res = json.loads(line)
                except ValueError:
                    break
                results[start + idx] = res
                done = idx + 1
        for f in (jp, op):
            try:
                os.remove(f)
            except OSError:
                pass
        if done == n - start:
            if rc != 0:
                run.notes.append("worker finished every job but exited with status %s" % rc)
            try:
                os.remove(ep)
            except OSError:
                pass
            break
        errtxt = open(ep).read()[-2000:] if os.path.exists(ep) else ""
        if marker is None or marker[0] != done:
            run.broken.append({"kind": "worker_failed", "where": ["harness/c15_worker.py"],
                               "log": "worker exit status %s after %d jobs, outside a back-end call\n%s" % (rc, done, errtxt)})
            break
        how = ("did not return within %d s" % HANG_SECONDS) if hung else "killed the interpreter (exit status %s)" % rc
        crashes.append((start + marker[0], marker[1], how))
        jobs[start + marker[0]]["job"].setdefault("skip", []).append(marker[1])
        start += marker[0]
        restarts += 1
        nbad[marker[1]] = nbad.get(marker[1], 0) + (5 if hung else 1)
        if nbad[marker[1]] >= 10:
            # two hangs or ten crashes of one back-end: stop calling it (the failing inputs found so far are reported)
            for j in jobs[start:]:
                j["job"].setdefault("skip", []).append(marker[1])
            run.notes.append("back-end %s not called on the jobs after #%d: it %s repeatedly" % (marker[1], start, how))
    return results, crashes


def cql(l):
    return clist([cq(x) for x in l])


def cpts(pts):
    return clist([cql(p) for p in pts])


def fl(p):
    return [float(x) for x in p]


def sfr(l):
    return [str(x) for x in l]


# ----------------------------------------------------------------------------
def main(run):
    run.rule = ("point sets of 1..12 points in 1..7 dimensions on integer / dyadic grids: general position, tie-heavy "
                "grids, duplicates, dominated points, points on the reference boundary, negative coordinates, reference "
                "at the origin; exhaustive {0,1,2}^d scopes for small d,n; every permutation of sets of <= 4 (quick) / 5 "
                "(thorough) points, random shuffles above; each ordered list is given to the C extension rebuilt from the "
                "working tree, to pyhv.hypervolume and (as a population of 2..9 individuals, 2..4 objectives, any weight "
                "signs) to benchmarks.tools.hypervolume / tools.indicator.hypervolume with both back-ends; all of these are "
                "also evaluated by the Coq model. A further 'stress' set of tie-heavy lists in 4..7 dimensions is compared "
                "with the inclusion-exclusion measure only (every 25th also by the model). Distinct = distinct ordered "
                "input; non-trivial = at least two points with a non-empty box / at least two different losses.")
    run.trusted += ["Coq 8.16.1 kernel and vm_compute",
                    "hand-written model coq/Model/C15_HV.v (HSO recursion, grid measure, wrappers) tied by correspondence "
                    "(harness/c15.py); the dimension-sweep algorithms of _hv.c / pyhv.py are not modelled, only their "
                    "input/output behaviour is compared with the model",
                    "reading 'Lebesgue measure of a finite union of boxes' as the finite sum over grid cells "
                    "(grid_measure, justified by C15_cell_homogeneous); finite additivity of the measure on disjoint boxes "
                    "is not formalised (no measure theory library installed)",
                    "gcc/g++ and the CPython C-API glue used to rebuild the extension on every run",
                    "numpy array arithmetic, numpy.max, numpy.argmax (first maximum), numpy.concatenate",
                    "inputs restricted to integers / short dyadics so that every double operation is exact"]
    run.assumptions += ["coordinates finite (no NaN/inf)", "every point weakly dominates the reference point (p_i <= ref_i)",
                        "all points have the dimension of the reference point", "weights non-zero"]
    run.build_props()
    so_path, extdir = build_extension(run)
    try:
        _main(run, run.rng, so_path)
    finally:
        shutil.rmtree(extdir, ignore_errors=True)
        if not run.disagreements and not run.broken:
            shutil.rmtree(run.rundir, ignore_errors=True)     # hidden .aux files of the shards etc.


def f32_exact(x):
    x = float(x)
    return struct.unpack("f", struct.pack("f", x))[0] == x


def small_enough(pts, ref, bits=20):
    """Every volume / partial sum of the implementations is an integer multiple of the grid resolution bounded by
    n * (bounding box): True if that fits in `bits` bits, i.e. arithmetic in a float type with that mantissa is exact."""
    ipts, iref, L = to_ints(pts, ref)
    B = len(pts) + 1
    for i in range(len(ref)):
        lo = min([p[i] for p in ipts] + [iref[i]])
        B *= max(1, iref[i] - lo, abs(iref[i]), abs(lo))
    return B < 2 ** bits


def is_int(x):
    return Fraction(x).denominator == 1


def _main(run, rng, so_path):
    backends = (["c"] if so_path else []) + ["py"]
    jobs = []          # {"job": what the worker gets, + bookkeeping}
    fb_jobs = []       # population jobs repeated on the library's own fallback route (extension import blocked)
    state = {"grid_budget": run.scale(800, 8000), "nstress": 0, "ncrash": 0, "nbad": {}, "npure": 0, "nprobe": 0,
             "selected": set()}
    CHUNK = 25000

    # ------------------------------------------------------------------ judging helpers
    def pop_expect(w, vals, refo):
        nobj = len(w)
        P = [[-(x * wi) for x, wi in zip(v, w)] for v in vals]
        ref = refo if refo is not None else [max(p[i] for p in P) + 1 for i in range(nobj)]
        total = measure_ie(P, ref)
        losses = [total - measure_ie(P[:i] + P[i + 1:], ref) for i in range(len(P))]
        return total, losses

    def flush(joblist, so):
        if not joblist:
            return
        results, crashes = run_worker(run, joblist, so, state)
        crashed = {}
        for idx, be, how in crashes:
            crashed[(idx, be)] = how
        terms, cases = [], []
        terms2, cases2 = [], []

        def judge_hv(case, name, r, expected, obs):
            """r = ["ok", float] / ["err", text]"""
            v = Fraction(r[1]) if r[0] == "ok" else r[1]
            case.setdefault(name, []).append(str(v))
            if r[0] != "ok" or v != expected:
                run.oracle_violation("%s.hypervolume(points, ref) is not the measure of the union of the boxes "
                                     "[p, ref)" % name, dict(case), observed=str(v))
            if r[0] == "ok":
                obs.append(v)

        def judge_pop(case, name, r, total, losses, nvals, obs_hv, obs_idx, obs_contrib):
            for bt in r["bt"]:
                v = Fraction(bt[1]) if bt[0] == "ok" else bt[1]
                case.setdefault("benchmarks.tools.hypervolume[%s]" % name, []).append(str(v))
                if bt[0] != "ok" or v != total:
                    run.oracle_violation("benchmarks.tools.hypervolume (back-end %s) is not the measure of the union of the "
                                         "boxes of the negated weighted objectives (default reference: worst + 1)" % name,
                                         dict(case), observed=str(v))
                if bt[0] == "ok":
                    obs_hv.append(v)
            for ind, contrib in zip(r["ind"], r["contrib"]):
                i = ind[1]
                case.setdefault("tools.indicator.hypervolume[%s]" % name, []).append(str(i))
                if ind[0] != "ok" or not (0 <= i < nvals) or losses[i] != min(losses):
                    run.oracle_violation("tools.indicator.hypervolume (back-end %s) does not return the index of an "
                                         "individual whose removal reduces the hypervolume the least" % name, dict(case),
                                         observed=str(i))
                if ind[0] == "ok" and i >= 0:
                    obs_idx.append(i)
                    if len(contrib) == nvals and all(c[0] == "ok" for c in contrib):
                        obs_contrib.append([Fraction(c[1]) for c in contrib])

        def pure(case, name, keep):
            state["npure"] += 1
            if not keep:
                c = dict(case)
                c["modified_arguments_by"] = name
                terms.append("CPure false")
                cases.append(c)

        for idx, j in enumerate(joblist):
            res = results[idx]
            kind = j["job"]["k"]
            jbackends = j["job"]["backends"]
            if kind == "probe":
                state["nprobe"] += 1
                for be in jbackends:
                    if (idx, be) in crashed:
                        run.oracle_violation("%s.hypervolume %s on malformed arguments (non-sequence / wrong dimension)"
                                             % (NAMES[be], crashed[(idx, be)]), {"kind": "probe"}, observed=crashed[(idx, be)])
                continue
            if kind in ("hv", "hvseq"):
                ref = j["ref"]
                d = len(ref)
                steps = [(j["pts"], j["expected"])] if kind == "hv" else list(zip(j["fronts"], j["expected"]))
                case = {"kind": kind, "tag": j["tag"], "ref": sfr(ref), "argument_form": j["job"].get("form", "arr"),
                        "called_twice_on_same_objects": bool(j["job"].get("twice")),
                        "points": [[sfr(p) for p in pts] for pts, _ in steps] if kind == "hvseq" else [sfr(p) for p in j["pts"]],
                        "expected": [str(e) for _, e in steps]}
                obs_steps = [[] for _ in steps]
                lowobs = {}
                for be in jbackends:
                    name = NAMES[be]
                    if (idx, be) in crashed:
                        case[name] = crashed[(idx, be)]
                        run.oracle_violation("%s.hypervolume(points, ref) %s" % (name, crashed[(idx, be)]), dict(case),
                                             observed=crashed[(idx, be)])
                        continue
                    if res is None or be not in res:
                        continue            # not run (worker failure recorded in run.broken)
                    if kind == "hv":
                        for r in res[be]["v"]:
                            judge_hv(case, name, r, j["expected"], obs_steps[0])
                            if r[0] == "ok":
                                lowobs[be] = Fraction(r[1])
                        pure(case, name, res[be]["keep"])
                    else:
                        for k, r in enumerate(res[be]):
                            if k < len(steps):
                                judge_hv(case, name, r, steps[k][1], obs_steps[k])
                        if len(res[be]) != len(steps):
                            run.oracle_violation("pyhv._HyperVolume instance reused: wrong number of results", dict(case))
                for k, (pts, expected) in enumerate(steps):
                    mpts = pts + [ref] if j["job"].get("form") == "refview" else pts
                    nboxes = sum(1 for p in pts if all(p[i] < ref[i] for i in range(d)))
                    if j.get("stress"):
                        state["nstress"] += 1
                        run.note_case(case, nboxes >= 2, sample=case if state["nstress"] == 7 else None)
                        if not j["coq"]:
                            continue
                    ncell = 1
                    for i in range(d):
                        ncell *= max(1, len(set(p[i] for p in mpts)))
                    grid = ncell <= 400 and state["grid_budget"] > 0
                    if grid:
                        state["grid_budget"] -= 1
                    terms.append("CHv %s %s %s %s" % (cql(ref), cpts(mpts), cbool(grid), cql(obs_steps[k])))
                    cases.append(case)
                    if d <= 2 and kind == "hv":
                        # the transcribed one-/two-objective code paths, each against its own implementation
                        terms.append("CLow %s %s %s %s" % (cql(ref), cpts(mpts), copt(lowobs.get("c"), cq),
                                                           copt(lowobs.get("py"), cq)))
                        cases.append(case)
                    if not j.get("stress"):
                        run.note_case((case, k), nboxes >= 2, sample=case if run.evaluations % 211 == 1 else None)
                continue
            # populations: one call ("pop") or a sequence on one population object ("popseq")
            w, refo = j["w"], j["refo"]
            steps = j["steps"]                   # list of value lists, one per call
            case = {"kind": kind, "weights": sfr(w), "weights_type": j["job"].get("wtype", "float"),
                    "values_type": j["job"].get("valtype", "float"),
                    "values": [[sfr(v) for v in vals] for vals in steps] if kind == "popseq" else [sfr(v) for v in steps[0]],
                    "ops": j["job"].get("ops"), "same_object_at": j["job"].get("sameobj"),
                    "ref": None if refo is None else sfr(refo), "ref_form": j["job"].get("refform"),
                    "ref_none_passed_explicitly": bool(j["job"].get("explicit_none")),
                    "route": j["job"].get("route", "module"), "called_twice_on_same_objects": bool(j["job"].get("twice"))}
            exp = [pop_expect(w, vals, refo) for vals in steps]
            case["expected_hv"] = [str(t) for t, _ in exp]
            case["expected_losses"] = [sfr(l) for _, l in exp]
            obs = [([], [], []) for _ in steps]
            for be in jbackends:
                name = NAMES[be]
                if (idx, be) in crashed:
                    case[name] = crashed[(idx, be)]
                    run.oracle_violation("hypervolume wrappers with back-end %s: %s" % (name, crashed[(idx, be)]), dict(case),
                                         observed=crashed[(idx, be)])
                    continue
                if res is None or be not in res:
                    continue
                rs = [res[be]] if kind == "pop" else res[be]
                if len(rs) != len(steps):
                    run.oracle_violation("population sequence: wrong number of results", dict(case))
                for k, r in enumerate(rs[:len(steps)]):
                    judge_pop(case, name, r, exp[k][0], exp[k][1], len(steps[k]), *obs[k])
                if kind == "pop":
                    pure(case, name, res[be]["keep"])
                    if "selected" in res[be]:
                        state["selected"].add(tuple(res[be]["selected"]))
            for k, vals in enumerate(steps):
                terms2.append("CPop %s %s %s %s" % (cql(w), cpts(vals), copt(refo, cql), cql(obs[k][0])))
                cases2.append(case)
                terms2.append("CInd %s %s %s %s %s" % (cql(w), cpts(vals), copt(refo, cql),
                                                       clist([cnat(i) for i in obs[k][1]]),
                                                       clist([cql(c) for c in obs[k][2]])))
                cases2.append(case)
                run.note_case((case, k, jbackends[0]), len(set(exp[k][1])) > 1,
                              sample=case if run.evaluations % 150 == 2 else None)

        state["ncrash"] += len(crashes)
        run.extra_cov["implementation_crashes_or_hangs"] = state["ncrash"]
        run.extra_cov["stress_cases_oracle_only"] = state["nstress"]
        run.extra_cov["argument_unmodified_checks"] = state["npure"]
        run.extra_cov["malformed_argument_probes"] = state["nprobe"]
        run.extra_cov["fallback_route_selected_modules"] = sorted(state["selected"])
        run.correspond("hv", "C15", terms, cases, shard=300)
        run.correspond("pop", "C15", terms2, cases2, shard=150)
        del joblist[:]

    # ------------------------------------------------------------------ generation: point sets
    ALLFORMS = ["arr"] * 8 + ["list", "list", "tuple", "npscalars", "fortran", "strided", "refview", "arrayd",
                                "arrayrow_list", "intlist", "i64", "i64i64", "f32"]

    def pick_form(pts, ref):
        while True:
            f = rng.choice(ALLFORMS)
            if f in ("intlist", "i64i64") and not (all(is_int(c) for p in pts for c in p) and all(is_int(c) for c in ref)):
                continue
            if f == "i64" and not all(is_int(c) for p in pts for c in p):
                continue
            if f == "f32" and not (all(f32_exact(c) for p in pts for c in p) and small_enough(pts, ref)):
                continue
            return f

    def floats(p, negzero):
        out = [float(x) for x in p]
        if negzero:
            out = [(-0.0 if (x == 0.0 and rng.random() < 0.5) else x) for x in out]
        return out

    def hv_job(pts, ref, tag, expected, stress=False, coq=True):
        form = "arr" if stress else pick_form(pts, ref)
        nz = (not stress) and form in ("arr", "list", "tuple", "fortran") and rng.random() < 0.2
        jobs.append({"job": {"k": "hv", "pts": [floats(p, nz) for p in pts], "ref": floats(ref, nz), "form": form,
                             "twice": (not stress) and rng.random() < 0.15, "backends": backends},
                     "pts": pts, "ref": ref, "tag": tag, "expected": expected, "stress": stress, "coq": coq})

    def hv_set(pts, ref, tag, maxperm, stress=False):
        """A point set: the given order, then all permutations (<= maxperm points) or two shuffles."""
        expected = measure_ie(pts, ref)
        g = measure_grid(pts, ref, limit=400) if (not stress or rng.random() < 0.03) else None
        if g is not None and g != expected:
            raise RuntimeError("harness self-check: inclusion-exclusion %s != grid sum %s on %r %r" % (expected, g, pts, ref))
        n = len(pts)
        if stress:
            q = list(pts)
            rng.shuffle(q)
            hv_job(q, ref, tag, expected, stress=True, coq=(len(jobs) % 25 == 0))
            return
        hv_job(pts, ref, tag, expected)
        if n <= 1:
            return
        if n <= maxperm:
            seen = {tuple(map(tuple, pts))}
            for perm in itertools.permutations(range(n)):
                q = [pts[i] for i in perm]
                k = tuple(map(tuple, q))
                if k in seen:
                    continue
                seen.add(k)
                hv_job(q, ref, tag + "/perm", expected)
        else:
            for _ in range(2):
                q = list(pts)
                rng.shuffle(q)
                hv_job(q, ref, tag + "/shuffle", expected)

    def transform(pts, ref):
        """Exact affine change of coordinates: per-axis power-of-two scaling (incl. tiny 2^-20 and large 2^10 scales),
        translation (small, to ref = origin, or by +-2^30: large offset with a tiny spread).  Differences of
        coordinates stay short dyadics, so every double operation of both implementations stays exact."""
        d = len(ref)
        mode = rng.random()
        u = rng.random()
        if u < 0.08:
            sc = [Fraction(1, 2 ** 20)] * d
        elif u < 0.14:
            sc = [Fraction(2 ** 10)] * d
        else:
            sc = [Fraction(1, rng.choice([1, 1, 2, 4])) for _ in range(d)]
        if mode < 0.25:
            sh = [-(r * s) for r, s in zip(ref, sc)]          # reference at the origin
        elif mode < 0.55:
            sh = [Fraction(rng.randint(-6, 3)) for _ in range(d)]
        elif mode < 0.65 and u >= 0.14:
            sh = [Fraction(rng.choice([1, -1]) * 2 ** 30) for _ in range(d)]
        else:
            sh = [F0] * d
        pts = [[p[i] * sc[i] + sh[i] for i in range(d)] for p in pts]
        ref = [ref[i] * sc[i] + sh[i] for i in range(d)]
        return pts, ref

    def gen_set(d, n, style):
        """Integer point set and reference (every point <= ref), decorated with duplicates / dominated / boundary points."""
        if style == "general":
            cols = [rng.sample(range(0, 3 * n + 2), n) for _ in range(d)]
            pts = [[Fraction(cols[i][j]) for i in range(d)] for j in range(n)]
        elif style == "front":
            cols = [rng.sample(range(n), n) for _ in range(d)]
            pts = [[Fraction(cols[i][j]) for i in range(d)] for j in range(n)]
        else:
            k = rng.choice([1, 1, 2, 2, 3, 5])
            pts = [[Fraction(rng.randint(0, k)) for _ in range(d)] for _ in range(n)]
        for j in range(n):
            u = rng.random()
            if j > 0 and u < 0.08:
                pts[j] = list(pts[rng.randrange(j)])                                  # duplicate
            elif j > 0 and u < 0.2:
                b = pts[rng.randrange(j)]
                pts[j] = [b[i] + rng.choice([0, 0, 1, 2]) for i in range(d)]          # weakly dominated
        slack = rng.choice([0, 0, 1, 1, 2, 3])
        ref = [max(p[i] for p in pts) + (slack if rng.random() < 0.8 else rng.choice([0, 1])) for i in range(d)]
        for j in range(n):
            if rng.random() < 0.1:
                i = rng.randrange(d)
                pts[j][i] = ref[i]                                                    # on the reference boundary
        if rng.random() < 0.03:
            pts[rng.randrange(n)] = list(ref)                                         # the reference point itself
        return pts, ref

    def near_tie_set():
        """<= 3 dimensions, small integers, but ONE axis carries coordinates c + j * 2^-40 (near-ties, 1 part in 10^12):
        every product has at most one such factor, so the doubles are still exact."""
        d = rng.randint(1, 3)
        n = rng.randint(2, 6)
        a = rng.randrange(d)
        eps = Fraction(1, 2 ** 40)
        pts = [[Fraction(rng.randint(0, 3)) for _ in range(d)] for _ in range(n)]
        for p in pts:
            p[a] = Fraction(rng.randint(0, 2)) + rng.choice([0, 0, 1, 1, 2, 3]) * eps
        ref = [max(p[i] for p in pts) + rng.choice([0, 1]) for i in range(d)]
        if rng.random() < 0.5:
            ref[a] = max(p[a] for p in pts) + rng.choice([0, 1, 2]) * eps           # reference 0..2 ulps-ish above
        return pts, ref

    maxperm = run.scale(4, 5)

    # corpus: the inputs on which pyhv was wrong before the repair (known_findings/C15.json "fixed"), and inputs that
    # distinguished mutants of _hv.c during the self-test
    corpus = [
        ([[0, 1, 0, 1], [0, 0, 2, 1], [0, 1, 0, 0]], [1, 3, 3, 3]),
        ([[0, 1, 0, 1], [0, 1, 0, 0], [0, 0, 1, 1]], [1, 3, 2, 2]),
        ([[2, 0, 1, 1, 0, 1], [2, 0, 1, 0, 0, 1], [1, 1, 1, 1, 1, 1]], [2, 2, 2, 2, 2, 2]),
        ([[1, 0, 0, 2, 0, 0], [1, 0, 0, 2, 0, 0], [0, 3, 1, 1, 0, 0]], [3, 3, 2, 2, 2, 3]),
        ([[0, 1, 2, 1, 0, 1, 0], [1, 1, 0, 0, 1, 2, 0], [1, 1, 1, 2, 1, 1, 1]], [2, 2, 2, 2, 2, 2, 2]),
        ([[3, 1, 4, 3, 3, 1], [2, 0, 3, 2, 3, 1], [4, 2, 3, 1, 3, 0]], [4, 2, 4, 3, 4, 2]),
        ([[1, 0, 2, 1], [1, 0, 2, 0], [0, 3, 1, 3]], [3, 3, 3, 4]),
        ([[0, 0, 1, 2, 2, 2, 1], [0, 1, 1, 2, 2, 2, 1], [0, 1, 1, 2, 2, 0, 1], [1, 2, 1, 0, 2, 2, 2]], [2, 3, 2, 3, 4, 3, 3]),
        ([[2, 0], [0, 1]], [2, 2]),                      # one survivor of the filter, not the first point
        ([[-3, -3, -3, -1], [-3, -3, -3, -3], [-2, -3, -2, -1]], [0, 0, 0, 0]),
    ]
    for pts, ref in corpus:
        hv_set([[Fraction(x) for x in p] for p in pts], [Fraction(x) for x in ref], "corpus", 5)

    # boundaries: sizes 1 and 2, everything on the boundary, the reference itself, identical points
    for d in range(1, 8):
        r = [Fraction(rng.randint(1, 3)) for _ in range(d)]
        p = [x - rng.randint(1, 2) for x in r]
        onb = list(p)
        onb[rng.randrange(d)] = r[0] if d == 1 else None
        onb = [r[i] if c is None else c for i, c in enumerate(onb)]
        if onb == p:
            onb[0] = r[0]
        for pts in ([p], [list(r)], [onb], [p, list(p)], [list(r), list(r)], [onb, list(r)], [onb, p], [p, onb],
                    [list(r), p, onb], [onb, onb, p, p]):
            hv_job(pts, r, "boundary", measure_ie(pts, r))

    # exhaustive small scopes: all point lists over {0,1,2}^d, reference (2,..,2) or (3,..,3)
    for d, n in run.scale([(1, 3), (2, 2), (3, 2)], [(1, 3), (2, 3), (3, 2), (4, 2)]):
        allp = list(itertools.product([0, 1, 2], repeat=d))
        for combo in itertools.product(allp, repeat=n):
            pts = [[Fraction(x) for x in p] for p in combo]
            ref = [Fraction(2 + (sum(map(sum, combo)) % 2))] * d
            hv_job(pts, ref, "exhaustive", measure_ie(pts, ref))

    # random structured sets
    for it in range(run.scale(600, 4500)):
        d = rng.randint(1, 7)
        big = rng.random() < 0.25
        n = rng.randint(6, 12) if big else rng.randint(1, 6)
        style = rng.choice(["general", "front", "ties", "ties", "ties"])
        pts, ref = gen_set(d, n, style)
        pts, ref = transform(pts, ref)
        hv_set(pts, ref, style, maxperm)
        if len(jobs) >= CHUNK:
            flush(jobs, so_path)
    for it in range(run.scale(150, 1500)):
        pts, ref = near_tie_set()
        hv_set(pts, ref, "near-tie", maxperm)
    # sets of maximal size in every dimension
    for d in range(1, 8):
        for style in ("front", "ties"):
            pts, ref = gen_set(d, 12, style)
            hv_set(pts, ref, style + "/max", maxperm)

    # one pyhv._HyperVolume instance reused for several fronts (state in self.list), interleaved dimensions
    for it in range(run.scale(60, 600)):
        d = rng.randint(1, 6)
        fronts = []
        ref = None
        for _ in range(rng.randint(2, 4)):
            pts, r = gen_set(d, rng.randint(1, 6), rng.choice(["front", "ties"]))
            ref = r if ref is None else [max(a, b) for a, b in zip(ref, r)]
            fronts.append(pts)
        jobs.append({"job": {"k": "hvseq", "ref": fl(ref), "fronts": [[fl(p) for p in f] for f in fronts], "backends": ["py"]},
                     "ref": ref, "fronts": fronts, "tag": "instance-reuse", "expected": [measure_ie(f, ref) for f in fronts]})
    for _ in range(3):
        jobs.append({"job": {"k": "probe", "backends": backends}})

    # stress: tie-heavy lists in 4..7 dimensions, small coordinate range, with and without slack to the reference
    for it in range(run.scale(12000, 120000)):
        d = rng.choice([4, 5, 6, 6, 7, 7, 7])
        n = rng.randint(3, 7)
        k = rng.choice([1, 2, 2, 3, 3])
        slack = rng.choice([0, 1, 1, 2])
        pts = [[Fraction(rng.randint(0, k)) for _ in range(d)] for _ in range(n)]
        ref = [max(p[i] for p in pts) + slack for i in range(d)]
        hv_set(pts, ref, "stress", 0, stress=True)
        if len(jobs) >= CHUNK:
            flush(jobs, so_path)

    # ------------------------------------------------------------------ generation: populations
    def gen_pop():
        nobj = rng.randint(2, 4)
        n = rng.randint(2, 4) if rng.random() < 0.5 else rng.randint(5, 9)
        u = rng.random()
        if u < 0.5:
            w = [Fraction(rng.choice([1, -1])) for _ in range(nobj)]
        else:
            mags = [Fraction(1), Fraction(2), Fraction(1, 2), Fraction(3), Fraction(1, 4), Fraction(8)]
            w = [Fraction(rng.choice([1, -1])) * rng.choice(mags) for _ in range(nobj)]
        style = rng.random()
        if style < 0.4:
            cols = [rng.sample(range(n + 2), n) for _ in range(nobj)]
            vals = [[Fraction(cols[i][j]) for i in range(nobj)] for j in range(n)]
        elif style < 0.5:
            vals = [[Fraction(rng.randint(-2, 2)) for _ in range(nobj)] for _ in range(n)]       # integers, many ties
        else:
            k = rng.choice([1, 2, 3, 6])
            vals = [[Fraction(rng.randint(-k, k)) / rng.choice([1, 1, 2]) for _ in range(nobj)] for _ in range(n)]
        if rng.random() < 0.08:
            off = [Fraction(rng.choice([0, 2 ** 20, -2 ** 20])) for _ in range(nobj)]          # large offset, small spread
            vals = [[x + o for x, o in zip(v, off)] for v in vals]
        v = rng.random()
        if v < 0.2:
            a, b = rng.sample(range(n), 2)
            vals[b] = list(vals[a])                                                             # duplicate fitness
        elif v < 0.25:
            vals = [list(vals[0]) for _ in range(n)]                                            # all identical
        return w, vals

    def gen_ref(w, vals):
        if rng.random() < 0.55:
            return None
        nobj = len(w)
        P = [[-(x * wi) for x, wi in zip(v, w)] for v in vals]
        return [max(p[i] for p in P) + rng.choice([0, 1, 1, 2, Fraction(1, 2)]) for i in range(nobj)]

    def pop_options(w, vals, refo):
        job = {}
        ints = all(is_int(x) for v in vals for x in v)
        wints = all(is_int(x) for x in w)
        P = [[-(x * wi) for x, wi in zip(v, w)] for v in vals]
        rr = refo if refo is not None else [max(p[i] for p in P) + 1 for i in range(len(w))]
        f32ok = all(f32_exact(x) for v in vals for x in v) and small_enough(P + vals, rr)
        job["valtype"] = rng.choice(["float"] * 5 + (["int", "npint"] if ints else []) + ["npfloat64"] +
                                    (["npfloat32"] if f32ok else []))
        job["wtype"] = "int" if (wints and rng.random() < 0.3) else "float"
        if refo is not None:
            job["refform"] = rng.choice(["arr", "arr", "list", "tuple"] + (["intarr"] if all(is_int(x) for x in refo) else []))
        else:
            job["explicit_none"] = rng.random() < 0.3
        job["route"] = "alias" if rng.random() < 0.3 else "module"
        job["twice"] = rng.random() < 0.25
        return job

    def pop_job(w, vals, refo):
        job = {"k": "pop", "w": fl(w), "vals": [fl(v) for v in vals], "refo": None if refo is None else fl(refo),
               "backends": backends}
        job.update(pop_options(w, vals, refo))
        if len(vals) >= 3 and rng.random() < 0.1:
            a, b = rng.sample(range(len(vals)), 2)
            job["sameobj"] = [[a, b]]                     # the very same individual object twice
            vals = list(vals)
            vals[b] = vals[a]
        rec = {"job": job, "w": w, "refo": refo, "steps": [vals]}
        jobs.append(rec)
        fjob = dict(job)
        fjob["backends"] = ["fb"]
        fb_jobs.append({"job": fjob, "w": w, "refo": refo, "steps": [vals]})

    def popseq_job(w, vals, refo):
        """call -> change the population through the public routes -> call again (same objects)"""
        nobj = len(w)
        cur = [list(v) for v in vals]
        steps = [[list(v) for v in cur]]
        ops = []
        for _ in range(rng.randint(1, 4)):
            u = rng.random()
            # a new fitness that still weakly dominates an explicit reference: an existing one, improved
            base = cur[rng.randrange(len(cur))]
            newv = [x + (1 if wi > 0 else -1) * Fraction(rng.choice([0, 0, 1, 2, 3]), rng.choice([1, 2]))
                    for x, wi in zip(base, w)]
            if u < 0.4:
                i = rng.randrange(len(cur))
                ops.append([rng.choice(["set", "delset"]), i, fl(newv)])
                cur[i] = newv
            elif u < 0.55 and len(cur) >= 2:
                a, b = rng.sample(range(len(cur)), 2)
                ops.append(["swap", a, b])
                cur[a], cur[b] = cur[b], cur[a]
            elif u < 0.7 and len(cur) > 2:
                i = rng.randrange(len(cur))
                ops.append(["pop", i])
                cur.pop(i)
            else:
                ops.append(["append", fl(newv)])
                cur.append(newv)
            steps.append([list(v) for v in cur])
        job = {"k": "popseq", "w": fl(w), "vals": [fl(v) for v in vals], "refo": None if refo is None else fl(refo),
               "ops": ops, "backends": backends, "refform": "arr"}
        jobs.append({"job": job, "w": w, "refo": refo, "steps": steps})
        fjob = dict(job)
        fjob["backends"] = ["fb"]
        fb_jobs.append({"job": fjob, "w": w, "refo": refo, "steps": steps})

    def rescale(w, vals, refo):
        """Exact change of scale of the whole problem (values and reference point by the same power of two): tiny scales
        (2^-20, 2^-30: every box volume and every contribution is far below 1e-12) and a large one.  Differences of
        coordinates stay short dyadics, so both back-ends stay exact."""
        u = rng.random()
        if u >= 0.16:
            return vals, refo
        if refo is None:         # the default reference (worst + 1) is not on the scale of the values: products would round
            nobj = len(w)
            P = [[-(x * wi) for x, wi in zip(v, w)] for v in vals]
            refo = [max(p[i] for p in P) + rng.choice([0, 1, 1, 2, Fraction(1, 2)]) for i in range(nobj)]
        sc = Fraction(1, 2 ** 20) if u < 0.06 else (Fraction(1, 2 ** 30) if u < 0.12 else Fraction(2 ** 12))
        run.extra_cov["rescaled_populations"] = run.extra_cov.get("rescaled_populations", 0) + 1
        return [[x * sc for x in v] for v in vals], (None if refo is None else [r * sc for r in refo])

    for it in range(run.scale(500, 5000)):
        w, vals = gen_pop()
        vals, refo = rescale(w, vals, gen_ref(w, vals))
        pop_job(w, vals, refo)
        if len(jobs) >= CHUNK:
            flush(jobs, so_path)
    for it in range(run.scale(120, 1200)):
        w, vals = gen_pop()
        popseq_job(w, vals, gen_ref(w, vals) if rng.random() < 0.5 else None)
    flush(jobs, so_path)
    # the same populations on the route the library takes by itself when the extension cannot be imported
    while fb_jobs:
        part = fb_jobs[:CHUNK]
        del fb_jobs[:CHUNK]
        flush(part, "FALLBACK")
