#!/usr/bin/env python3
"""Mutation self-test for the C08 check (run by hand, not part of any verdict):

    /venv/bin/python harness/c08_selftest.py [name ...]

For every mutant: copy /repo to /var/tmp/c08_mut (never edits /repo), apply ONE textual edit to
deap/tools/support.py, run `VERIF_REPO=/var/tmp/c08_mut ./check C08 --tier quick`, report whether a
VIOLATION was printed, whether it has a concrete failing input (oracle) or is correspondence-only,
and the first thing the oracle said.  The scratch copy and the replays it produced are removed.
"""
import json
import os
import re
import shutil
import subprocess
import sys

VERIF = os.path.dirname(os.path.dirname(os.path.abspath(__file__)))
SCRATCH = "/var/tmp/c08_mut"
F = "deap/tools/support.py"

# name, kind ('break' = violates the statement, 'behaviour' = observable change the statement does not
# forbid, 'harmless' = refactor), old text, new text
MUTANTS = [
    ("bisect_left", "behaviour",
     "i = bisect_right(self.keys, item.fitness)",
     "from bisect import bisect_left\n        i = bisect_left(self.keys, item.fitness)"),
    ("remove_off_by_one", "break",
     "del self.keys[len(self) - (index % len(self) + 1)]",
     "del self.keys[len(self) - (index % len(self))]"),
    ("remove_keys_same_index", "break",
     "del self.keys[len(self) - (index % len(self) + 1)]",
     "del self.keys[index]"),
    ("ge_instead_of_gt", "behaviour",
     "if ind.fitness > self[-1].fitness or len(self) < self.maxsize:",
     "if ind.fitness >= self[-1].fitness or len(self) < self.maxsize:"),
    ("no_deepcopy", "break",
     "        item = deepcopy(item)\n", "        item = item\n"),
    ("shallow_copy", "break",
     "        item = deepcopy(item)\n", "        import copy as _c\n        item = _c.copy(item)\n"),
    ("similarity_skipped", "break",
     "                    if self.similar(ind, hofer):\n                        break",
     "                    if False and self.similar(ind, hofer):\n                        break"),
    ("pf_break_after_first_dominated", "break",
     "                    dominates_one = True\n                    to_remove.append(i)\n",
     "                    dominates_one = True\n                    to_remove.append(i)\n                    break\n"),
    ("pf_twin_ignored", "break",
     "            if not is_dominated and not has_twin:", "            if not is_dominated:"),
    ("pf_removal_not_reversed", "break",
     "            for i in reversed(to_remove):", "            for i in to_remove:"),
    ("remove_keeps_key", "break",
     "        del self.keys[len(self) - (index % len(self) + 1)]\n", ""),
    ("no_eviction_at_capacity", "break",
     "                    if len(self) >= self.maxsize:\n                        self.remove(-1)",
     "                    if len(self) > self.maxsize:\n                        self.remove(-1)"),
    ("compare_with_best", "break",
     "if ind.fitness > self[-1].fitness or", "if ind.fitness > self[0].fitness or"),
    ("items_insert_off_by_one", "break",
     "self.items.insert(len(self) - i, item)", "self.items.insert(len(self) - i - 1, item)"),
    ("pf_twin_or", "break",
     "elif ind.fitness == hofer.fitness and self.similar(ind, hofer):",
     "elif ind.fitness == hofer.fitness or self.similar(ind, hofer):"),
    ("admit_when_full", "break",
     "or len(self) < self.maxsize:", "or len(self) <= self.maxsize:"),
    ("population_last", "break",
     "self.insert(population[0])", "self.insert(population[-1])"),
    ("clear_keeps_keys", "break",
     "        del self.items[:]\n        del self.keys[:]\n", "        del self.items[:]\n"),
    ("pf_dominated_uses_lt", "break",
     "if not dominates_one and hofer.fitness.dominates(ind.fitness):",
     "if not dominates_one and hofer.fitness > ind.fitness:"),
    ("evict_best", "break",
     "                        self.remove(-1)", "                        self.remove(0)"),
    ("pf_remove_as_one_slice", "break",
     "            for i in reversed(to_remove):       # Remove the dominated hofer\n                self.remove(i)\n",
     "            if to_remove:                       # 'the front is sorted, dominated members are adjacent'\n"
     "                lo, hi, n = to_remove[0], to_remove[-1], len(self)\n"
     "                del self.items[lo:hi + 1]\n"
     "                del self.keys[n - 1 - hi:n - lo]\n"),
    ("similar_scan_equal_fitness_only", "break",
     "                    if self.similar(ind, hofer):\n                        break",
     "                    if hofer.fitness == ind.fitness and self.similar(ind, hofer):\n                        break"),
    # harmless refactors: must NOT give a VIOLATION
    ("H_no_continue", "harmless",
     "                self.insert(population[0])\n                continue\n",
     "                self.insert(ind)\n                continue\n"),
    ("H_pf_no_shortcut", "harmless",
     "if not dominates_one and hofer.fitness.dominates(ind.fitness):",
     "if hofer.fitness.dominates(ind.fitness):"),
    ("H_len_items", "harmless",
     "        del self.keys[len(self) - (index % len(self) + 1)]",
     "        n = len(self.items)\n        del self.keys[n - 1 - (index % n)]"),
    ("H_any_similar", "harmless",
     "                for hofer in self:\n                    # Loop through the hall of fame to check for any\n"
     "                    # similar individual\n                    if self.similar(ind, hofer):\n                        break\n"
     "                else:\n",
     "                if not any(self.similar(ind, hofer) for hofer in self):\n"),
    # ---- tie (T): mutants the correspondence misses (sizes beyond the generators); the broken equivalence
    # Proofs/C08_gen_equiv.v triggers the wide search, which must produce a concrete failing input
    ("T_scan_first_32", "break",
     "                for hofer in self:\n                    # Loop through",
     "                for hofer in self.items[:32]:\n                    # Loop through"),
    ("T_evict_cap_40", "break",
     "                    if len(self) >= self.maxsize:",
     "                    if len(self) >= min(self.maxsize, 40):"),
    ("T_remove_at_most_12", "break",
     "            for i in reversed(to_remove):       # Remove the dominated hofer",
     "            for i in reversed(to_remove[:12]):       # Remove the dominated hofer"),
    # ---- tie (T): harmless rewrites the equivalence proofs must absorb (no VIOLATION)
    ("H_reorder_inserts", "harmless",
     "        self.items.insert(len(self) - i, item)\n        self.keys.insert(i, item.fitness)",
     "        n = len(self)\n        self.keys.insert(i, item.fitness)\n        self.items.insert(n - i, item)"),
    ("H_index_loop", "harmless",
     "            for i, hofer in enumerate(self):    # hofer = hall of famer\n",
     "            for i in range(len(self)):\n                hofer = self[i]\n"),
    ("H_hoist", "harmless",
     "            if ind.fitness > self[-1].fitness or len(self) < self.maxsize:",
     "            worst = self[-1]\n            better = ind.fitness > worst.fitness\n"
     "            if better or len(self) < self.maxsize:"),
    ("H_not_items", "harmless",
     "if len(self) == 0 and self.maxsize != 0:",
     "if not self.items and self.maxsize != 0:"),
]


def run_one(name, kind, old, new):
    if os.path.exists(SCRATCH):
        shutil.rmtree(SCRATCH)
    subprocess.run(["rsync", "-a", "--exclude", ".git", "/repo/", SCRATCH + "/"], check=True)
    p = os.path.join(SCRATCH, F)
    src = open(p).read()
    if src.count(old) != 1:
        return name, kind, "PATCH-DID-NOT-APPLY(%d)" % src.count(old), ""
    open(p, "w").write(src.replace(old, new))
    env = dict(os.environ, VERIF_REPO=SCRATCH)
    r = subprocess.run([os.path.join(VERIF, "check"), "C08", "--tier", "quick"], cwd=VERIF, env=env,
                       stdout=subprocess.PIPE, stderr=subprocess.STDOUT, text=True)
    out = r.stdout
    m = re.search(r"VIOLATION property=C08 replay=(\S+)( no-failing-input-found)?", out)
    if not m:
        return name, kind, "no violation (exit %d)" % r.returncode, out.strip().splitlines()[-1][:150]
    what = ""
    try:
        rep = json.load(open(m.group(1)))
        if rep.get("violations"):
            what = rep["violations"][0]["what"]
        else:
            what = "; ".join(str(x) for x in rep.get("no_longer_checks", [])[:2])
        os.remove(m.group(1))
    except Exception as e:     # noqa
        what = "replay unreadable: %r" % e
    verdict = "VIOLATION correspondence-only" if m.group(2) else "VIOLATION with failing input"
    return name, kind, verdict, what[:160]


def main():
    names = sys.argv[1:]
    rows = []
    for mu in MUTANTS:
        if names and mu[0] not in names:
            continue
        row = run_one(*mu)
        rows.append(row)
        print("| %s | %s | %s | %s |" % row)
        sys.stdout.flush()
    if os.path.exists(SCRATCH):
        shutil.rmtree(SCRATCH)


if __name__ == "__main__":
    main()
