"""Fail-closed translator: the discrete operators of deap/tools/crossover.py and deap/tools/mutation.py -> Gallina.

Tie (T) of property C09 (DESIGN.md 2.3).  The working-tree source of the two files is parsed with Python's
`ast`; the body of every function of the signature table SIG is compiled, statement by statement, into the
draw-stream monad of coq/Model/C09_SeqOps.v (the style the hand-written model is written in) and written to
coq/Gen/C09_gen.v (never committed) as `gen_<name>`.  coq/Proofs/C09_gen_equiv.v then proves
`forall ds, gen_f args ds = Model.f args ds` for every function and coq/Props/C09_gen.v restates the C09
theorems on the regenerated definitions.  A semantic change of the source therefore breaks a proof obligation;
a change outside the grammar makes the translator REFUSE that function (class Refuse): it is then emitted as an
alias of the model (`gen_f := f`, listed in `refused`), and the check falls back to the correspondence tie for it.

How Python's mutable sequences become values.  Every sequence object (the individuals, `ind.strategy`, a list
made by `[c] * n` or by a slice that is bound to a name) is an *object* with its own Coq variable holding its
current contents; `x[i] = v` rebinds that variable (`x <- setI x i v`), `x[a:b] = r` likewise
(`py_slice_assign`); a Python name is bound either to an object (so `temp1, temp2 = ind1, ind2` makes aliases:
reads through temp1 see the writes to ind1) or to a scalar.  Distinct parameters are distinct objects (the
model's hypothesis).  Loops become `for_each idx (fun i state => ...) state` where `state` is the tuple of the
outer objects the body mutates and the outer scalars it assigns, in order of first definition; `if` without
return threads the variables either branch changes in the same way.

Grammar (everything else is refused; evaluation order is Python's: right-hand side first, operands and
arguments left to right, each subscript target evaluated when it is assigned):
  statements   docstring | pass | x = e | x[i] = e | x[a:b] = e (step 1) | tuple assignment between names,
               subscripts and slices | a, b = random.sample(range(n), 2) | x += e, -=, *= (int names)
               | if / elif / else | for <names> in range(..) / zip(..) / enumerate(..) / a sequence not mutated
               in the body (no break/continue/else, no return inside) | return <the parameter objects, as a
               tuple> (also inside top-level ifs) | raise IndexError(..) / ValueError(..)
  expressions  int / bool / float constants, names, <param>.strategy, x[i], x[a:b:c] (constant step),
               + - * % // on ints, unary -, not, and / or (pure), conditional expressions (pure),
               comparisons (ints; floats only against floats: indpb, random.random(), constants),
               len min max, [c] * n, isinstance(v, Sequence), repeat(v, n), type(g)(b),
               random.random() / randint(a, b) / randrange(n) as typed draw sites.
Types: Z (Python int), Q (float: only compared), bool, an opaque element type per generic sequence, `gene`
(typed bits of mutFlipBit), `pyval` (the int / sequence / repeat-object values of mutUniformInt's bounds).
Not modelled (trusted): `%` and `//` by zero (total in Coq; the model uses the same functions).
"""
import ast
import os
import re
from fractions import Fraction


class Refuse(Exception):
    def __init__(self, node, why):
        self.node = type(node).__name__ if not isinstance(node, str) else node
        self.line = getattr(node, "lineno", None)
        self.why = why
        Exception.__init__(self, "%s at line %s: %s" % (self.node, self.line, why))


def refuse(node, why):
    raise Refuse(node, why)


# ---- signature table (trusted) -------------------------------------------------------------------
# parameter kinds: ("list", elt) a sequence object; ("es", elt, elt') a sequence object with a sequence
# attribute .strategy; ("Q",) a float that is only compared; ("bound",) int or sequence of ints
# result kinds: "pair" = `return p0, p1`, "single" = `return p0,`, "espair" = `return p0, p1` of es objects
SIG = [
    ("cxOnePoint", "crossover.py", [("list", "A"), ("list", "A")], "pair"),
    ("cxTwoPoint", "crossover.py", [("list", "A"), ("list", "A")], "pair"),
    ("cxUniform", "crossover.py", [("list", "A"), ("list", "A"), ("Q",)], "pair"),
    ("mutFlipBit", "mutation.py", [("list", "gene"), ("Q",)], "single"),
    ("mutUniformInt", "mutation.py", [("list", "Z"), ("bound",), ("bound",), ("Q",)], "single"),
    ("mutShuffleIndexes", "mutation.py", [("list", "A"), ("Q",)], "single"),
    ("mutInversion", "mutation.py", [("list", "A")], "single"),
    ("cxMessyOnePoint", "crossover.py", [("list", "A"), ("list", "A")], "pair"),
    ("cxESTwoPoint", "crossover.py", [("es", "A", "B"), ("es", "A", "B")], "espair"),
    ("cxPartialyMatched", "crossover.py", [("list", "Z"), ("list", "Z")], "pair"),
    ("cxUniformPartialyMatched", "crossover.py", [("list", "Z"), ("list", "Z"), ("Q",)], "pair"),
    ("cxOrdered", "crossover.py", [("list", "Z"), ("list", "Z")], "pair"),
]
FUNCTIONS = [s[0] for s in SIG]
FILES = ("crossover.py", "mutation.py")

# names the translation gives a fixed meaning to: must be bound at module level exactly like this / not at all
EXPECTED_IMPORTS = {"random": ("import", None), "Sequence": ("from", ("collections.abc", "collections")),
                    "repeat": ("from", ("itertools",))}
BUILTINS_USED = ("min", "max", "len", "range", "zip", "enumerate", "type", "isinstance", "IndexError", "ValueError")

# identifiers with a meaning in the generated text (Coq keywords + the vocabulary the translator emits)
RESERVED = set("""fun forall exists match with end if then else let in as return fix cofix struct Type Prop Set at
ret raise bind lift random randint randrange sample2 getI setI for_each qltb Qle_bool inject_Z negb andb orb zlen
py_range py_range3 py_slice py_slice_assign py_sub py_get py_set repeat zip zip3 py_enumerate py_type_call truthy
is_sequence py_repeat py_len py_iter val_of_bound unmodelled Some None true false fst snd pair Z Q nat bool list option
M A B S O I gene bound pyval draw outcome exn Ok Raise Mismatch IndexError ValueError GInt GBool GFloat VInt VSeq VRep
BScalar BSeq mod tt unit where using SProp exists2 IF""".split())
ELT_COQ = {"A": "A", "B": "B", "Z": "Z", "gene": "gene", "bool": "bool"}
SCALARS = ("Z", "Q", "bool", "gene", "val", "A", "B")


def zlit(n):
    return "%d" % n if n >= 0 else "(%d)" % n


def qlit(v):
    fr = Fraction(v)
    n, d = fr.numerator, fr.denominator
    return "(%s # %d)%%Q" % (zlit(n), d)


class Obj(object):
    """a mutable sequence object; `coq` is the Coq variable holding its current contents"""

    def __init__(self, coq, elt, serial, param=None):
        self.coq, self.elt, self.serial, self.param = coq, elt, serial, param
        self.attrs = {}


class V(object):
    """value of an expression: Coq text + type; obj: the sequence object it refers to (if it is a reference);
    atomic: a temporary or a literal (its text keeps its meaning whatever is assigned later)"""

    def __init__(self, text, ty, obj=None, atomic=False):
        self.text, self.ty, self.obj, self.atomic = text, ty, obj, atomic

    @property
    def is_list(self):
        return isinstance(self.ty, tuple) and self.ty[0] == "lst"


class Shared(object):
    """function-wide state shared by all sub-translators"""

    def __init__(self):
        self.temps = 0
        self.used = set()          # Coq identifiers in use
        self.scalar_coq = {}       # python scalar name -> Coq identifier
        self.objs = []             # every object, in order of creation
        self.order = {}            # Coq identifier -> rank of first definition (canonical tuple order)
        self.tokens = {}           # placeholder -> replacement text
        self.iterated = set()      # pyval names already passed to py_iter

    def rank(self, coq):
        return self.order.setdefault(coq, len(self.order))


class FnTr(object):
    """Translator of one function body."""

    def __init__(self, sh, env, ret_kind, params, can_return=True, mut=None, asg=None, loopvars=()):
        self.sh = sh
        self.loopvars = tuple(loopvars)   # loop variables of the enclosing loops (not assignable)
        self.env = dict(env)            # python name -> ("obj", Obj) | ("val", coq name, type)
        self.ret_kind = ret_kind
        self.params = params            # the parameter objects that must be returned
        self.can_return = can_return
        self.mut = mut if mut is not None else []      # objects mutated in the current region
        self.asg = asg if asg is not None else []      # python scalar names assigned in the current region

    # ---- naming ------------------------------------------------------------------------------
    def temp(self):
        self.sh.temps += 1
        return "t'%d" % self.sh.temps

    def check_name(self, node, name):
        if name in RESERVED or not re.fullmatch(r"[A-Za-z][A-Za-z0-9_]*", name):
            refuse(node, "local name %r clashes with the vocabulary of the generated text" % name)
        return name

    def fresh_coq(self, base):
        c, k = base, 1
        while c in self.sh.used:
            k += 1
            c = "%s'%d" % (base, k)
        self.sh.used.add(c)
        self.sh.rank(c)
        return c

    def scalar_coq(self, node, name):
        self.check_name(node, name)
        if name not in self.sh.scalar_coq:
            self.sh.scalar_coq[name] = self.fresh_coq(name)
        return self.sh.scalar_coq[name]

    def new_obj(self, node, name, elt, param=None):
        self.check_name(node, name.split("'")[0])
        o = Obj(self.fresh_coq(name), elt, len(self.sh.objs), param)
        self.sh.objs.append(o)
        return o

    def sub(self, region=False, can_return=None):
        return FnTr(self.sh, self.env, self.ret_kind, self.params,
                    self.can_return if can_return is None else can_return,
                    [] if region else self.mut, [] if region else self.asg, self.loopvars)

    def mutated(self, o):
        if o not in self.mut:
            self.mut.append(o)

    def assigned(self, name):
        if name not in self.asg:
            self.asg.append(name)

    # ---- expressions: return V; effects (reads, draws) are appended to `L` in evaluation order -------
    def expr(self, e, L):
        if isinstance(e, ast.Constant):
            if e.value is True or e.value is False:
                return V("true" if e.value else "false", "bool", atomic=True)
            if isinstance(e.value, int):
                return V(zlit(e.value), "Z", atomic=True)
            if isinstance(e.value, float):
                if e.value != e.value or e.value in (float("inf"), float("-inf")):
                    refuse(e, "non-finite constant")
                return V(qlit(e.value), "Q", atomic=True)
            refuse(e, "constant %r" % (e.value,))
        if isinstance(e, ast.Name):
            if not isinstance(e.ctx, ast.Load):
                refuse(e, "name in store context")
            b = self.env.get(e.id)
            if b is None:
                refuse(e, "unknown name %s" % e.id)
            if b[0] == "obj":
                return V(b[1].coq, ("lst", b[1].elt), obj=b[1])
            return V(b[1], b[2])
        if isinstance(e, ast.Attribute):
            if isinstance(e.value, ast.Name) and isinstance(e.ctx, ast.Load):
                b = self.env.get(e.value.id)
                if b is not None and b[0] == "obj" and e.attr in b[1].attrs:
                    o = b[1].attrs[e.attr]
                    return V(o.coq, ("lst", o.elt), obj=o)
            refuse(e, "attribute .%s" % e.attr)
        if isinstance(e, ast.Subscript):
            return self.subscript(e, L)
        if isinstance(e, ast.UnaryOp):
            if isinstance(e.op, ast.Not):
                v = self.expr(e.operand, L)
                if v.ty == "bool":
                    return V("(negb %s)" % v.text, "bool")
                if v.ty == "gene":
                    return V("(negb (truthy %s))" % v.text, "bool")
                refuse(e, "not of %s" % (v.ty,))
            if isinstance(e.op, ast.USub):
                if isinstance(e.operand, ast.Constant) and isinstance(e.operand.value, int) \
                        and not isinstance(e.operand.value, bool):
                    return V(zlit(-e.operand.value), "Z", atomic=True)
                if isinstance(e.operand, ast.Constant) and isinstance(e.operand.value, float):
                    return V(qlit(-Fraction(e.operand.value)), "Q", atomic=True)
                v = self.expr(e.operand, L)
                if v.ty != "Z":
                    refuse(e, "unary minus of %s" % (v.ty,))
                return V("(- %s)" % v.text, "Z")
            refuse(e, "unary operator %s" % type(e.op).__name__)
        if isinstance(e, ast.BinOp):
            return self.binop(e, L)
        if isinstance(e, ast.BoolOp):
            parts = []
            for k, x in enumerate(e.values):
                n = len(L)
                v = self.expr(x, L)
                if k > 0 and len(L) != n:
                    refuse(x, "effects in a short-circuited operand")
                if v.ty != "bool":
                    refuse(x, "and/or on %s" % (v.ty,))
                parts.append(v.text)
            op = " && " if isinstance(e.op, ast.And) else " || "
            return V("(%s)" % op.join(parts), "bool")
        if isinstance(e, ast.Compare):
            return self.compare(e, L)
        if isinstance(e, ast.IfExp):
            c = self.expr(e.test, L)
            if c.ty != "bool":
                refuse(e, "condition of type %s" % (c.ty,))
            n = len(L)
            a = self.expr(e.body, L)
            b = self.expr(e.orelse, L)
            if len(L) != n:
                refuse(e, "effects inside a conditional expression")
            if a.ty != b.ty or a.ty not in ("Z", "bool"):
                refuse(e, "conditional expression of types %s, %s" % (a.ty, b.ty))
            return V("(if %s then %s else %s)" % (c.text, a.text, b.text), a.ty)
        if isinstance(e, ast.Call):
            return self.call(e, L)
        refuse(e, "expression outside the grammar")

    def seq(self, e, L, what):
        v = self.expr(e, L)
        if not v.is_list:
            refuse(e, "%s of %s" % (what, v.ty))
        return v

    def zexpr(self, e, L, what):
        v = self.expr(e, L)
        if v.ty != "Z":
            refuse(e, "%s of type %s, expected int" % (what, v.ty))
        return v

    def optz(self, e, L):
        if e is None or (isinstance(e, ast.Constant) and e.value is None):
            return "None"
        return "(Some %s)" % self.zexpr(e, L, "slice bound").text

    def slice_parts(self, s, L, store):
        lo = self.optz(s.lower, L)
        hi = self.optz(s.upper, L)
        step = 1
        if s.step is not None and not (isinstance(s.step, ast.Constant) and s.step.value is None):
            st = s.step
            if isinstance(st, ast.UnaryOp) and isinstance(st.op, ast.USub) and isinstance(st.operand, ast.Constant) \
                    and type(st.operand.value) is int:
                step = -st.operand.value
            elif isinstance(st, ast.Constant) and type(st.value) is int:
                step = st.value
            else:
                refuse(s, "slice step is not an integer constant")
            if step == 0:
                refuse(s, "slice step 0")
        if store and step != 1:
            refuse(s, "assignment to an extended slice")
        return lo, hi, step

    def subscript(self, e, L):
        if not isinstance(e.ctx, ast.Load):
            refuse(e, "subscript in store context")
        x = self.seq(e.value, L, "subscript")
        if isinstance(e.slice, ast.Slice):
            lo, hi, step = self.slice_parts(e.slice, L, False)
            return V("(py_slice %s %s %s %s)" % (x.text, lo, hi, zlit(step)), x.ty)
        if isinstance(e.slice, ast.Tuple):
            refuse(e, "multi-dimensional subscript")
        i = self.zexpr(e.slice, L, "index")
        t = self.temp()
        L.append("%s <- getI %s %s ;;" % (t, x.text, i.text))
        return V(t, x.ty[1], atomic=True)

    def binop(self, e, L):
        # [c] * n
        if isinstance(e.op, ast.Mult) and isinstance(e.left, ast.List):
            if len(e.left.elts) != 1:
                refuse(e, "list display with %d elements" % len(e.left.elts))
            c = self.expr(e.left.elts[0], L)
            if not c.atomic or c.ty not in ("Z", "bool"):
                refuse(e, "list display of a non-constant")
            n = self.zexpr(e.right, L, "list repetition count")
            return V("(repeat %s (Z.to_nat %s))" % (c.text, n.text), ("lst", c.ty))
        ops = {ast.Add: "+", ast.Sub: "-", ast.Mult: "*", ast.Mod: "mod", ast.FloorDiv: "/"}
        if type(e.op) not in ops:
            refuse(e, "binary operator %s" % type(e.op).__name__)
        a = self.expr(e.left, L)
        b = self.expr(e.right, L)
        if a.ty != "Z" or b.ty != "Z":
            refuse(e, "arithmetic on %s, %s" % (a.ty, b.ty))
        return V("(%s %s %s)" % (a.text, ops[type(e.op)], b.text), "Z")

    def compare(self, e, L):
        if len(e.ops) != 1:
            refuse(e, "chained comparison")
        op = e.ops[0]
        a = self.expr(e.left, L)
        b = self.expr(e.comparators[0], L)
        if a.ty == "Z" and b.ty == "Z":
            zops = {ast.Lt: "<?", ast.LtE: "<=?", ast.Gt: ">?", ast.GtE: ">=?", ast.Eq: "=?"}
            if isinstance(op, ast.NotEq):
                return V("(negb (%s =? %s))" % (a.text, b.text), "bool")
            if type(op) not in zops:
                refuse(e, "comparison %s on ints" % type(op).__name__)
            return V("(%s %s %s)" % (a.text, zops[type(op)], b.text), "bool")

        def asq(v, node):
            if v.ty == "Q":
                return v.text
            if v.ty == "Z" and isinstance(node, ast.Constant):
                return "(inject_Z %s)" % v.text
            return None
        qa, qb = asq(a, e.left), asq(b, e.comparators[0])
        if qa is not None and qb is not None and "Q" in (a.ty, b.ty):
            if isinstance(op, ast.Lt):
                return V("(qltb %s %s)" % (qa, qb), "bool")
            if isinstance(op, ast.Gt):
                return V("(qltb %s %s)" % (qb, qa), "bool")
            if isinstance(op, ast.LtE):
                return V("(Qle_bool %s %s)" % (qa, qb), "bool")
            if isinstance(op, ast.GtE):
                return V("(Qle_bool %s %s)" % (qb, qa), "bool")
            refuse(e, "comparison %s on floats" % type(op).__name__)
        refuse(e, "comparison of %s with %s" % (a.ty, b.ty))

    def plain_args(self, e, n):
        if e.keywords or len(e.args) not in (n if isinstance(n, tuple) else (n,)) \
                or any(isinstance(a, ast.Starred) for a in e.args):
            refuse(e, "call with unexpected arguments")

    def is_builtin(self, f, name):
        return isinstance(f, ast.Name) and f.id == name and name not in self.env

    def is_random(self, f, name):
        return isinstance(f, ast.Attribute) and f.attr == name and isinstance(f.value, ast.Name) \
            and f.value.id == "random" and "random" not in self.env

    def call(self, e, L):
        f = e.func
        if self.is_builtin(f, "len"):
            self.plain_args(e, 1)
            v = self.expr(e.args[0], L)
            if v.is_list:
                return V("(zlen %s)" % v.text, "Z")
            if v.ty == "val":
                t = self.temp()
                L.append("%s <- py_len %s ;;" % (t, v.text))
                return V(t, "Z", atomic=True)
            refuse(e, "len of %s" % (v.ty,))
        for nm, fn in (("min", "Z.min"), ("max", "Z.max")):
            if self.is_builtin(f, nm):
                if e.keywords or len(e.args) < 2 or any(isinstance(a, ast.Starred) for a in e.args):
                    refuse(e, "%s with unexpected arguments" % nm)
                vs = [self.zexpr(a, L, "argument of %s" % nm).text for a in e.args]
                out = vs[-1]
                for v in reversed(vs[:-1]):
                    out = "(%s %s %s)" % (fn, v, out)
                return V(out, "Z")
        if self.is_random(f, "random"):
            self.plain_args(e, 0)
            t = self.temp()
            L.append("%s <- random ;;" % t)
            return V(t, "Q", atomic=True)
        if self.is_random(f, "randint"):
            self.plain_args(e, 2)
            a = self.zexpr(e.args[0], L, "randint bound")
            b = self.zexpr(e.args[1], L, "randint bound")
            t = self.temp()
            L.append("%s <- randint %s %s ;;" % (t, a.text, b.text))
            return V(t, "Z", atomic=True)
        if self.is_random(f, "randrange"):
            self.plain_args(e, 1)
            a = self.zexpr(e.args[0], L, "randrange bound")
            t = self.temp()
            L.append("%s <- randrange %s ;;" % (t, a.text))
            return V(t, "Z", atomic=True)
        if self.is_builtin(f, "isinstance"):
            self.plain_args(e, 2)
            if not (isinstance(e.args[1], ast.Name) and e.args[1].id == "Sequence" and "Sequence" not in self.env):
                refuse(e, "isinstance against something other than Sequence")
            v = self.expr(e.args[0], L)
            if v.ty != "val":
                refuse(e, "isinstance of %s" % (v.ty,))
            return V("(is_sequence %s)" % v.text, "bool")
        if self.is_builtin(f, "repeat"):
            self.plain_args(e, 2)
            v = self.expr(e.args[0], L)
            if v.ty != "val":
                refuse(e, "repeat of %s" % (v.ty,))
            n = self.zexpr(e.args[1], L, "repeat count")
            t = self.temp()
            L.append("%s <- py_repeat %s %s ;;" % (t, v.text, n.text))
            return V(t, "val", atomic=True)
        # type(g)(b)
        if isinstance(f, ast.Call) and self.is_builtin(f.func, "type"):
            self.plain_args(f, 1)
            self.plain_args(e, 1)
            g = self.expr(f.args[0], L)
            b = self.expr(e.args[0], L)
            if g.ty != "gene" or b.ty != "bool":
                refuse(e, "type(%s)(%s)" % (g.ty, b.ty))
            return V("(py_type_call %s %s)" % (g.text, b.text), "gene")
        refuse(e, "call outside the grammar")

    # ---- statements ----------------------------------------------------------------------------
    @staticmethod
    def terminates(stmts):
        if not stmts:
            return False
        s = stmts[-1]
        if isinstance(s, (ast.Return, ast.Raise)):
            return True
        if isinstance(s, ast.If):
            return FnTr.terminates(s.body) and FnTr.terminates(s.orelse)
        return False

    def bind_scalar(self, node, name, v, L):
        """name = v for a non-sequence value"""
        if v.ty not in SCALARS:
            refuse(node, "assignment of a value of type %s" % (v.ty,))
        old = self.env.get(name)
        if old is not None and old[0] == "val" and old[2] != v.ty:
            refuse(node, "%s changes type from %s to %s" % (name, old[2], v.ty))
        c = self.scalar_coq(node, name)
        if L and v.atomic and L[-1].startswith("%s <- " % v.text):
            L[-1] = "%s <- %s" % (c, L[-1][len(v.text) + 4:])
        else:
            L.append("let %s := %s in" % (c, v.text))
        self.env[name] = ("val", c, v.ty)
        self.assigned(name)

    def bind_name(self, node, name, v, L):
        if name in self.loopvars:
            refuse(node, "assignment to the loop variable %s" % name)
        if v.obj is not None:
            self.check_name(node, name)
            self.env[name] = ("obj", v.obj)          # alias
            self.assigned(name)
        elif v.is_list:
            o = self.new_obj(node, name, v.ty[1])
            L.append("let %s := %s in" % (o.coq, v.text))
            self.env[name] = ("obj", o)
            self.assigned(name)
        else:
            self.bind_scalar(node, name, v, L)

    def store(self, t, v, L):
        """t[...] = v ; t is a Subscript in store context"""
        x = self.expr(t.value, L)
        if x.obj is None:
            refuse(t, "store into something that is not a sequence object")
        o = x.obj
        if isinstance(t.slice, ast.Slice):
            lo, hi, _ = self.slice_parts(t.slice, L, True)
            if not v.is_list or v.ty[1] != o.elt:
                refuse(t, "slice of %s elements assigned a %s" % (o.elt, v.ty))
            L.append("let %s := py_slice_assign %s %s %s %s in" % (o.coq, o.coq, lo, hi, v.text))
        elif isinstance(t.slice, ast.Tuple):
            refuse(t, "multi-dimensional subscript")
        else:
            i = self.zexpr(t.slice, L, "index")
            if v.ty != o.elt:
                refuse(t, "element of type %s assigned a %s" % (o.elt, v.ty))
            L.append("%s <- setI %s %s %s ;;" % (o.coq, o.coq, i.text, v.text))
        self.mutated(o)

    def capture(self, v, L):
        """give a value that is not a reference a text that later assignments cannot change"""
        if v.obj is not None or v.atomic:
            return v
        t = self.temp()
        L.append("let %s := %s in" % (t, v.text))
        return V(t, v.ty, atomic=True)

    def assign(self, s, L):
        if len(s.targets) != 1:
            refuse(s, "multiple assignment")
        t = s.targets[0]
        if isinstance(t, ast.Name):
            self.bind_name(t, t.id, self.expr(s.value, L), L)
        elif isinstance(t, ast.Subscript):
            v = self.capture(self.expr(s.value, L), L) if isinstance(t.slice, ast.Slice) else self.expr(s.value, L)
            self.store(t, v, L)
        elif isinstance(t, ast.Tuple):
            self.assign_tuple(s, t, L)
        else:
            refuse(t, "assignment target")

    def assign_tuple(self, s, t, L):
        n = len(t.elts)
        if any(not isinstance(x, (ast.Name, ast.Subscript)) for x in t.elts):
            refuse(t, "assignment target")
        val = s.value
        # a, b = random.sample(range(n), 2)
        if isinstance(val, ast.Call) and self.is_random(val.func, "sample"):
            self.plain_args(val, 2)
            r, k = val.args
            if not (isinstance(k, ast.Constant) and type(k.value) is int and k.value == 2 and n == 2
                    and isinstance(r, ast.Call) and self.is_builtin(r.func, "range")
                    and all(isinstance(x, ast.Name) for x in t.elts) and t.elts[0].id != t.elts[1].id):
                refuse(s, "random.sample not in the form a, b = random.sample(range(n), 2)")
            self.plain_args(r, 1)
            m = self.zexpr(r.args[0], L, "range bound")
            cs = []
            for x in t.elts:
                if x.id in self.loopvars:
                    refuse(x, "assignment to the loop variable %s" % x.id)
                old = self.env.get(x.id)
                if old is not None and (old[0] != "val" or old[2] != "Z"):
                    refuse(x, "%s changes type" % x.id)
                cs.append(self.scalar_coq(x, x.id))
            L.append("'(%s, %s) <- sample2 %s ;;" % (cs[0], cs[1], m.text))
            for x, c in zip(t.elts, cs):
                self.env[x.id] = ("val", c, "Z")
                self.assigned(x.id)
            return
        if not (isinstance(val, ast.Tuple) and len(val.elts) == n):
            refuse(s, "tuple assignment from something other than a tuple of the same length")
        vals = [self.expr(x, L) for x in val.elts]
        if all(isinstance(x, ast.Name) for x in t.elts):
            if len(set(x.id for x in t.elts)) != n:
                refuse(t, "repeated name in assignment target")
            # simultaneous: all right-hand sides are evaluated in the old environment
            pats, texts, post = [], [], []
            for x, v in zip(t.elts, vals):
                if x.id in self.loopvars:
                    refuse(x, "assignment to the loop variable %s" % x.id)
                if v.obj is not None:
                    self.check_name(x, x.id)
                    post.append((x.id, ("obj", v.obj)))
                elif v.is_list:
                    o = self.new_obj(x, x.id, v.ty[1])
                    pats.append(o.coq)
                    texts.append(v.text)
                    post.append((x.id, ("obj", o)))
                else:
                    if v.ty not in SCALARS:
                        refuse(x, "assignment of a value of type %s" % (v.ty,))
                    old = self.env.get(x.id)
                    if old is not None and old[0] == "val" and old[2] != v.ty:
                        refuse(x, "%s changes type from %s to %s" % (x.id, old[2], v.ty))
                    c = self.scalar_coq(x, x.id)
                    pats.append(c)
                    texts.append(v.text)
                    post.append((x.id, ("val", c, v.ty)))
            if len(pats) == 1:
                L.append("let %s := %s in" % (pats[0], texts[0]))
            elif pats:
                L.append("let '(%s) := (%s) in" % (", ".join(pats), ", ".join(texts)))
            for name, b in post:
                self.env[name] = b
                self.assigned(name)
            return
        # some target is a subscript: values first (captured), then the targets from left to right
        vals = [self.capture(v, L) for v in vals]
        for x, v in zip(t.elts, vals):
            if isinstance(x, ast.Name):
                self.bind_name(x, x.id, v, L)
            else:
                self.store(x, v, L)

    def augassign(self, s, L):
        ops = {ast.Add: "+", ast.Sub: "-", ast.Mult: "*"}
        if not isinstance(s.target, ast.Name) or type(s.op) not in ops:
            refuse(s, "augmented assignment form")
        b = self.env.get(s.target.id)
        if b is None or b[0] != "val" or b[2] != "Z":
            refuse(s, "augmented assignment to something other than an int name")
        v = self.zexpr(s.value, L, "operand")
        self.bind_scalar(s, s.target.id, V("(%s %s %s)" % (b[1], ops[type(s.op)], v.text), "Z"), L)

    # ---- joins ---------------------------------------------------------------------------------
    def outer_objs(self, n_before, muts):
        return [o for o in muts if o.serial < n_before]

    def token(self, make):
        k = "@@%d@@" % (len(self.sh.tokens) + 1)
        self.sh.tokens[k] = make
        return k

    @staticmethod
    def tuple_text(names):
        return names[0] if len(names) == 1 else "(%s)" % ", ".join(names)

    @staticmethod
    def tuple_pat(names):
        return names[0] if len(names) == 1 else "'(%s)" % ", ".join(names)

    def block(self, stmts, fall, ind):
        """lines of Gallina (type M T) for the statement list; `fall(tr)` gives the text used when control falls
        off the end (None: falling off the end is refused)."""
        pad = "  " * ind
        L = []

        def out(lines, tail):
            return "\n".join([pad + x for x in lines] + [tail])
        if not stmts:
            if fall is None:
                refuse("FunctionDef", "control reaches the end of the function without return")
            return pad + fall(self)
        s, rest = stmts[0], stmts[1:]
        if isinstance(s, ast.Expr):
            if isinstance(s.value, ast.Constant) and isinstance(s.value.value, str):
                return self.block(rest, fall, ind)
            refuse(s, "expression statement")
        if isinstance(s, ast.Pass):
            return self.block(rest, fall, ind)
        if isinstance(s, ast.Return):
            if rest:
                refuse(rest[0], "unreachable statement")
            if not self.can_return:
                refuse(s, "return inside a loop or inside an if whose other branch continues")
            return pad + self.ret(s)
        if isinstance(s, ast.Raise):
            if rest:
                refuse(rest[0], "unreachable statement")
            tail = self.raise_(s, L)            # L: what evaluating the message does first (len() of a bound)
            return out(L, pad + tail)
        if isinstance(s, ast.Assign):
            self.assign(s, L)
            return out(L, self.block(rest, fall, ind))
        if isinstance(s, ast.AugAssign):
            self.augassign(s, L)
            return out(L, self.block(rest, fall, ind))
        if isinstance(s, ast.If):
            return self.if_(s, rest, fall, ind)
        if isinstance(s, ast.For):
            return self.for_(s, rest, fall, ind)
        refuse(s, "statement outside the grammar")

    def ret(self, s):
        v = s.value
        n = {"pair": 2, "espair": 2, "single": 1}[self.ret_kind]
        if not (isinstance(v, ast.Tuple) and len(v.elts) == n):
            refuse(s, "return of something other than a tuple of %d" % n)
        objs = []
        for x in v.elts:
            w = self.expr(x, [])
            if w.obj is None or w.obj.param is None or w.obj not in self.params:
                refuse(s, "returns something other than the argument objects")
            objs.append(w.obj)
        if self.ret_kind == "espair":
            return "ret (%s)" % ", ".join("(%s, %s)" % (o.coq, o.attrs["strategy"].coq) for o in objs)
        return "ret %s" % self.tuple_text([o.coq for o in objs])

    def raise_(self, s, L):
        x = s.exc
        if s.cause is not None or x is None:
            refuse(s, "raise form")
        if isinstance(x, ast.Call):
            if x.keywords or len(x.args) > 1:
                refuse(s, "exception arguments")
            if not (isinstance(x.func, ast.Name) and x.func.id in ("IndexError", "ValueError") and x.func.id not in self.env):
                refuse(s, "exception type")
            for a in x.args:
                self.message(a, L)
            x = x.func
        if not (isinstance(x, ast.Name) and x.id in ("IndexError", "ValueError") and x.id not in self.env):
            refuse(s, "exception type")
        return "raise %s" % x.id

    def message(self, a, L):
        """the exception message: a string, or "fmt" % (ints...); evaluating the ints may only call len()"""
        if isinstance(a, ast.Constant) and isinstance(a.value, str):
            return
        if isinstance(a, ast.BinOp) and isinstance(a.op, ast.Mod) and isinstance(a.left, ast.Constant) \
                and isinstance(a.left.value, str):
            args = a.right.elts if isinstance(a.right, ast.Tuple) else [a.right]
            specs = re.findall(r"%(.)", a.left.value)
            if len(specs) != len(args) or any(c not in "dsri" for c in specs):
                refuse(a, "format string of the exception message")
            for x in args:
                n = len(L)
                v = self.expr(x, L)
                if v.ty != "Z" or any(" <- py_len " not in l for l in L[n:]):
                    refuse(a, "argument of the exception message")
            return
        refuse(a, "exception message")

    def if_(self, s, rest, fall, ind):
        pad = "  " * ind
        L = []
        c = self.expr(s.test, L)
        if c.ty != "bool":
            refuse(s, "condition of type %s" % (c.ty,))
        pre = "".join(pad + x + "\n" for x in L)
        tb, te = self.terminates(s.body), self.terminates(s.orelse)
        if tb or te:
            if tb and te and rest:
                refuse(rest[0], "unreachable statement")
            a, b = self.sub(), self.sub()
            ta = a.block(list(s.body) + ([] if tb else list(rest)), None if tb else fall, ind + 1)
            tb_ = b.block(list(s.orelse) + ([] if te else list(rest)), None if te else fall, ind + 1)
            return pre + pad + "if %s then (\n%s\n%s) else (\n%s\n%s)" % (c.text, ta, pad, tb_, pad)
        # neither branch terminates: thread what either branch changes
        n_before = len(self.sh.objs)
        a, b = self.sub(region=True, can_return=False), self.sub(region=True, can_return=False)
        sites = []

        def site(tr):
            sites.append(tr)
            return tok
        tok = self.token(None)
        ta = a.block(list(s.body), site, ind + 1)
        tb_ = b.block(list(s.orelse), site, ind + 1)
        names = []
        for tr in (a, b):
            for o in self.outer_objs(n_before, tr.mut):
                if o.coq not in names:
                    names.append(o.coq)
                self.mutated(o)
        scal = []
        for tr in (a, b):
            for nm in tr.asg:
                if nm not in scal:
                    scal.append(nm)
        for nm in scal:
            bs = [tr.env.get(nm) for tr in sites]
            if any(x is None for x in bs):
                # assigned on one path only: if it had no value before, it is local to that branch
                # (a later read is then an unknown name and refused)
                if nm in self.env:
                    refuse(s, "%s may be unassigned after the if" % nm)
                continue
            if any(x[0] == "obj" for x in bs):
                if any(x != bs[0] for x in bs):
                    refuse(s, "%s names different objects after the two branches" % nm)
                if bs[0][1].serial >= n_before:
                    refuse(s, "%s names an object created inside the if" % nm)
            else:
                if any(x[0] != "val" or x[1:] != bs[0][1:] for x in bs):
                    refuse(s, "%s has different types in the two branches" % nm)
                if bs[0][1] not in names:
                    names.append(bs[0][1])
            self.env[nm] = bs[0]
            self.assigned(nm)
        if not names:
            refuse(s, "if statement without effect on the state")
        names.sort(key=self.sh.rank)
        self.sh.tokens[tok] = "ret %s" % self.tuple_text(names)
        head = pad + "%s <- (if %s then (\n%s\n%s) else (\n%s\n%s)) ;;\n" % (self.tuple_pat(names), c.text, ta, pad, tb_, pad)
        return pre + head + self.block(rest, fall, ind)

    # ---- loops ---------------------------------------------------------------------------------
    def range_text(self, r, L):
        self.plain_args(r, (1, 2, 3))
        a = [self.zexpr(x, L, "range argument") for x in r.args]
        if len(a) == 1:
            return "(py_range %s)" % a[0].text
        if len(a) == 2:
            return "(py_range3 %s %s 1)" % (a[0].text, a[1].text)
        if not (a[2].atomic and re.fullmatch(r"\(?-?\d+\)?", a[2].text) and a[2].text.strip("()") not in ("0", "-0")):
            refuse(r, "range step is not a non-zero integer constant")
        return "(py_range3 %s %s %s)" % (a[0].text, a[1].text, a[2].text)

    def iterable(self, it, L, guard):
        """-> (list text, element type or nested pattern of types).  guard collects objects that the loop
        body must not mutate."""
        if isinstance(it, ast.Call) and self.is_builtin(it.func, "range"):
            return self.range_text(it, L), "Z"
        if isinstance(it, ast.Call) and self.is_builtin(it.func, "zip"):
            self.plain_args(it, (2, 3))
            parts = [self.iterable(x, L, guard) for x in it.args]
            if any(isinstance(p[1], tuple) for p in parts):
                refuse(it, "nested zip")
            return "(%s %s)" % ("zip" if len(parts) == 2 else "zip3", " ".join(p[0] for p in parts)), \
                tuple(p[1] for p in parts)
        if isinstance(it, ast.Call) and self.is_builtin(it.func, "enumerate"):
            self.plain_args(it, 1)
            txt, ty = self.iterable(it.args[0], L, guard)
            return "(py_enumerate %s)" % txt, ("Z", ty)
        v = self.expr(it, L)
        if v.ty == "val":
            if not isinstance(it, ast.Name) or it.id in self.sh.iterated or self.loopvars:
                refuse(it, "a bound value is iterated more than once")
            self.sh.iterated.add(it.id)
            t = self.temp()
            L.append("%s <- py_iter %s ;;" % (t, v.text))
            return t, "Z"
        if v.is_list:
            if v.obj is not None:
                guard.append(v.obj)
                return v.text, v.ty[1]
            t = self.temp()
            L.append("let %s := %s in" % (t, v.text))
            return t, v.ty[1]
        refuse(it, "iteration over %s" % (v.ty,))

    def target_pat(self, t, ty, body, names):
        """loop target against the element type -> Coq pattern; binds the names in `body`"""
        if isinstance(ty, tuple):
            if not (isinstance(t, ast.Tuple) and len(t.elts) == len(ty)):
                refuse(t, "loop target does not unpack %d values" % len(ty))
            return "(%s)" % ", ".join(self.target_pat(x, y, body, names) for x, y in zip(t.elts, ty))
        if not isinstance(t, ast.Name):
            refuse(t, "loop target")
        if t.id in names:
            refuse(t, "repeated name in loop target")
        names.append(t.id)
        c = body.scalar_coq(t, t.id)
        old = self.env.get(t.id)
        if old is not None:
            refuse(t, "loop variable %s shadows an earlier binding" % t.id)
        body.env[t.id] = ("val", c, ty)
        return c

    def for_(self, s, rest, fall, ind):
        pad = "  " * ind
        if s.orelse:
            refuse(s, "for ... else")
        L = []
        guard = []
        idx, ty = self.iterable(s.iter, L, guard)
        n_before = len(self.sh.objs)
        body = self.sub(region=True, can_return=False)
        names = []
        pat = self.target_pat(s.target, ty, body, names)
        if isinstance(ty, tuple):
            pat = "'" + pat
        body.loopvars = tuple(self.loopvars) + tuple(names)
        sites = []

        def site(tr):
            sites.append(tr)
            return tok
        tok = self.token(None)
        tbody = body.block(list(s.body), site, ind + 2)
        state = []
        for o in self.outer_objs(n_before, body.mut):
            if o in guard:
                refuse(s, "the loop body mutates the sequence being iterated")
            state.append(o.coq)
            self.mutated(o)
        for nm in body.asg:
            if nm in names:
                refuse(s, "assignment to the loop variable %s" % nm)
            old = self.env.get(nm)
            if old is None:
                continue                      # first assigned inside the body: local to one iteration
            for tr in sites:
                new = tr.env.get(nm)
                if old[0] == "obj" or new is None or new[0] == "obj":
                    if new != old:
                        refuse(s, "%s is rebound to another object inside the loop" % nm)
                elif new[1:] != old[1:]:
                    refuse(s, "%s changes type inside the loop" % nm)
            if old[0] == "val":
                if old[1] not in state:
                    state.append(old[1])
                self.assigned(nm)
        # names bound before the loop must still name the same thing at the end of the body
        for tr in sites:
            for nm, old in self.env.items():
                new = tr.env.get(nm)
                if old[0] == "obj" and new != old:
                    refuse(s, "%s is rebound inside the loop" % nm)
        if not state:
            refuse(s, "loop without effect on the state")
        state.sort(key=self.sh.rank)
        self.sh.tokens[tok] = "ret %s" % self.tuple_text(state)
        text = "".join(pad + x + "\n" for x in L)
        text += pad + "%s <- for_each %s (fun %s %s =>\n%s\n%s  ) %s ;;\n" % (
            self.tuple_pat(state), idx, pat, self.tuple_pat(state), tbody, pad, self.tuple_text(state))
        # names first bound inside the body do not survive the loop
        return text + self.block(rest, fall, ind)


# ---- module level ------------------------------------------------------------------------------
def module_bindings(tree):
    """name -> list of (kind, module, original name, node) for everything bound at module level"""
    bound = {}

    def visit(stmts):
        for n in stmts:
            if isinstance(n, ast.Import):
                for a in n.names:
                    bound.setdefault((a.asname or a.name).split(".")[0], []).append(("import", None, a.name, n))
            elif isinstance(n, ast.ImportFrom):
                for a in n.names:
                    bound.setdefault(a.asname or a.name, []).append(("from", n.module, a.name, n))
            elif isinstance(n, (ast.FunctionDef, ast.AsyncFunctionDef, ast.ClassDef)):
                bound.setdefault(n.name, []).append(("def", None, None, n))
            elif isinstance(n, (ast.Assign, ast.AugAssign, ast.AnnAssign, ast.For, ast.With, ast.Delete)):
                for x in ast.walk(n):
                    if isinstance(x, ast.Name) and isinstance(x.ctx, (ast.Store, ast.Del)):
                        bound.setdefault(x.id, []).append(("assign", None, None, x))
            elif isinstance(n, ast.Try):
                visit(n.body)
                for h in n.handlers:
                    if h.name:
                        bound.setdefault(h.name, []).append(("assign", None, None, h))
                    visit(h.body)
                visit(n.orelse)
                visit(n.finalbody)
            elif isinstance(n, (ast.If, ast.While)):
                visit(n.body)
                visit(n.orelse)
            elif isinstance(n, ast.Expr):
                pass
            else:
                refuse(n, "module-level statement")
    visit(tree.body)
    return bound


def check_module(tree):
    for n in ast.walk(tree):
        if isinstance(n, (ast.Global, ast.Nonlocal)):
            refuse(n, "global/nonlocal declaration")
    bound = module_bindings(tree)
    for b in BUILTINS_USED:
        if b in bound:
            refuse(bound[b][0][3], "builtin %s is rebound at module level" % b)
    for nm, (kind, mods) in EXPECTED_IMPORTS.items():
        bs = bound.get(nm, [])
        if not bs:
            refuse("Module", "%s is not imported" % nm)
        for k, mod, orig, node in bs:
            if k != kind or orig != nm or (mods is not None and mod not in mods):
                refuse(node, "%s is bound by something other than the expected import" % nm)
    return bound


def local_bindings(fn):
    out = set()
    for n in ast.walk(fn):
        if isinstance(n, ast.Name) and isinstance(n.ctx, (ast.Store, ast.Del)):
            out.add(n.id)
        elif isinstance(n, ast.arg):
            out.add(n.arg)
        elif isinstance(n, (ast.FunctionDef, ast.AsyncFunctionDef, ast.ClassDef, ast.Lambda)) and n is not fn:
            refuse(n, "nested definition")
        elif isinstance(n, (ast.Import, ast.ImportFrom)):
            refuse(n, "import inside the function")
        elif isinstance(n, ast.NamedExpr):
            refuse(n, "assignment expression")
    return out


def result_type(params, ret):
    def lst(e):
        return "list %s" % ELT_COQ[e]
    if ret == "single":
        return "(%s)" % lst(params[0][1])
    if ret == "pair":
        return "(%s * %s)" % (lst(params[0][1]), lst(params[1][1]))
    return "((%s * %s) * (%s * %s))" % (lst(params[0][1]), lst(params[0][2]), lst(params[1][1]), lst(params[1][2]))


def translate_function(fn, name, params, ret, bound):
    """-> Gallina text of `Definition gen_<name> ...` (raises Refuse)"""
    if fn.decorator_list:
        refuse(fn, "decorated function")
    a = fn.args
    if a.posonlyargs or a.kwonlyargs or a.kw_defaults or a.defaults or a.vararg or a.kwarg:
        refuse(fn, "parameter form")
    if len(a.args) != len(params):
        refuse(fn, "%d parameters, expected %d" % (len(a.args), len(params)))
    loc = local_bindings(fn)
    for nm in list(BUILTINS_USED) + list(EXPECTED_IMPORTS):
        if nm in loc:
            refuse(fn, "%s is rebound inside the function" % nm)
    sh = Shared()
    tr = FnTr(sh, {}, ret, [])
    pre, binders = [], []
    pobjs = []
    for k, (arg, p) in enumerate(zip(a.args, params)):
        nm = arg.arg
        if nm in tr.env:
            refuse(arg, "repeated parameter")
        if p[0] == "list":
            o = tr.new_obj(arg, nm, p[1], param=k)
            if o.coq != nm:
                refuse(arg, "parameter name")
            tr.env[nm] = ("obj", o)
            pobjs.append(o)
            binders.append("(%s : list %s)" % (nm, ELT_COQ[p[1]]))
        elif p[0] == "es":
            tr.check_name(arg, nm)
            binders.append("(%s : list %s * list %s)" % (nm, ELT_COQ[p[1]], ELT_COQ[p[2]]))
            o = tr.new_obj(arg, nm, p[1], param=k)
            st = tr.new_obj(arg, "%s'strategy" % nm, p[2])
            if o.coq != nm:
                refuse(arg, "parameter name")
            o.attrs = {"strategy": st}
            pre.append("let %s := snd %s in" % (st.coq, nm))
            pre.append("let %s := fst %s in" % (nm, nm))
            tr.env[nm] = ("obj", o)
            pobjs.append(o)
        elif p[0] == "Q":
            c = tr.scalar_coq(arg, nm)
            tr.env[nm] = ("val", c, "Q")
            binders.append("(%s : Q)" % c)
        elif p[0] == "bound":
            c = tr.scalar_coq(arg, nm)
            tr.env[nm] = ("val", c, "val")
            binders.append("(%s : bound)" % c)
            pre.append("let %s := val_of_bound %s in" % (c, c))
    tr.params = pobjs
    body = tr.block(list(fn.body), None, 1)
    for _ in range(len(sh.tokens) + 1):
        for k, v in sh.tokens.items():
            body = body.replace(k, v)
    if "@@" in body:
        refuse(fn, "internal: unresolved placeholder")
    head = "Definition gen_%s %s : M %s :=\n" % (name, " ".join(binders), result_type(params, ret))
    return head + "".join("  %s\n" % x for x in pre) + body + ".\n"


HEADER = """(* GENERATED by harness/c09_py2coq.py from %s -- do not edit, never committed *)
From Coq Require Import List ZArith QArith Bool String.
From DV Require Import Base.PyList Model.C09_SeqOps Model.C09_PyRt.
Import ListNotations.
Local Open Scope Z_scope.

"""

ALIAS = {"single": "fun %s => %s %s", "pair": "fun %s => %s %s", "espair": "fun %s => %s %s"}


def alias_text(name, params, ret, why):
    names, binders = [], []
    for k, p in enumerate(params):
        x = "x%d" % k
        names.append(x)
        if p[0] == "list":
            binders.append("(%s : list %s)" % (x, ELT_COQ[p[1]]))
        elif p[0] == "es":
            binders.append("(%s : list %s * list %s)" % (x, ELT_COQ[p[1]], ELT_COQ[p[2]]))
        elif p[0] == "Q":
            binders.append("(%s : Q)" % x)
        else:
            binders.append("(%s : bound)" % x)
    return "(* NOT regenerated: %s *)\nDefinition gen_%s %s : M %s :=\n  %s %s.\n" % (
        why.replace("*)", "* )").replace("(*", "( *"), name, " ".join(binders), result_type(params, ret), name, " ".join(names))


def translate_sources(sources, origin="deap/tools", forced=None):
    """sources: {"crossover.py": text, "mutation.py": text} -> (Gallina text, {function: refusal or None}).
    forced: {function: Refuse} functions to emit as aliases whatever the translation gives (used by the
    harness when a generated definition does not type-check: refused, not guessed)."""
    forced = forced or {}
    trees, modfail = {}, {}
    for f in FILES:
        try:
            trees[f] = ast.parse(sources[f])
            trees[f] = (trees[f], check_module(trees[f]))
        except SyntaxError as e:
            modfail[f] = Refuse("Module", "syntax error: %s" % e)
        except Refuse as e:
            modfail[f] = e
    out = HEADER % origin
    out += "Section Gen.\nContext {A B : Type}.\n\n"
    status = {}
    for name, f, params, ret in SIG:
        try:
            if name in forced:
                raise forced[name]
            if f in modfail:
                raise modfail[f]
            tree, bound = trees[f]
            defs = [n for n in tree.body if isinstance(n, ast.FunctionDef) and n.name == name]
            if len(defs) != 1 or len(bound.get(name, [])) != 1:
                refuse("Module", "%s is defined %d times at module level" % (name, len(bound.get(name, []))))
            text = translate_function(defs[0], name, params, ret, bound)
            status[name] = None
        except Refuse as e:
            status[name] = e
            text = alias_text(name, params, ret, "translator refused %s" % e)
        except RecursionError:
            status[name] = Refuse("FunctionDef", "nesting too deep")
            text = alias_text(name, params, ret, "translator refused: nesting too deep")
        out += text + "\n"
    out += "End Gen.\n\n"
    out += "Definition refused : list string := [%s].\n" % "; ".join('"%s"%%string' % n for n in FUNCTIONS if status[n] is not None)
    return out, status


def translate_repo(repo, forced=None):
    srcs = {}
    for f in FILES:
        p = os.path.join(repo, "deap", "tools", f)
        try:
            srcs[f] = open(p).read()
        except OSError as e:
            srcs[f] = "def (:  # unreadable: %s" % e
    return translate_sources(srcs, os.path.join(repo, "deap", "tools"), forced)


if __name__ == "__main__":
    import sys
    text, status = translate_repo(sys.argv[1] if len(sys.argv) > 1 else "/repo")
    print(text)
    for k, v in status.items():
        sys.stderr.write("%-28s %s\n" % (k, "regenerated" if v is None else "REFUSED %s" % v))
