"""Fail-closed translator: deap/benchmarks/{__init__,binary,gp,movingpeaks,tools}.py -> Gallina.

Tie (T) of property C20 (DESIGN.md 2.3).  The working-tree sources are parsed with Python's `ast`
and every benchmark function (plus the argument transformations of the decorators, the three peak
functions, MovingPeaks.__call__ and the peak-count arithmetic of changePeaks) is compiled into a
Gallina definition that is generic in the numeric class `Num` of coq/Base/C20_Num.v.  The result is
written to coq/Gen/C20_bench_gen.v (never committed).  Proofs/C20_GenEq.v proves, on every run,
that each regenerated definition equals the hand-transcribed published formula of
Model/C20_BenchSpec.v over the reals, so a semantic change of the source breaks a proof obligation.
A construct outside the grammar makes the translation of THAT function fail (class Refuse); the
function is then emitted as an alias of its hand-written specification, is listed in `refused`
(reported in the evidence) and stays tied by the correspondence step only.

Grammar (everything else is refused)
  statements   x = e | x op= e (+ - *) | l[i] = e | l.append(e) | l.extend(e) | return e
               | for pat in iter: block | if c: block [elif/else] (joining the assigned names, or with a
               return in every branch at the end of a block) | while c: block (explicit fuel, option result)
               | docstring
  expressions  int/float constants, names, declared self.<field> reads, + - * / // % **, unary -, abs,
               comparisons (one operator), and/or/not, conditional expressions, tuples/lists, e[i], e[a:b],
               len sum min max zip enumerate range reversed tuple list, generator expressions and list
               comprehensions with <= 2 for-clauses and <= 1 if, sin cos exp sqrt (math.*), pi e,
               reduce(mul | lambda a, b: e, iter[, init]), calls of already translated functions of the
               same module, calls of a lambda bound once to a local name (inlined), calls through a
               function-typed variable, the units  int("".join(map(str, bits)), 2)  int(a / b) on ints
               int(round(e))  int(e),  [c] * n,  numpy.dot(M, v),  optional values (`is None`, truthiness).
  wrappers     the single call  callee(arg, *args, **kargs)  of the wrapped function: `arg` becomes the
               definition <name>_arg (what the wrapped function is fed), its result a parameter.
Types: Z (Python int), T (Python float, class Num), B, lists, pairs, options, functions.
"""
import ast
import json
import os
from fractions import Fraction


class Refuse(Exception):
    def __init__(self, node, why):
        self.node = type(node).__name__ if not isinstance(node, str) else node
        self.line = getattr(node, "lineno", None)
        self.why = why
        Exception.__init__(self, "%s at line %s: %s" % (self.node, self.line, why))


class Retry(Exception):
    pass


def refuse(node, why):
    raise Refuse(node, why)


# ---- types -------------------------------------------------------------------------------------
Z, T, B = "Z", "T", "B"


def L(t):
    return ("L", t)


def P(*ts):
    return ("P", tuple(ts))


def O(t):
    return ("O", t)


def Fn(args, ret):
    return ("F", tuple(args), ret)


LT, LZ, LLT = L(T), L(Z), L(L(T))
PEAKFN = Fn([LT, LT, T, T], T)


def coqtype(t):
    if t == Z:
        return "Z"
    if t == T:
        return "T"
    if t == B:
        return "bool"
    if t[0] == "L":
        return "(list %s)" % coqtype(t[1])
    if t[0] == "P":
        return "(%s)" % " * ".join(coqtype(x) for x in t[1])
    if t[0] == "O":
        return "(option %s)" % coqtype(t[1])
    if t[0] == "F":
        return "(%s)" % " -> ".join([coqtype(x) for x in t[1]] + [coqtype(t[2])])
    raise ValueError(t)


def default_of(t, node=None):
    if t == Z:
        return "0%Z"
    if t == T:
        return "(nofZ 0%Z)"
    if t == B:
        return "false"
    if t[0] == "L":
        return "[]"
    if t[0] == "O":
        return "None"
    if t[0] == "P":
        return "(%s)" % ", ".join(default_of(x) for x in t[1])
    refuse(node or "type", "no default value for type %r" % (t,))


def zlit(i):
    return "(%d)%%Z" % i if i < 0 else "%d%%Z" % i


MATH_FUNCS = {"sin": "nsin", "cos": "ncos", "exp": "nexp", "sqrt": "nsqrt", "log": "nln", "fabs": "nabs"}
MATH_CONSTS = {"pi": "npi", "e": "ne"}
TRANSCENDENTAL = {"nsin", "ncos", "nexp", "nln", "npow", "npown", "matvec"}


def pat(names):
    """right-nested pair pattern / tuple for a list of strings"""
    if len(names) == 1:
        return names[0]
    return "(%s, %s)" % (names[0], pat(names[1:]))


def tuple_pat(names):
    if len(names) == 1:
        return names[0]
    return "'(%s)" % ", ".join(names)


def tuple_val(names):
    if len(names) == 1:
        return names[0]
    return "(%s)" % ", ".join(names)


class FnTr(object):
    """Translates one function body."""

    def __init__(self, mod, fname, params, source, known, math_names, math_module=None, fields=None,
                 callee=None, skip_if=(), fuel=None, numpy_name=None, hints=None):
        self.mod = mod
        self.fname = fname
        self.source = source
        self.known = known              # python name -> (coq name, argtypes, rettype) of translated functions
        self.math_names = math_names    # names imported by `from math import ...`
        self.math_module = math_module  # name under which the math module is visible, or None
        self.numpy_name = numpy_name
        self.fields = fields or {}      # self.<field> -> type
        self.callee = callee            # name of the wrapped function variable (wrappers)
        self.skip_if = set(skip_if)     # `if <name>:` statements declared outside the model
        self.fuel = fuel
        self.hints = hints or {}
        self.env = {}                   # python local name -> type
        self.lambdas = {}               # local name -> (ast.Lambda, env snapshot keys)
        self.params = []                # (coq name, type)
        self.used_fields = []
        for n, t in params:
            self.env[n] = t
            self.params.append(("v_" + n, t))
        self.ops = set()
        self.wrapped_arg = None         # (coq expr, type) fed to the wrapped function
        self.has_while = False
        self.skipped = []

    # -- helpers ------------------------------------------------------------------------------
    def v(self, name):
        return "v_" + name

    def field(self, name, node):
        if name not in self.fields:
            refuse(node, "undeclared attribute self.%s" % name)
        if name not in self.used_fields:
            self.used_fields.append(name)
        return "s_" + name, self.fields[name]

    def coerce(self, s, t, want, node):
        if t == want:
            return s
        if t == Z and want == T:
            return "(nofZ %s)" % s
        if t[0] == "L" and want[0] == "L" and t[1] is None:
            return s
        refuse(node, "type %r where %r is needed" % (t, want))

    def as_T(self, node):
        s, t = self.expr(node)
        return self.coerce(s, t, T, node)

    def as_Z(self, node):
        s, t = self.expr(node)
        if t != Z:
            refuse(node, "integer expected, got %r" % (t,))
        return s

    def as_B(self, node):
        s, t = self.expr(node)
        if t != B:
            refuse(node, "boolean expected, got %r" % (t,))
        return s

    def float_lit(self, node):
        txt = ast.get_source_segment(self.source, node)
        val = node.value
        try:
            fr = Fraction(txt)
        except (ValueError, TypeError):
            fr = Fraction(repr(val))
        if float(fr) != val:
            refuse(node, "cannot recover the decimal text of float literal %r" % (val,))
        n, d = fr.numerator, fr.denominator
        return "(nlit %s %d%%positive (%s)%%float)" % (zlit(n), d, float(val).hex())

    # -- expressions --------------------------------------------------------------------------
    def expr(self, node):
        m = getattr(self, "e_" + type(node).__name__, None)
        if m is None:
            refuse(node, "expression form outside the grammar")
        return m(node)

    def e_Constant(self, node):
        v = node.value
        if isinstance(v, bool):
            return ("true" if v else "false"), B
        if isinstance(v, int):
            return zlit(v), Z
        if isinstance(v, float):
            return self.float_lit(node), T
        refuse(node, "constant of type %s" % type(v).__name__)

    def e_Name(self, node):
        n = node.id
        if n in self.env:
            return self.v(n), self.env[n]
        if n in self.lambdas:
            refuse(node, "lambda used as a value")
        if n in self.math_names and n in MATH_CONSTS:
            return MATH_CONSTS[n], T
        refuse(node, "unknown name %s" % n)

    def e_Attribute(self, node):
        if isinstance(node.value, ast.Name) and node.value.id == "self":
            return self.field(node.attr, node)
        if (isinstance(node.value, ast.Name) and self.math_module and node.value.id == self.math_module
                and node.attr in MATH_CONSTS):
            return MATH_CONSTS[node.attr], T
        refuse(node, "attribute access outside the grammar")

    def e_UnaryOp(self, node):
        if isinstance(node.op, ast.USub):
            s, t = self.expr(node.operand)
            if t == Z:
                if isinstance(node.operand, ast.Constant):
                    return zlit(-node.operand.value), Z
                return "(Z.opp %s)" % s, Z
            if t == T:
                return "(nneg %s)" % s, T
            refuse(node, "unary minus on %r" % (t,))
        if isinstance(node.op, ast.Not):
            return "(negb %s)" % self.as_B(node.operand), B
        refuse(node, "unary operator outside the grammar")

    def e_BinOp(self, node):
        op = node.op
        # [c] * n
        if isinstance(op, ast.Mult) and isinstance(node.left, ast.List) and len(node.left.elts) == 1:
            es, et = self.expr(node.left.elts[0])
            n = self.as_Z(node.right)
            key = getattr(self, "_assign_target", None)
            if key is not None and self.hints.get(key) == "T" and et == Z:
                es, et = "(nofZ %s)" % es, T
            return "(zrepeat %s %s)" % (es, n), L(et)
        ls, lt = self.expr(node.left)
        rs, rt = self.expr(node.right)
        if isinstance(op, ast.Add) and lt[0] == "L" and rt[0] == "L":
            if lt != rt:
                refuse(node, "concatenation of lists of different types")
            return "(app %s %s)" % (ls, rs), lt
        if isinstance(op, (ast.Add, ast.Sub, ast.Mult)):
            name = {ast.Add: "add", ast.Sub: "sub", ast.Mult: "mul"}[type(op)]
            if lt == Z and rt == Z:
                return "(Z.%s %s %s)" % (name, ls, rs), Z
            return "(n%s %s %s)" % (name, self.coerce(ls, lt, T, node.left), self.coerce(rs, rt, T, node.right)), T
        if isinstance(op, ast.Div):
            return "(ndiv %s %s)" % (self.coerce(ls, lt, T, node.left), self.coerce(rs, rt, T, node.right)), T
        if isinstance(op, ast.FloorDiv):
            if lt == Z and rt == Z:
                return "(Z.div %s %s)" % (ls, rs), Z
            refuse(node, "// on non-integers")
        if isinstance(op, ast.Mod):
            if lt == Z and rt == Z:
                return "(Z.modulo %s %s)" % (ls, rs), Z
            refuse(node, "% on non-integers")
        if isinstance(op, ast.Pow):
            if lt == Z and rt == Z:
                return "(Z.pow %s %s)" % (ls, rs), Z
            if (lt == T and isinstance(node.right, ast.Constant) and isinstance(node.right.value, int)
                    and not isinstance(node.right.value, bool) and 0 <= node.right.value <= 64):
                self.ops.add("npown")
                return "(npown %s %d%%nat)" % (ls, node.right.value), T
            self.ops.add("npow")
            return "(npow %s %s)" % (self.coerce(ls, lt, T, node.left), self.coerce(rs, rt, T, node.right)), T
        refuse(node, "binary operator outside the grammar")

    def e_BoolOp(self, node):
        name = "andb" if isinstance(node.op, ast.And) else "orb"
        parts = [self.as_B(v) for v in node.values]
        s = parts[-1]
        for p_ in reversed(parts[:-1]):
            s = "(%s %s %s)" % (name, p_, s)
        return s, B

    def e_Compare(self, node):
        if len(node.ops) != 1:
            refuse(node, "chained comparison")
        op = node.ops[0]
        ls, lt = self.expr(node.left)
        rs, rt = self.expr(node.comparators[0])
        zn = {ast.Eq: "Z.eqb %s %s", ast.NotEq: "negb (Z.eqb %s %s)", ast.Lt: "Z.ltb %s %s", ast.LtE: "Z.leb %s %s",
              ast.Gt: "Z.gtb %s %s", ast.GtE: "Z.geb %s %s"}
        tn = {ast.Eq: "neqb %s %s", ast.NotEq: "nneb %s %s", ast.Lt: "nltb %s %s", ast.LtE: "nleb %s %s",
              ast.Gt: "ngtb %s %s", ast.GtE: "ngeb %s %s"}
        if type(op) not in zn:
            refuse(node, "comparison operator outside the grammar")
        if lt == Z and rt == Z:
            return "(" + zn[type(op)] % (ls, rs) + ")", B
        return "(" + tn[type(op)] % (self.coerce(ls, lt, T, node.left), self.coerce(rs, rt, T, node.comparators[0])) + ")", B

    def e_IfExp(self, node):
        c = self.as_B(node.test)
        a, ta = self.expr(node.body)
        b, tb = self.expr(node.orelse)
        if ta != tb:
            a, b = self.coerce(a, ta, T, node.body), self.coerce(b, tb, T, node.orelse)
            ta = T
        return "(if %s then %s else %s)" % (c, a, b), ta

    def seq(self, elts, node):
        items = [self.expr(e) for e in elts]
        if not items:
            return "[]", L(None)
        ts = {t for _, t in items}
        if len(ts) > 1:
            if ts <= {Z, T}:
                items = [(self.coerce(s, t, T, node), T) for s, t in items]
            else:
                refuse(node, "heterogeneous sequence")
        return "[" + "; ".join(s for s, _ in items) + "]", L(items[0][1])

    def e_Tuple(self, node):
        return self.seq(node.elts, node)

    def e_List(self, node):
        return self.seq(node.elts, node)

    def e_Subscript(self, node):
        vs, vt = self.expr(node.value)
        if vt[0] != "L" or vt[1] is None:
            refuse(node, "subscript of a non-list")
        sl = node.slice
        if isinstance(sl, ast.Slice):
            if sl.step is not None:
                refuse(node, "slice with a step")
            lo = "None" if sl.lower is None else "(Some %s)" % self.as_Z(sl.lower)
            hi = "None" if sl.upper is None else "(Some %s)" % self.as_Z(sl.upper)
            return "(py_slice %s %s %s 1%%Z)" % (vs, lo, hi), vt
        i = self.as_Z(sl)
        return "(zget %s %s %s)" % (default_of(vt[1], node), vs, i), vt[1]

    # iterables: returns (coq list expr, element type)
    def iterable(self, node):
        if isinstance(node, ast.Call) and isinstance(node.func, ast.Name) and node.func.id not in self.env:
            f = node.func.id
            if node.keywords:
                refuse(node, "keyword arguments")
            if f == "zip":
                parts = [self.iterable(a) for a in node.args]
                if len(parts) < 2:
                    refuse(node, "zip of fewer than two iterables")
                s, ts = parts[-1][0], [parts[-1][1]]
                for ps, pt in reversed(parts[:-1]):
                    s = "(zip %s %s)" % (ps, s)
                    ts.insert(0, pt)
                return s, ("ZIP", tuple(ts))
            if f == "enumerate":
                if len(node.args) != 1:
                    refuse(node, "enumerate with a start")
                s, t = self.iterable(node.args[0])
                return "(enumerate %s)" % s, ("ZIP", (Z, t))
            if f == "range":
                a = [self.as_Z(x) for x in node.args]
                if len(a) == 1:
                    return "(py_range %s)" % a[0], Z
                if len(a) == 2:
                    return "(py_range3 %s %s 1%%Z)" % (a[0], a[1]), Z
                if len(a) == 3:
                    st = node.args[2]
                    ok = (isinstance(st, ast.Constant) and st.value != 0) or (
                        isinstance(st, ast.UnaryOp) and isinstance(st.operand, ast.Constant) and st.operand.value != 0)
                    if not ok:
                        refuse(node, "range step must be a non-zero literal")
                    return "(py_range3 %s %s %s)" % (a[0], a[1], a[2]), Z
                refuse(node, "range arity")
            if f == "reversed":
                if len(node.args) != 1:
                    refuse(node, "reversed arity")
                s, t = self.iterable(node.args[0])
                return "(rev %s)" % s, t
            if f in ("tuple", "list") and len(node.args) == 1:
                return self.iterable(node.args[0])
        s, t = self.expr(node)
        if t[0] != "L" or t[1] is None:
            refuse(node, "not an iterable of known element type")
        return s, t[1]

    def bind_target(self, target, et, node):
        """returns (coq pattern string, {python name: type})"""
        if isinstance(target, ast.Name):
            if isinstance(et, tuple) and et[0] == "ZIP":
                refuse(node, "a tuple is bound to a single name")
            return self.v(target.id), {target.id: et}
        if isinstance(target, ast.Tuple):
            if not (isinstance(et, tuple) and et[0] == "ZIP") or len(et[1]) != len(target.elts):
                refuse(node, "tuple pattern does not match the iterable")
            names, binds = [], {}
            for e, t in zip(target.elts, et[1]):
                if not isinstance(e, ast.Name):
                    refuse(node, "nested target pattern")
                if isinstance(t, tuple) and t[0] == "ZIP":
                    refuse(node, "nested zip element bound to a name")
                names.append(self.v(e.id))
                binds[e.id] = t
            return "'" + pat(names), binds
        refuse(node, "target pattern outside the grammar")

    def comp(self, node):
        gens = node.generators
        if not (1 <= len(gens) <= 2):
            refuse(node, "more than two for-clauses")
        nifs = sum(len(g.ifs) for g in gens)
        if nifs > 1 or any(g.is_async for g in gens):
            refuse(node, "more than one if-clause")
        saved = dict(self.env)
        try:
            g0 = gens[0]
            it0, et0 = self.iterable(g0.iter)
            p0, b0 = self.bind_target(g0.target, et0, node)
            self.env.update(b0)
            if g0.ifs:
                it0 = "(filter (fun %s => %s) %s)" % (p0, self.as_B(g0.ifs[0]), it0)
            if len(gens) == 1:
                es, t = self.expr(node.elt)
                return "(map (fun %s => %s) %s)" % (p0, es, it0), L(t)
            g1 = gens[1]
            it1, et1 = self.iterable(g1.iter)
            p1, b1 = self.bind_target(g1.target, et1, node)
            self.env.update(b1)
            if g1.ifs:
                it1 = "(filter (fun %s => %s) %s)" % (p1, self.as_B(g1.ifs[0]), it1)
            es, t = self.expr(node.elt)
            return "(flat_map (fun %s => map (fun %s => %s) %s) %s)" % (p0, p1, es, it1, it0), L(t)
        finally:
            self.env = saved

    def e_ListComp(self, node):
        return self.comp(node)

    def e_GeneratorExp(self, node):
        return self.comp(node)

    def lam2(self, f, et, node):
        """binary function for reduce"""
        if isinstance(f, ast.Name) and f.id == "mul" and "mul" not in self.env:
            if et == Z:
                return "Z.mul"
            return "nmul"
        if isinstance(f, ast.Lambda):
            a = f.args
            if (len(a.args) != 2 or a.vararg or a.kwarg or a.kwonlyargs or a.defaults or a.posonlyargs):
                refuse(node, "reduce needs a two-argument lambda")
            saved = dict(self.env)
            try:
                self.env[a.args[0].arg] = et
                self.env[a.args[1].arg] = et
                bs, bt = self.expr(f.body)
                bs = self.coerce(bs, bt, et, node)
                return "(fun %s %s => %s)" % (self.v(a.args[0].arg), self.v(a.args[1].arg), bs)
            finally:
                self.env = saved
        refuse(node, "reduce with a function outside the grammar")

    def inline_lambda(self, name, node):
        lam, defined_env = self.lambdas[name]
        a = lam.args
        if (len(a.args) != len(node.args) or a.vararg or a.kwarg or a.kwonlyargs or a.defaults or node.keywords):
            refuse(node, "lambda call arity")
        args = [self.expr(x) for x in node.args]
        saved = dict(self.env)
        try:
            binds = []
            for p_, (s, t) in zip(a.args, args):
                binds.append("let %s := %s in " % (self.v(p_.arg), s))
                self.env[p_.arg] = t
            bs, bt = self.expr(lam.body)
            return "(" + "".join(binds) + bs + ")", bt
        finally:
            self.env = saved

    def e_Call(self, node):
        f = node.func
        # wrapped function call
        if self.callee and isinstance(f, ast.Name) and f.id == self.callee:
            ok = (len(node.args) == 2 and isinstance(node.args[1], ast.Starred) and isinstance(node.args[1].value, ast.Name)
                  and len(node.keywords) == 1 and node.keywords[0].arg is None)
            if not ok:
                refuse(node, "wrapped call must be callee(arg, *args, **kargs)")
            if self.wrapped_arg is not None:
                refuse(node, "wrapped function called twice")
            s, t = self.expr(node.args[0])
            self.wrapped_arg = (s, t, list(self.params), list(self.used_fields), self.pending_lets())
            return "v_result_of_wrapped", LT
        if isinstance(f, ast.Attribute):
            # math.f(x), numpy.dot(M, v), self.field(args)
            if isinstance(f.value, ast.Name) and self.math_module and f.value.id == self.math_module and f.attr in MATH_FUNCS:
                if len(node.args) != 1 or node.keywords:
                    refuse(node, "arity")
                self.ops.add(MATH_FUNCS[f.attr])
                return "(%s %s)" % (MATH_FUNCS[f.attr], self.as_T(node.args[0])), T
            if (isinstance(f.value, ast.Name) and self.numpy_name and f.value.id == self.numpy_name and f.attr == "dot"
                    and len(node.args) == 2 and not node.keywords):
                ms, mt = self.expr(node.args[0])
                vs, vt = self.expr(node.args[1])
                if mt != LLT or vt != LT:
                    refuse(node, "numpy.dot only as matrix . vector")
                self.ops.add("matvec")
                return "(matvec %s %s)" % (ms, vs), LT
            if isinstance(f.value, ast.Name) and f.value.id == "self":
                fs, ft = self.field(f.attr, node)
                return self.apply_fn(fs, ft, node)
            refuse(node, "method call outside the grammar")
        if not isinstance(f, ast.Name):
            refuse(node, "call outside the grammar")
        n = f.id
        if n in self.lambdas:
            return self.inline_lambda(n, node)
        if n in self.env:
            t = self.env[n]
            if t[0] == "TH":   # optional thunk already unwrapped: f() is the drawn value
                if node.args or node.keywords:
                    refuse(node, "thunk called with arguments")
                return self.v(n), t[1]
            return self.apply_fn(self.v(n), t, node)
        if node.keywords:
            refuse(node, "keyword arguments")
        if n in self.math_names and n in MATH_FUNCS:
            if len(node.args) != 1:
                refuse(node, "arity")
            self.ops.add(MATH_FUNCS[n])
            return "(%s %s)" % (MATH_FUNCS[n], self.as_T(node.args[0])), T
        if n == "abs" and len(node.args) == 1:
            s, t = self.expr(node.args[0])
            return ("(Z.abs %s)" % s, Z) if t == Z else ("(nabs %s)" % self.coerce(s, t, T, node), T)
        if n == "len" and len(node.args) == 1:
            s, t = self.expr(node.args[0])
            if t[0] != "L":
                refuse(node, "len of a non-list")
            return "(zlen %s)" % s, Z
        if n == "sum" and len(node.args) == 1:
            s, et = self.iterable(node.args[0])
            if et == Z:
                return "(zsum %s)" % s, Z
            if et == T:
                return "(nsum %s)" % s, T
            refuse(node, "sum over %r" % (et,))
        if n in ("min", "max"):
            if len(node.args) == 2:
                (a, ta), (b, tb) = self.expr(node.args[0]), self.expr(node.args[1])
                if ta == Z and tb == Z:
                    return "(Z.%s %s %s)" % (n, a, b), Z
                refuse(node, "two-argument %s on non-integers" % n)
            if len(node.args) == 1:
                s, et = self.iterable(node.args[0])
                if et != T:
                    refuse(node, "%s over %r" % (n, et))
                return "(py%s (nofZ 0%%Z) %s)" % (n, s), T
            refuse(node, "arity")
        if n == "reduce" and len(node.args) in (2, 3):
            s, et = self.iterable(node.args[1])
            if len(node.args) == 3:
                i, it = self.expr(node.args[2])
                if et == T:
                    i = self.coerce(i, it, T, node)
                elif it != et:
                    refuse(node, "reduce initial value type")
                return "(reduce %s %s %s)" % (self.lam2(node.args[0], et, node), s, i), et
            return "(reduce1 %s %s %s)" % (default_of(et, node), self.lam2(node.args[0], et, node), s), et
        if n in ("tuple", "list"):
            if len(node.args) == 0:
                return "[]", L(None)
            if len(node.args) == 1:
                s, et = self.iterable(node.args[0])
                if isinstance(et, tuple) and et[0] == "ZIP":
                    refuse(node, "list of tuples")
                return s, L(et)
        if n == "int":
            return self.int_call(node)
        if n in self.known:
            cn, ats, rt = self.known[n]
            if len(node.args) != len(ats):
                refuse(node, "arity of %s" % n)
            args = []
            for a, at in zip(node.args, ats):
                s, t = self.expr(a)
                args.append(self.coerce(s, t, at, a))
            self.ops |= self.known_ops.get(n, set())
            return "(%s %s)" % (cn, " ".join(args)), rt
        refuse(node, "call of unknown function %s" % n)

    known_ops = {}

    def apply_fn(self, fs, ft, node):
        if ft[0] == "O":
            refuse(node, "call of an optional function without a test")
        if ft[0] != "F":
            refuse(node, "call of a non-function")
        if node.keywords or len(node.args) != len(ft[1]):
            refuse(node, "arity")
        args = []
        for a, at in zip(node.args, ft[1]):
            s, t = self.expr(a)
            args.append(self.coerce(s, t, at, a))
        self.ops.add("npow")   # a function-typed argument may compute anything
        return "(%s %s)" % (fs, " ".join(args)), ft[2]

    def int_call(self, node):
        a = node.args
        # int("".join(map(str, bits)), 2)
        if (len(a) == 2 and isinstance(a[1], ast.Constant) and a[1].value == 2 and isinstance(a[0], ast.Call)
                and isinstance(a[0].func, ast.Attribute) and a[0].func.attr == "join"
                and isinstance(a[0].func.value, ast.Constant) and a[0].func.value.value == ""
                and len(a[0].args) == 1 and isinstance(a[0].args[0], ast.Call)
                and isinstance(a[0].args[0].func, ast.Name) and a[0].args[0].func.id == "map"
                and len(a[0].args[0].args) == 2 and isinstance(a[0].args[0].args[0], ast.Name)
                and a[0].args[0].args[0].id == "str"):
            s, t = self.expr(a[0].args[0].args[1])
            if t != LZ:
                refuse(node, "bit string of a non-integer list")
            return "(bits2int %s)" % s, Z
        if len(a) != 1:
            refuse(node, "int() form outside the grammar")
        x = a[0]
        if isinstance(x, ast.BinOp) and isinstance(x.op, ast.Div):
            (ls, lt), (rs, rt) = self.expr(x.left), self.expr(x.right)
            if lt == Z and rt == Z:
                return "(Z.quot %s %s)" % (ls, rs), Z
        if (isinstance(x, ast.Call) and isinstance(x.func, ast.Name) and x.func.id == "round" and len(x.args) == 1
                and not x.keywords):
            return "(nround %s)" % self.as_T(x.args[0]), Z
        s, t = self.expr(x)
        if t == Z:
            return s, Z
        if t == T:
            return "(ntrunc %s)" % s, Z
        refuse(node, "int() of %r" % (t,))

    # -- statements ---------------------------------------------------------------------------
    def pending_lets(self):
        return list(self._lets)

    def assigned(self, stmts):
        """names (re)bound by a block, in first-assignment order"""
        out = []

        def add(n):
            if n not in out:
                out.append(n)
        for s in stmts:
            if isinstance(s, ast.Assign):
                for tg in s.targets:
                    if isinstance(tg, ast.Name):
                        add(tg.id)
                    elif isinstance(tg, ast.Subscript) and isinstance(tg.value, ast.Name):
                        add(tg.value.id)
                    else:
                        refuse(s, "assignment target outside the grammar")
            elif isinstance(s, ast.AugAssign):
                if not isinstance(s.target, ast.Name):
                    refuse(s, "augmented assignment target outside the grammar")
                add(s.target.id)
            elif isinstance(s, ast.Expr) and isinstance(s.value, ast.Call) and isinstance(s.value.func, ast.Attribute) \
                    and isinstance(s.value.func.value, ast.Name) and s.value.func.attr in ("append", "extend"):
                add(s.value.func.value.id)
            elif isinstance(s, (ast.For, ast.While)):
                for n in self.assigned(s.body):
                    add(n)
                if s.orelse:
                    refuse(s, "loop else")
            elif isinstance(s, ast.If):
                for n in self.assigned(s.body) + self.assigned(s.orelse):
                    add(n)
        return out

    def ends_with_return(self, stmts):
        if not stmts:
            return False
        s = stmts[-1]
        if isinstance(s, ast.Return):
            return True
        if isinstance(s, ast.If):
            return self.ends_with_return(s.body) and self.ends_with_return(s.orelse)
        return False

    def block(self, stmts, tail):
        """tail: None (block must end with return) or list of python names to yield as a tuple"""
        if not stmts:
            if tail is None:
                refuse(self.fname, "control reaches the end of the function without return")
            return tuple_val([self.v(n) for n in tail])
        s, rest = stmts[0], stmts[1:]
        if isinstance(s, ast.Expr) and isinstance(s.value, ast.Constant) and isinstance(s.value.value, str):
            return self.block(rest, tail)
        if isinstance(s, ast.Return):
            if tail is not None:
                refuse(s, "return inside a loop or a joined branch")
            if rest:
                refuse(s, "statements after return")
            if s.value is None:
                refuse(s, "bare return")
            es, et = self.expr(s.value)
            self.ret_type = self.join_ret(et, s)
            return "Some %s" % es if self.has_while_fn else es
        if isinstance(s, ast.Assign):
            if len(s.targets) != 1:
                refuse(s, "multiple assignment targets")
            tg = s.targets[0]
            if isinstance(tg, ast.Name):
                if isinstance(s.value, ast.Lambda):
                    if tg.id in self.env or tg.id in self.lambdas:
                        refuse(s, "lambda rebinding")
                    self.lambdas[tg.id] = (s.value, None)
                    self.check_lambda_frozen(s.value, rest, s)
                    return self.block(rest, tail)
                self._assign_target = tg.id
                try:
                    es, et = self.expr(s.value)
                finally:
                    self._assign_target = None
                if tg.id in self.env and self.env[tg.id] != et:
                    old = self.env[tg.id]
                    if old == T and et == Z:
                        es, et = "(nofZ %s)" % es, T
                    elif not (old[0] == "L" and old[1] is None and et[0] == "L"):
                        refuse(s, "name %s changes type from %r to %r" % (tg.id, old, et))
                self.env[tg.id] = et
                return self.let(self.v(tg.id), es, rest, tail)
            if isinstance(tg, ast.Subscript) and isinstance(tg.value, ast.Name) and not isinstance(tg.slice, ast.Slice):
                ln = tg.value.id
                if ln not in self.env or self.env[ln][0] != "L":
                    refuse(s, "item assignment to a non-list")
                i = self.as_Z(tg.slice)
                es, et = self.expr(s.value)
                lt = self.env[ln][1]
                if lt != et:
                    if lt == Z and et == T and ln not in dict((p_[0][2:], 1) for p_ in self.params):
                        self.hints[ln] = "T"
                        raise Retry()
                    es = self.coerce(es, et, lt, s)
                return self.let(self.v(ln), "(zset %s %s %s)" % (self.v(ln), i, es), rest, tail)
            refuse(s, "assignment target outside the grammar")
        if isinstance(s, ast.AugAssign):
            if not isinstance(s.target, ast.Name) or s.target.id not in self.env:
                refuse(s, "augmented assignment target outside the grammar")
            if not isinstance(s.op, (ast.Add, ast.Sub, ast.Mult)):
                refuse(s, "augmented operator outside the grammar")
            fake = ast.BinOp(left=ast.Name(id=s.target.id, ctx=ast.Load()), op=s.op, right=s.value)
            ast.copy_location(fake, s)
            ast.fix_missing_locations(fake)
            es, et = self.expr(fake)
            if self.env[s.target.id] != et:
                refuse(s, "augmented assignment changes the type of %s" % s.target.id)
            return self.let(self.v(s.target.id), es, rest, tail)
        if isinstance(s, ast.Expr):
            c = s.value
            if (isinstance(c, ast.Call) and isinstance(c.func, ast.Attribute) and isinstance(c.func.value, ast.Name)
                    and c.func.attr in ("append", "extend") and len(c.args) == 1 and not c.keywords):
                ln = c.func.value.id
                if ln not in self.env or self.env[ln][0] != "L":
                    refuse(s, "%s on a non-list" % c.func.attr)
                lt = self.env[ln][1]
                if c.func.attr == "append":
                    es, et = self.expr(c.args[0])
                    if lt is None:
                        lt = et
                    es = self.coerce(es, et, lt, s)
                    new = "(app %s [%s])" % (self.v(ln), es)
                else:
                    es, et = self.iterable(c.args[0])
                    if lt is None:
                        lt = et
                    if et != lt:
                        refuse(s, "extend with elements of another type")
                    new = "(app %s %s)" % (self.v(ln), es)
                self.env[ln] = L(lt)
                return self.let(self.v(ln), new, rest, tail)
            refuse(s, "expression statement outside the grammar")
        if isinstance(s, ast.For):
            if s.orelse:
                refuse(s, "for-else")
            it, et = self.iterable(s.iter)
            carried = [n for n in self.assigned(s.body) if n in self.env]
            local = [n for n in self.assigned(s.body) if n not in self.env]
            if not carried:
                refuse(s, "loop without a loop-carried variable")
            self.check_not_used(local, rest, s)
            saved = dict(self.env)
            p_, binds = self.bind_target(s.target, et, s)
            self.env.update(binds)
            saved_lets = self._lets
            self._lets = []
            body = self.block(s.body, carried)
            self._lets = saved_lets
            for n in carried:
                if self.env[n] != saved[n] and not (saved[n][0] == "L" and saved[n][1] is None):
                    refuse(s, "loop changes the type of %s" % n)
            newtypes = {n: self.env[n] for n in carried}
            self.env = saved
            self.env.update(newtypes)
            st = tuple_pat([self.v(n) for n in carried])
            init = tuple_val([self.v(n) for n in carried])
            es = "(fold_left (fun %s %s => %s) %s %s)" % (st, p_, body, it, init)
            return self.let(st, es, rest, tail, raw_pattern=True)
        if isinstance(s, ast.While):
            if s.orelse or self.fuel is None:
                refuse(s, "while loop without declared fuel")
            if not self.has_while_fn:
                self.has_while_fn = True
                raise Retry()
            carried = [n for n in self.assigned(s.body) if n in self.env]
            local = [n for n in self.assigned(s.body) if n not in self.env]
            if local:
                refuse(s, "while body introduces new names")
            st = tuple_pat([self.v(n) for n in carried])
            cond = self.as_B(s.test)
            saved = dict(self.env)
            body = self.block(s.body, carried)
            if self.env != saved:
                refuse(s, "while loop changes types")
            init = tuple_val([self.v(n) for n in carried])
            k = self.block(rest, tail)
            return ("match while_loop %s (fun %s => %s) (fun %s => %s) %s with\n    | Some %s => %s\n    | None => None\n    end"
                    % (self.fuel, st, cond, st, body, init, st if len(carried) == 1 else st[1:], k))
        if isinstance(s, ast.If):
            # declared-out statement
            if isinstance(s.test, ast.Name) and s.test.id in self.skip_if and not s.orelse:
                self.skipped.append("if %s: ... (line %d)" % (s.test.id, s.lineno))
                return self.block(rest, tail)
            if not rest and tail is None and self.ends_with_return(s.body) and self.ends_with_return(s.orelse):
                return self.if_form(s, lambda blk: self.block(blk, None))
            joined = [n for n in self.assigned(s.body) + self.assigned(s.orelse)]
            joined = [n for i, n in enumerate(joined) if n not in joined[:i]]
            for n in joined:
                if n not in self.env:
                    refuse(s, "name %s first assigned inside a branch" % n)
            if not joined:
                refuse(s, "if statement without effect")
            saved = dict(self.env)
            types = []

            def branch(blk):
                self.env = dict(saved)
                saved_lets = self._lets
                self._lets = []
                r = self.block(blk, joined)
                self._lets = saved_lets
                types.append({n: self.env[n] for n in joined})
                return r
            es = self.if_form(s, branch)
            self.env = dict(saved)
            for n in joined:
                ts = {repr(t[n]) for t in types}
                if len(ts) != 1:
                    cands = [t[n] for t in types if not (t[n][0] == "L" and t[n][1] is None)]
                    if len({repr(c) for c in cands}) != 1:
                        refuse(s, "branches give %s different types" % n)
                    self.env[n] = cands[0]
                else:
                    self.env[n] = types[0][n]
            st = tuple_pat([self.v(n) for n in joined])
            return self.let(st, es, rest, tail, raw_pattern=True)
        refuse(s, "statement outside the grammar")

    def if_form(self, s, branch):
        t = s.test
        opt = None   # (subject expression, True when the body is the None branch)
        if isinstance(t, ast.Compare) and len(t.ops) == 1 and isinstance(t.ops[0], (ast.Is, ast.IsNot)) \
                and isinstance(t.comparators[0], ast.Constant) and t.comparators[0].value is None:
            opt = (t.left, isinstance(t.ops[0], ast.Is))
        elif isinstance(t, (ast.Name, ast.Attribute)):
            _s, _t = self.expr(t)
            if _t[0] == "O":
                opt = (t, False)
        if opt is None:
            c = self.as_B(t)
            a = branch(s.body)
            b = branch(s.orelse)
            return "(if %s then %s else %s)" % (c, a, b)
        subj, none_first = opt
        ss, stt = self.expr(subj)
        if stt[0] != "O":
            refuse(s, "`is None` on a non-optional value")
        inner = stt[1]
        some_blk, none_blk = (s.orelse, s.body) if none_first else (s.body, s.orelse)
        nb = branch(none_blk)
        saved_env = dict(self.env)
        if isinstance(subj, ast.Name):
            bound = self.v(subj.id)
            marker = ast.Pass()
            marker._rebind = (subj.id, ("TH", inner) if inner in (T, Z) else inner)
            sb = branch([marker] + list(some_blk))
        elif is_self_attr(subj):
            bound = "s_" + subj.attr
            old = self.fields[subj.attr]
            self.fields[subj.attr] = inner
            try:
                sb = branch(some_blk)
            finally:
                self.fields[subj.attr] = old
        else:
            refuse(s, "optional test on an expression")
        if isinstance(subj, ast.Name) and subj.id in saved_env:
            self.env[subj.id] = saved_env[subj.id]
        return "(match %s with\n    | None => %s\n    | Some %s => %s\n    end)" % (ss, nb, bound, sb)

    def let(self, pattern, es, rest, tail, raw_pattern=False):
        self._lets.append((pattern, es))
        k = self.block(rest, tail)
        if raw_pattern and pattern.startswith("'"):
            return "let %s := %s in\n  %s" % (pattern, es, k)
        return "let %s := %s in\n  %s" % (pattern, es, k)

    def check_not_used(self, names, stmts, node):
        if not names:
            return
        for st in stmts:
            for n in ast.walk(st):
                if isinstance(n, ast.Name) and n.id in names and isinstance(n.ctx, ast.Load):
                    refuse(node, "loop-local name %s used after the loop" % n.id)

    def check_lambda_frozen(self, lam, rest, node):
        params = {a.arg for a in lam.args.args}
        inner = {n.id for n in ast.walk(lam.body) if isinstance(n, ast.Name) and isinstance(n.ctx, ast.Store)}
        free = {n.id for n in ast.walk(lam.body) if isinstance(n, ast.Name)} - params - inner

        def stores(stmts):
            out = set(self.assigned(stmts))
            for st in stmts:
                if isinstance(st, ast.For):
                    out |= {n.id for n in ast.walk(st.target) if isinstance(n, ast.Name)}
                    out |= stores(st.body)
                elif isinstance(st, ast.While):
                    out |= stores(st.body)
                elif isinstance(st, ast.If):
                    out |= stores(st.body) | stores(st.orelse)
            return out
        bad = free & stores(rest)
        if bad:
            refuse(node, "free variable %s of a lambda is reassigned later" % sorted(bad)[0])

    def join_ret(self, et, node):
        old = getattr(self, "ret_type", None)
        if old is not None and old != et:
            refuse(node, "return statements of different types")
        return et

    # -- driver -------------------------------------------------------------------------------
    def run(self, body):
        self.has_while_fn = getattr(self, "has_while_fn", False)
        self._lets = []
        self._assign_target = None
        self.ret_type = None
        return self.block(body, None)


# patch: `pass`-marker used to rebind an optional name inside the Some branch
_orig_block = FnTr.block


def _block(self, stmts, tail):
    if stmts and isinstance(stmts[0], ast.Pass) and hasattr(stmts[0], "_rebind"):
        name, t = stmts[0]._rebind
        self.env[name] = t
        return _orig_block(self, stmts[1:], tail)
    return _orig_block(self, stmts, tail)


FnTr.block = _block


def translate_function(mod, coqname, fdef, params, source, known, math_names, **kw):
    """returns dict(text, ret, ops, params, ...) or raises Refuse (fail-closed: any internal error of the
    translator on an unforeseen AST shape is a refusal of that function, never a crash or a guess)"""
    try:
        return _translate_function(mod, coqname, fdef, params, source, known, math_names, **kw)
    except (Refuse, Retry):
        raise
    except RecursionError:
        raise Refuse(fdef, "expression too deeply nested")
    except Exception as e:  # noqa
        raise Refuse(fdef, "translator internal error %s: %s" % (type(e).__name__, e))


def _translate_function(mod, coqname, fdef, params, source, known, math_names, **kw):
    hints = {}
    has_while = False
    for _ in range(4):
        tr = FnTr(mod, fdef.name, params, source, known, math_names, hints=hints, **kw)
        tr.has_while_fn = has_while
        try:
            body = tr.run(fdef.body)
            break
        except Retry:
            hints = tr.hints
            has_while = tr.has_while_fn
    else:
        refuse(fdef, "translation does not stabilise")
    ret = tr.ret_type
    if ret is None or (ret[0] == "L" and ret[1] is None):
        refuse(fdef, "return type unknown")
    return {"tr": tr, "body": body, "ret": ret, "ops": set(tr.ops), "option": tr.has_while_fn}


def render_def(coqname, binders, rettype, body, generic=True):
    bs = " ".join("(%s : %s)" % (n, coqtype(t)) for n, t in binders)
    head = "Definition %s %s%s : %s :=\n  %s.\n" % (coqname, "{T : Type} `{Num T} " if generic else "", bs, rettype, body)
    return head


# ---- module tables -----------------------------------------------------------------------------
IND = [("individual", LT)]
BENCH = [  # (python name, params)
    ("plane", IND), ("sphere", IND), ("cigar", IND), ("rosenbrock", IND), ("h1", IND), ("ackley", IND),
    ("bohachevsky", IND), ("griewank", IND), ("rastrigin", IND), ("rastrigin_scaled", IND), ("rastrigin_skew", IND),
    ("schaffer", IND), ("schwefel", IND), ("himmelblau", IND),
    ("shekel", [("individual", LT), ("a", LLT), ("c", LT)]),
    ("kursawe", IND), ("schaffer_mo", IND), ("zdt1", IND), ("zdt2", IND), ("zdt3", IND), ("zdt4", IND), ("zdt6", IND),
    ("dtlz1", [("individual", LT), ("obj", Z)]), ("dtlz2", [("individual", LT), ("obj", Z)]),
    ("dtlz3", [("individual", LT), ("obj", Z)]), ("dtlz4", [("individual", LT), ("obj", Z), ("alpha", T)]),
    ("dtlz5", [("ind", LT), ("n_objs", Z)]), ("dtlz6", [("ind", LT), ("n_objs", Z)]), ("dtlz7", [("ind", LT), ("n_objs", Z)]),
    ("fonseca", IND), ("poloni", IND), ("dent", [("individual", LT), ("lambda_", T)]),
]
BININD = [("individual", LZ)]
BINARY = [
    ("trap", BININD), ("inv_trap", BININD), ("chuang_f1", BININD), ("chuang_f2", BININD), ("chuang_f3", BININD),
    ("royal_road1", [("individual", LZ), ("order", Z)]), ("royal_road2", [("individual", LZ), ("order", Z)]),
]
DATA = [("data", LT)]
GP = [(n, DATA) for n in ("kotanchek", "salustowicz_1d", "salustowicz_2d", "unwrapped_ball", "rational_polynomial",
                          "sin_cos", "ripple", "rational_polynomial2")]
PEAK = [("individual", LT), ("position", LT), ("height", T), ("width", T)]
MPFUN = [("cone", PEAK), ("sphere", PEAK), ("function1", PEAK)]
FUEL = {"royal_road2": "(Z.to_nat v_order)"}


def module_imports(tree):
    """names imported with `from math import ...`, and the local name of `import math` / numpy"""
    names, mathmod, numpy_name = set(), None, None
    for n in ast.walk(tree):
        if isinstance(n, ast.ImportFrom) and n.module == "math":
            for a in n.names:
                if a.asname is not None:
                    continue
                names.add(a.name)
        if isinstance(n, ast.Import):
            for a in n.names:
                if a.name == "math":
                    mathmod = a.asname or "math"
                if a.name == "numpy":
                    numpy_name = a.asname or "numpy"
    return names, mathmod, numpy_name


def top_functions(tree):
    out = {}
    for n in tree.body:
        if isinstance(n, ast.FunctionDef):
            out[n.name] = n
    return out


def find_class(tree, name):
    for n in tree.body:
        if isinstance(n, ast.ClassDef) and n.name == name:
            return n
    return None


def find_method(cls, name):
    for n in cls.body:
        if isinstance(n, ast.FunctionDef) and n.name == name:
            return n
    return None


def check_params(fdef, params, allow_star=False, defaults_ok=False, skip_self=False):
    a = fdef.args
    names = [x.arg for x in a.args]
    if skip_self:
        if not names or names[0] != "self":
            refuse(fdef, "method without self")
        names = names[1:]
    if names[:len(params)] != [p_[0] for p_ in params] or len(names) < len(params):
        refuse(fdef, "parameters %r differ from the signature table %r" % (names, [p_[0] for p_ in params]))
    extra = names[len(params):]
    if a.kwonlyargs or a.posonlyargs:
        refuse(fdef, "keyword-only / positional-only parameters")
    if (a.vararg or a.kwarg) and not allow_star:
        refuse(fdef, "*args / **kwargs")
    if a.defaults and not defaults_ok:
        refuse(fdef, "default values")
    return extra


class Output(object):
    def __init__(self):
        self.defs = []        # coq text
        self.meta = {}        # coq name -> dict
        self.refused = {}     # coq name -> reason
        self.order = []

    def add(self, coqname, text, meta):
        self.defs.append(text)
        self.meta[coqname] = meta
        self.order.append(coqname)

    def refuse(self, coqname, why, spec_alias):
        self.refused[coqname] = str(why)
        self.defs.append("(* translator refused %s: %s -- alias of the hand-written specification *)\n%s\n"
                         % (coqname, why, spec_alias))
        self.order.append(coqname)


def exact_ops(ops):
    return not (ops & TRANSCENDENTAL)


def gen_plain(out, prefix, modname, source, table, spec_prefix, fuel=None, generic=True):
    tree = ast.parse(source)
    math_names, mathmod, numpy_name = module_imports(tree)
    funcs = top_functions(tree)
    known = {}
    FnTr.known_ops = {}
    for name, params in table:
        coqname = "%s_%s" % (prefix, name)
        try:
            if name not in funcs:
                refuse(name, "function not found in %s" % modname)
            fdef = funcs[name]
            if fdef.decorator_list:
                refuse(fdef, "decorated function")
            check_params(fdef, params, defaults_ok=(name == "dent"))
            r = translate_function(modname, coqname, fdef, params, source, known, math_names,
                                   math_module=mathmod, fuel=(fuel or {}).get(name))
            binders = [("v_" + n, t) for n, t in params]
            rt = coqtype(r["ret"])
            if r["option"]:
                rt = "(option %s)" % rt
            out.add(coqname, render_def(coqname, binders, rt, r["body"], generic),
                    {"python": "%s.%s" % (modname, name), "params": [[n, repr(t)] for n, t in params],
                     "ret": repr(r["ret"]), "exact": exact_ops(r["ops"]), "ops": sorted(r["ops"]), "option": r["option"]})
            known[name] = (coqname, [t for _, t in params], r["ret"])
            FnTr.known_ops[name] = set(r["ops"])
        except Refuse as e:
            if generic:
                out.refuse(coqname, e, "Definition %s {T : Type} `{Num T} := %s_%s (T:=T)." % (coqname, spec_prefix, name))
            else:
                out.refuse(coqname, e, "Definition %s := %s_%s." % (coqname, spec_prefix, name))
            # a refused function can still be called by later ones through its alias
            if name in ("trap", "inv_trap"):
                known[name] = (coqname, [LZ], Z)
            if name == "royal_road1":
                known[name] = (coqname, [LZ, Z], LZ)


def single_return_call(fdef, callee):
    body = [s for s in fdef.body if not (isinstance(s, ast.Expr) and isinstance(s.value, ast.Constant))]
    return body


def gen_wrapper(out, coqname, modname, source, fdef, params, fields, callee, math_names, mathmod, numpy_name, spec_alias,
                post=False):
    """Translate a decorator's inner function.  Emits <coqname>_arg (what the wrapped function is fed) and, when the
    wrapper post-processes the result (noise), <coqname>_post."""
    try:
        r = translate_function(modname, coqname, fdef, params, source, {}, math_names, math_module=mathmod,
                               numpy_name=numpy_name, fields=fields, callee=callee)
        tr = r["tr"]
        if tr.wrapped_arg is None:
            refuse(fdef, "the wrapped function is never called")
        s, t, _params, used_fields, lets = tr.wrapped_arg
        if t != LT:
            refuse(fdef, "the wrapped function is fed a %r" % (t,))
        fb = [("s_" + f, fields[f]) for f in fields]
        binders = fb + [("v_" + n, tt) for n, tt in params]
        body = "".join("let %s := %s in\n  " % (p_, e) for p_, e in lets) + s
        out.add(coqname + "_arg", render_def(coqname + "_arg", binders, coqtype(LT), body),
                {"python": "%s (argument fed to the wrapped function)" % modname, "exact": exact_ops(tr.ops),
                 "ops": sorted(tr.ops)})
        if post:
            binders2 = fb + [("v_" + n, tt) for n, tt in params] + [("v_result_of_wrapped", LT)]
            out.add(coqname + "_post", render_def(coqname + "_post", binders2, coqtype(r["ret"]), r["body"]),
                    {"python": "%s (result post-processing)" % modname, "exact": exact_ops(tr.ops)})
        else:
            # the wrapper must return exactly the wrapped call
            if r["body"].strip().split("\n")[-1].strip() != "v_result_of_wrapped":
                refuse(fdef, "the wrapper does not return the wrapped function's result unchanged")
    except Refuse as e:
        for a in spec_alias:
            out.refuse(a[0], e, a[1])


def assigns_field(fdef, field, pred):
    """the function body (docstrings/comments aside) contains exactly one statement, self.<field> = <expr>, with pred(expr)"""
    body = [s for s in fdef.body if not (isinstance(s, ast.Expr) and isinstance(s.value, ast.Constant))]
    hits = [s for s in ast.walk(fdef) if isinstance(s, ast.Assign) and len(s.targets) == 1
            and isinstance(s.targets[0], ast.Attribute) and isinstance(s.targets[0].value, ast.Name)
            and s.targets[0].value.id == "self" and s.targets[0].attr == field]
    return len(hits) == 1 and pred(hits[0].value)


def is_inv_call(e, numpy_name, arg):
    return (isinstance(e, ast.Call) and isinstance(e.func, ast.Attribute) and e.func.attr == "inv"
            and isinstance(e.func.value, ast.Attribute) and e.func.value.attr == "linalg"
            and isinstance(e.func.value.value, ast.Name) and e.func.value.value.id == numpy_name
            and len(e.args) == 1 and isinstance(e.args[0], ast.Name) and e.args[0].id == arg and not e.keywords)


def gen_tools(out, source):
    modname = "deap.benchmarks.tools"
    tree = ast.parse(source)
    math_names, mathmod, numpy_name = module_imports(tree)

    def inner(clsname, meth, innername):
        cls = find_class(tree, clsname)
        if cls is None:
            refuse(clsname, "class not found")
        m = find_method(cls, meth)
        if m is None:
            refuse(clsname, "method %s not found" % meth)
        for n in m.body:
            if isinstance(n, ast.FunctionDef) and n.name == innername:
                return cls, m, n
        refuse(m, "inner function %s not found" % innername)

    # translate
    alias = [("tl_translate_arg", "Definition tl_translate_arg {T : Type} `{Num T} := spec_translate_arg (T:=T).")]
    try:
        cls, m, w = inner("translate", "__call__", "wrapper")
        check_params(w, [("individual", LT)], allow_star=True)
        for meth, arg in (("__init__", "vector"), ("translate", "vector")):
            fm = find_method(cls, meth)
            if fm is None or not assigns_field(fm, "vector", lambda e: isinstance(e, ast.Name) and e.id == arg):
                refuse(cls, "translate.%s must store its argument in self.vector" % meth)
        gen_wrapper(out, "tl_translate", modname + ".translate", source, w, [("individual", LT)], {"vector": LT}, "func",
                    math_names, mathmod, numpy_name, alias)
    except Refuse as e:
        out.refuse(alias[0][0], e, alias[0][1])
    # scale
    alias = [("tl_scale_arg", "Definition tl_scale_arg {T : Type} `{Num T} := spec_scale_arg (T:=T)."),
             ("tl_scale_factor", "Definition tl_scale_factor {T : Type} `{Num T} := spec_scale_factor (T:=T).")]
    try:
        cls, m, w = inner("scale", "__call__", "wrapper")
        check_params(w, [("individual", LT)], allow_star=True)
        texts = []
        for meth in ("__init__", "scale"):
            fm = find_method(cls, meth)
            if fm is None:
                refuse(cls, "scale.%s not found" % meth)
            check_params(fm, [("factor", LT)], skip_self=True)
            hits = [s for s in ast.walk(fm) if isinstance(s, ast.Assign)]
            if len(hits) != 1 or not (isinstance(hits[0].targets[0], ast.Attribute) and hits[0].targets[0].attr == "factor"):
                refuse(fm, "scale.%s must consist of self.factor = ..." % meth)
            fake = ast.FunctionDef(name=meth, args=fm.args, body=[ast.Return(value=hits[0].value)], decorator_list=[])
            ast.copy_location(fake, fm)
            ast.copy_location(fake.body[0], hits[0])
            r = translate_function(modname, "tl_scale_factor", fake, [("factor", LT)], source, {}, math_names)
            if r["ret"] != LT:
                refuse(fm, "scale factor is not a list of numbers")
            texts.append((r["body"], r["ops"]))
        if texts[0][0] != texts[1][0]:
            refuse(cls, "scale.__init__ and scale.scale store different factors")
        out.add("tl_scale_factor", render_def("tl_scale_factor", [("v_factor", LT)], coqtype(LT), texts[0][0]),
                {"python": modname + ".scale.__init__/scale (stored factor)", "exact": exact_ops(texts[0][1])})
        gen_wrapper(out, "tl_scale", modname + ".scale", source, w, [("individual", LT)], {"factor": LT}, "func",
                    math_names, mathmod, numpy_name, alias[:1])
    except Refuse as e:
        for a in alias:
            if a[0] not in out.order:
                out.refuse(a[0], e, a[1])
    # rotate
    alias = [("tl_rotate_arg", "Definition tl_rotate_arg {T : Type} `{Num T} := spec_rotate_arg (T:=T).")]
    try:
        cls, m, w = inner("rotate", "__call__", "wrapper")
        check_params(w, [("individual", LT)], allow_star=True)
        for meth in ("__init__", "rotate"):
            fm = find_method(cls, meth)
            if fm is None or not assigns_field(fm, "matrix", lambda e: is_inv_call(e, numpy_name, "matrix")):
                refuse(cls, "rotate.%s must store numpy.linalg.inv(matrix) in self.matrix" % meth)
        gen_wrapper(out, "tl_rotate", modname + ".rotate", source, w, [("individual", LT)], {"matrix": LLT}, "func",
                    math_names, mathmod, numpy_name, alias)
    except Refuse as e:
        out.refuse(alias[0][0], e, alias[0][1])
    # noise
    alias = [("tl_noise_arg", "Definition tl_noise_arg {T : Type} `{Num T} := spec_noise_arg (T:=T)."),
             ("tl_noise_post", "Definition tl_noise_post {T : Type} `{Num T} := spec_noise_post (T:=T).")]
    try:
        cls, m, w = inner("noise", "__call__", "wrapper")
        check_params(w, [("individual", LT)], allow_star=True)
        gen_wrapper(out, "tl_noise", modname + ".noise", source, w, [("individual", LT)], {"rand_funcs": L(O(T))}, "func",
                    math_names, mathmod, numpy_name, alias, post=True)
    except Refuse as e:
        for a in alias:
            if a[0] not in out.order:
                out.refuse(a[0], e, a[1])


def gen_bin2float(out, source):
    modname = "deap.benchmarks.binary.bin2float"
    alias = [("bin_bin2float_arg", "Definition bin_bin2float_arg {T : Type} `{Num T} := spec_bin2float_arg (T:=T).")]
    try:
        tree = ast.parse(source)
        math_names, mathmod, numpy_name = module_imports(tree)
        f = top_functions(tree).get("bin2float")
        if f is None:
            refuse("bin2float", "function not found")
        check_params(f, [("min_", T), ("max_", T), ("nbits", Z)])
        wrap = [n for n in f.body if isinstance(n, ast.FunctionDef)]
        if len(wrap) != 1:
            refuse(f, "expected one inner function")
        check_params(wrap[0], [("function", None)])
        w = [n for n in wrap[0].body if isinstance(n, ast.FunctionDef)]
        if len(w) != 1:
            refuse(wrap[0], "expected one inner function")
        check_params(w[0], [("individual", LZ)], allow_star=True)
        # outer parameters are closure constants of the wrapper
        gen_wrapper(out, "bin_bin2float", modname, source, w[0],
                    [("min_", T), ("max_", T), ("nbits", Z), ("individual", LZ)], {}, "function",
                    math_names, mathmod, numpy_name, alias)
    except Refuse as e:
        if alias[0][0] not in out.order:
            out.refuse(alias[0][0], e, alias[0][1])


MP_FIELDS = {"peaks_function": L(PEAKFN), "peaks_position": LLT, "peaks_height": LT, "peaks_width": LT,
             "basis_function": O(Fn([LT], T))}


def gen_movingpeaks(out, source):
    modname = "deap.benchmarks.movingpeaks"
    gen_plain(out, "mp", modname, source, MPFUN, "spec_mp")
    tree = ast.parse(source)
    math_names, mathmod, numpy_name = module_imports(tree)
    cls = find_class(tree, "MovingPeaks")
    # __call__
    alias = "Definition mp_call {T : Type} `{Num T} := spec_mp_call (T:=T)."
    try:
        if cls is None:
            refuse("MovingPeaks", "class not found")
        m = find_method(cls, "__call__")
        if m is None:
            refuse(cls, "__call__ not found")
        extra = check_params(m, [("individual", LT)], skip_self=True, defaults_ok=True)
        if extra != ["count"]:
            refuse(m, "unexpected parameters %r" % extra)
        r = translate_function(modname, "mp_call", m, [("individual", LT)], source, {}, math_names, math_module=mathmod,
                               fields=MP_FIELDS, skip_if=["count"])
        tr = r["tr"]
        if r["ret"] != LT:
            refuse(m, "__call__ does not return a tuple of numbers")
        if set(tr.used_fields) != set(MP_FIELDS):
            refuse(m, "__call__ reads fields %r" % sorted(tr.used_fields))
        binders = [("s_" + f, MP_FIELDS[f]) for f in MP_FIELDS] + [("v_individual", LT)]
        out.add("mp_call", render_def("mp_call", binders, coqtype(LT), r["body"]),
                {"python": modname + ".MovingPeaks.__call__", "skipped": tr.skipped, "exact": False})
    except Refuse as e:
        out.refuse("mp_call", e, alias)
    # changePeaks: peak-count arithmetic
    alias = "Definition mp_cp_count {T : Type} `{Num T} := spec_mp_cp_count (T:=T)."
    try:
        m = find_method(cls, "changePeaks") if cls is not None else None
        if m is None:
            refuse("MovingPeaks", "changePeaks not found")
        try:
            text = extract_change_count(m, source, math_names, mathmod)
        except Refuse:
            raise
        except Exception as e:  # noqa
            refuse(m, "translator internal error %s: %s" % (type(e).__name__, e))
        out.add("mp_cp_count", text, {"python": modname + ".MovingPeaks.changePeaks (number of peaks)", "exact": True})
    except Refuse as e:
        out.refuse("mp_cp_count", e, alias)


LISTS5 = ["peaks_function", "peaks_position", "peaks_height", "peaks_width", "last_change_vector"]


def is_self_attr(e, name=None):
    return (isinstance(e, ast.Attribute) and isinstance(e.value, ast.Name) and e.value.id == "self"
            and (name is None or e.attr == name))


def is_random_call(e, meth):
    return (isinstance(e, ast.Call) and isinstance(e.func, ast.Attribute) and e.func.attr == meth
            and is_self_attr(e.func.value, "random"))


def extract_change_count(m, source, math_names, mathmod):
    """The first statement group of changePeaks: how many peaks are removed / added.  Structure is checked
    statement by statement; the two `n = min(...)` expressions and the branch test are translated."""
    body = [s for s in m.body if not (isinstance(s, ast.Expr) and isinstance(s.value, ast.Constant))]
    if not body or not isinstance(body[0], ast.If):
        refuse(m, "changePeaks must start with the peak-number block")
    blk = body[0]
    t = blk.test
    ok = (isinstance(t, ast.BoolOp) and isinstance(t.op, ast.And) and len(t.values) == 2 and all(
        isinstance(c, ast.Compare) and len(c.ops) == 1 and isinstance(c.ops[0], ast.IsNot) and
        isinstance(c.comparators[0], ast.Constant) and c.comparators[0].value is None for c in t.values)
        and is_self_attr(t.values[0].left, "minpeaks") and is_self_attr(t.values[1].left, "maxpeaks"))
    if not ok or blk.orelse:
        refuse(blk, "peak-number block must be guarded by minpeaks/maxpeaks is not None")
    # later statements must not change the number of peaks
    for s in body[1:]:
        for n in ast.walk(s):
            if isinstance(n, ast.Call) and isinstance(n.func, ast.Attribute) and n.func.attr in (
                    "pop", "append", "extend", "insert", "remove", "clear") and is_self_attr(n.func.value) \
                    and n.func.value.attr in LISTS5:
                refuse(n, "the per-peak lists change length outside the peak-number block")
            if isinstance(n, (ast.Assign, ast.AugAssign, ast.Delete)):
                tgts = n.targets if not isinstance(n, ast.AugAssign) else [n.target]
                for tg in tgts:
                    if is_self_attr(tg) and tg.attr in LISTS5 + ["minpeaks", "maxpeaks"]:
                        refuse(n, "rebinding of %s" % tg.attr)
                    if isinstance(tg, ast.Subscript) and isinstance(tg.slice, ast.Slice):
                        refuse(n, "slice assignment")
    st = blk.body
    if len(st) != 4:
        refuse(blk, "peak-number block must have 4 statements")
    a0, a1, a2, br = st

    def is_assign(s, name):
        return isinstance(s, ast.Assign) and len(s.targets) == 1 and isinstance(s.targets[0], ast.Name) and s.targets[0].id == name
    if not (is_assign(a0, "npeaks") and isinstance(a0.value, ast.Call) and isinstance(a0.value.func, ast.Name)
            and a0.value.func.id == "len" and is_self_attr(a0.value.args[0], "peaks_function")):
        refuse(a0, "npeaks = len(self.peaks_function) expected")
    if not (is_assign(a1, "u") and is_random_call(a1.value, "random")):
        refuse(a1, "u = self.random.random() expected")
    if not is_assign(a2, "r"):
        refuse(a2, "r = ... expected")
    if not isinstance(br, ast.If) or len(br.orelse) == 0:
        refuse(br, "if u < 0.5: ... else: ... expected")
    fields = {"minpeaks": Z, "maxpeaks": Z, "number_severity": T}
    params = [("npeaks", Z), ("u1", T), ("u2", T)]

    def tr_expr(e, env_extra):
        tr = FnTr("mp", "changePeaks", [("npeaks", Z)], source, {}, math_names, math_module=mathmod, fields=fields)
        tr._lets = []
        tr.env.update(env_extra)
        return tr, tr.expr(e)
    tr0, (rs, rt) = tr_expr(a2.value, {})
    if rt != Z:
        refuse(a2, "r is not an integer")
    tr1, (cs, ct) = tr_expr(br.test, {"u": T, "r": Z})
    if ct != B:
        refuse(br, "branch test is not boolean")

    def branch(stmts, kind):
        if len(stmts) != 3:
            refuse(br, "branch must be: u = random(); n = ...; for i in range(n): ...")
        b0, b1, b2 = stmts
        if not (is_assign(b0, "u") and is_random_call(b0.value, "random")):
            refuse(b0, "u = self.random.random() expected")
        if not is_assign(b1, "n"):
            refuse(b1, "n = ... expected")
        _, (ns, nt) = tr_expr(b1.value, {"u": T, "r": Z})
        if nt != Z:
            refuse(b1, "n is not an integer")
        if not (isinstance(b2, ast.For) and isinstance(b2.target, ast.Name) and isinstance(b2.iter, ast.Call)
                and isinstance(b2.iter.func, ast.Name) and b2.iter.func.id == "range" and len(b2.iter.args) == 1
                and isinstance(b2.iter.args[0], ast.Name) and b2.iter.args[0].id == "n" and not b2.orelse):
            refuse(b2, "for i in range(n) expected")
        calls = []
        for s in b2.body:
            if isinstance(s, ast.Assign):
                if not (kind == "pop" and is_assign(s, "idx") and is_random_call(s.value, "randrange")):
                    refuse(s, "only idx = self.random.randrange(...) may be assigned in the loop")
                continue
            if not (isinstance(s, ast.Expr) and isinstance(s.value, ast.Call) and isinstance(s.value.func, ast.Attribute)
                    and s.value.func.attr == kind and is_self_attr(s.value.func.value) and len(s.value.args) == 1):
                refuse(s, "loop body must consist of self.<list>.%s(...)" % kind)
            if kind == "pop" and not (isinstance(s.value.args[0], ast.Name) and s.value.args[0].id == "idx"):
                refuse(s, "pop(idx) expected")
            calls.append(s.value.func.value.attr)
        if sorted(calls) != sorted(LISTS5):
            refuse(b2, "each of the five per-peak lists must be changed exactly once per iteration")
        return ns
    n_rem = branch(br.body, "pop")
    n_add = branch(br.orelse, "append")
    text = ("Definition mp_cp_count {T : Type} `{Num T} (s_minpeaks s_maxpeaks : Z) (s_number_severity : T) "
            "(v_npeaks : Z) (v_u1 v_u2 : T) : Z :=\n"
            "  let v_u := v_u1 in\n  let v_r := %s in\n"
            "  if %s\n  then (let v_u := v_u2 in let v_n := %s in Z.sub v_npeaks (zlen (py_range v_n)))\n"
            "  else (let v_u := v_u2 in let v_n := %s in Z.add v_npeaks (zlen (py_range v_n))).\n" % (rs, cs, n_rem, n_add))
    return text


HEADER = """(* GENERATED by harness/c20_py2coq.py from the working tree of $VERIF_REPO -- do not edit, never committed. *)
From Coq Require Import ZArith List Bool Floats.
From DV Require Import Base.PyList Base.C20_Num Model.C20_BenchSpec.
Import ListNotations.

"""


def translate_all(repo):
    """returns (coq text, meta dict)"""
    out = Output()
    base = os.path.join(repo, "deap", "benchmarks")

    def src(name):
        return open(os.path.join(base, name)).read()
    gen_plain(out, "bm", "deap.benchmarks", src("__init__.py"), BENCH, "spec_bm")
    gen_plain(out, "bin", "deap.benchmarks.binary", src("binary.py"), BINARY, "spec_bin", fuel=FUEL, generic=False)
    def guarded(fn, source, aliases):
        """a crash of the translator on an unforeseen AST shape refuses the definitions of that group"""
        try:
            fn(out, source)
        except SyntaxError:
            raise
        except Exception as e:  # noqa
            for name, spec in aliases:
                if name not in out.order:
                    out.refuse(name, "translator internal error %s: %s" % (type(e).__name__, e),
                               "Definition %s {T : Type} `{Num T} := %s (T:=T)." % (name, spec))
    guarded(gen_bin2float, src("binary.py"), [("bin_bin2float_arg", "spec_bin2float_arg")])
    gen_plain(out, "gp", "deap.benchmarks.gp", src("gp.py"), GP, "spec_gp")
    guarded(gen_movingpeaks, src("movingpeaks.py"),
            [("mp_cone", "spec_mp_cone"), ("mp_sphere", "spec_mp_sphere"), ("mp_function1", "spec_mp_function1"),
             ("mp_call", "spec_mp_call"), ("mp_cp_count", "spec_mp_cp_count")])
    guarded(gen_tools, src("tools.py"),
            [("tl_translate_arg", "spec_translate_arg"), ("tl_scale_factor", "spec_scale_factor"),
             ("tl_scale_arg", "spec_scale_arg"), ("tl_rotate_arg", "spec_rotate_arg"),
             ("tl_noise_arg", "spec_noise_arg"), ("tl_noise_post", "spec_noise_post")])
    text = HEADER + "\n".join(out.defs)
    meta = {"functions": out.meta, "refused": out.refused, "order": out.order}
    text += "\n(* META %s *)\n" % json.dumps({"refused": out.refused}, sort_keys=True)
    return text, meta


if __name__ == "__main__":
    import sys
    t, m = translate_all(sys.argv[1] if len(sys.argv) > 1 else "/repo")
    sys.stdout.write(t)
    sys.stderr.write(json.dumps(m["refused"], indent=1) + "\n")
