"""C13 — CMA-ES strategy update (deap/cma.py class Strategy).

Oracle  : an independent numpy statement of Hansen's (mu/mu_w, lambda)-CMA-ES equations (paper form,
          C^{-1/2} from this file's own eigendecomposition of the pre-update C) and of the documented
          defaults, evaluated on the live strategy before/after every call; plus the consistency
          clauses (symmetry, stored decomposition, sigma > 0, weights, sampling, order independence).
Tie     : every call is re-evaluated by the Coq model Model/C13_CMAexec.v inside coqc (Corr/C13.v)
          from the attributes read before the call, numpy's eigh value and the recorded normal draws.
"""
import copy
import json
import math
import os

import re

import numpy

import vlib
from vlib import cnat, cfloat, clist, copt

RTOL = 1e-9
ATOL = 1e-12


# ---------------------------------------------------------------------------------------------
# tie (T): regenerate coq/Gen/C13_gen.v from the working tree (harness/c13_py2coq.py)
# ---------------------------------------------------------------------------------------------
GEN = os.path.join(vlib.COQ, "Gen", "C13_gen.v")


def _typechecks(txt):
    """does the regenerated text compile?  -> (ok, line number of the first error or None)"""
    import shutil
    import subprocess
    import tempfile
    d = tempfile.mkdtemp(prefix="c13gen_")
    try:
        fn = os.path.join(d, "C13_gen_probe.v")
        with open(fn, "w") as f:
            f.write(txt)
        p = subprocess.run(["timeout", "300", "coqc", "-Q", vlib.COQ, "DV", "-w", "none", fn], cwd=d,
                           stdout=subprocess.PIPE, stderr=subprocess.STDOUT, text=True)
        if p.returncode == 0:
            return True, None
        m = re.search(r'line (\d+), characters', p.stdout)
        return ("Error" not in p.stdout), (int(m.group(1)) if m else None)   # killed without a Coq error: no verdict
    finally:
        shutil.rmtree(d, ignore_errors=True)


def regen(repo=None):
    """Returns (ok, message, status) -- status: unit -> None (translated) | Refuse (the unit is an alias of the hand
    model); ok is False when nothing could be translated.  A regenerated definition that does not type-check counts as
    a refusal of that unit."""
    import c13_py2coq
    repo = repo or vlib.REPO
    forced = tuple(x for x in os.environ.get("C13_FORCE_REFUSE", "").split(",") if x)
    extra = {}
    try:
        txt, status = c13_py2coq.translate_repo(repo, forced)
        if os.path.exists(os.path.join(vlib.COQ, "Model", "C13_GenRt.vo")):
            for _ in range(len(status)):
                ok, line = _typechecks(txt)
                if ok:
                    break
                heads = [(i + 1, l) for i, l in enumerate(txt.split("\n")[:line or 0]) if l.startswith("Definition gen_")]
                bad = None
                if heads:
                    bad = [k for k in c13_py2coq.ORDER if heads[-1][1].startswith(c13_py2coq.HEADS[k].split(" {")[0].split(" (")[0] + " ")]
                    bad = bad[0] if bad else None
                if bad is None or bad in extra:
                    raise RuntimeError("regenerated text does not compile (line %s)" % line)
                extra[bad] = c13_py2coq.Refuse("FunctionDef", "the regenerated definition does not type-check")
                txt, status = c13_py2coq.translate_repo(repo, forced + tuple(extra))
                for k, v in extra.items():
                    status[k] = v
    except Exception as e:  # noqa  (a translator crash is a refusal of everything: fail closed)
        r = c13_py2coq.Refuse("Module", "translator error %s: %s" % (type(e).__name__, e))
        txt, status = c13_py2coq.translate_source("\x00")     # all placeholders
        status = {k: r for k in status}
    with vlib.BuildLock():
        os.makedirs(os.path.dirname(GEN), exist_ok=True)
        old = open(GEN).read() if os.path.exists(GEN) else None
        if old != txt:
            with open(GEN, "w") as f:
                f.write(txt)
    names = c13_py2coq.NAMES
    done = [names[k] for k in c13_py2coq.ORDER if status[k] is None]
    refused = ["%s (%s)" % (names[k], status[k]) for k in c13_py2coq.ORDER if status[k] is not None]
    msg = "regenerated: %s" % (", ".join(done) or "nothing")
    if refused:
        msg += "; translator refused: " + "; ".join(refused)
    return bool(done), msg, status


def tie_T(run):
    """Regenerate, re-prove `regenerated = hand model` and the theorems on the regenerated definitions.
    Returns (check function of the correspondence, requires, translated-but-not-proved flag)."""
    import c13_py2coq
    names = c13_py2coq.NAMES
    ok, msg, status = regen()
    refused = {k: v for k, v in status.items() if v is not None}
    done = [names[k] for k in c13_py2coq.ORDER if status[k] is None]
    run.extra_cov["regenerated_functions"] = done
    run.extra_cov["translator_refused"] = {names[k]: str(v) for k, v in refused.items()}
    for k, v in refused.items():
        run.notes.append("tie: correspondence-only (translator refused %s at line %s in %s: %s)"
                         % (v.node, v.line, names[k], v.why))
    if not ok:
        run.extra_cov["tie"] = "correspondence-only (%s)" % msg
        return "check", [], False
    gen_ok = run.build_props(props="Props/C13_gen.v", extra=["Corr/C13_gen.v"])
    if gen_ok:
        run.notes.append("tie: regenerated (%s)" % ", ".join(done))
        run.extra_cov["tie"] = ("translation (regenerated units proved equal to the hand model: %s) + correspondence%s; "
                                "the matrix statements of update / generate / __init__: correspondence only"
                                % (", ".join(done), "; correspondence-only for " + ", ".join(
                                    sorted(names[k] for k in refused)) if refused else ""))
        run.trusted.append("translator harness/c13_py2coq.py with its signature tables (attribute kinds, params.get keys, which "
                           "attribute version a fragment of update reads) and the vocabulary coq/Model/C13_GenRt.v (numpy.arange / "
                           "log / ones / sum / linalg.norm, max / min, float(<), `**` with an integral exponent as repeated "
                           "multiplication, the decimal reading of float literals); the regenerated definitions are proved equal to "
                           "the hand model (Proofs/C13_gen_equiv.v) and evaluated against the implementation on every run")
        return "check_both", ["From DV Require Import Corr.C13_gen."], False
    run.extra_cov["tie"] = "translator succeeded but the regenerated definitions are no longer (provably) the model"
    try:        # name the equivalence lemma / theorem that no longer checks
        src = {}
        for w in (run.broken[-1].get("where") or []) if run.broken else []:
            m = re.match(r"(.+\.v):(\d+)$", w)
            if not m:
                continue
            fn, line = m.group(1), int(m.group(2))
            if fn not in src:
                src[fn] = open(os.path.join(vlib.COQ, fn)).read().split("\n")
            names_ = re.findall(r"(?m)^\s*(?:Lemma|Theorem)\s+([A-Za-z0-9_']+)", "\n".join(src[fn][:line]))
            if names_:
                run.notes.append("tie (T) broke at %s (%s:%d): the regenerated definition is not provably the hand model"
                                 % (names_[-1], fn, line))
                run.extra_cov["broken_equivalence"] = names_[-1]
    except Exception:  # noqa
        pass
    try:        # keep the offending text for the replay
        with open(os.path.join(run.rundir, "C13_gen.v.broken"), "w") as f:
            f.write(open(GEN).read())
    except OSError:
        pass
    return "check", [], True


# ---------------------------------------------------------------------------------------------
# Coq literals
# ---------------------------------------------------------------------------------------------
def cvec(v):
    return clist([cfloat(float(x)) for x in v])


def cmat(m):
    return clist([cvec(r) for r in m])


SCHEME = {"superlinear": "Superlinear", "linear": "Linear", "equal": "Equal"}


def ckargs(kw):
    return "(FK %s %s %s %s %s %s %s %s %s)" % (
        copt(kw.get("lambda_"), cnat), copt(kw.get("mu"), cnat), SCHEME[kw.get("weights", "superlinear")],
        copt(kw.get("cmatrix"), cmat), copt(kw.get("ccum"), cfloat), copt(kw.get("cs"), cfloat),
        copt(kw.get("ccov1"), cfloat), copt(kw.get("ccovmu"), cfloat), copt(kw.get("damps"), cfloat))


def cparams(P):
    return "(FP %s %s %s %s %s %s %s %s %s %s %s)" % (
        cnat(P["dim"]), cnat(P["lambda_"]), cnat(P["mu"]), cvec(P["weights"]), cfloat(P["mueff"]),
        cfloat(P["cc"]), cfloat(P["cs"]), cfloat(P["ccov1"]), cfloat(P["ccovmu"]), cfloat(P["damps"]),
        cfloat(P["chiN"]))


def cstate(S):
    return "(FS %s %s %s %s %s %s %s %s %s)" % (
        cvec(S["centroid"]), cfloat(S["sigma"]), cvec(S["pc"]), cvec(S["ps"]), cmat(S["C"]), cmat(S["B"]),
        cvec(S["diagD"]), cmat(S["BD"]), cnat(S["update_count"]))


# ---------------------------------------------------------------------------------------------
# reading the live strategy
# ---------------------------------------------------------------------------------------------
def read_params(s):
    return {"dim": int(s.dim), "lambda_": int(s.lambda_), "mu": int(s.mu),
            "weights": [float(x) for x in s.weights], "mueff": float(s.mueff), "cc": float(s.cc),
            "cs": float(s.cs), "ccov1": float(s.ccov1), "ccovmu": float(s.ccovmu), "damps": float(s.damps),
            "chiN": float(s.chiN)}


def read_state(s):
    return {"centroid": numpy.array(s.centroid, dtype=float).copy(), "sigma": float(s.sigma),
            "pc": numpy.array(s.pc, dtype=float).copy(), "ps": numpy.array(s.ps, dtype=float).copy(),
            "C": numpy.array(s.C, dtype=float).copy(), "B": numpy.array(s.B, dtype=float).copy(),
            "diagD": numpy.array(s.diagD, dtype=float).copy(), "BD": numpy.array(s.BD, dtype=float).copy(),
            "update_count": int(s.update_count)}


def jsonable(d):
    out = {}
    for k, v in d.items():
        if isinstance(v, numpy.ndarray):
            out[k] = v.tolist()
        elif isinstance(v, dict):
            out[k] = jsonable(v)
        else:
            out[k] = v
    return out


# ---------------------------------------------------------------------------------------------
# the published equations (independent statement; Hansen, "The CMA Evolution Strategy: A Tutorial",
# and the parameter table of the Strategy docstring)
# ---------------------------------------------------------------------------------------------
def spec_weights(scheme, mu):
    i = numpy.arange(1, mu + 1, dtype=float)
    if scheme == "superlinear":
        w = math.log(mu + 0.5) - numpy.log(i)
    elif scheme == "linear":
        w = mu + 0.5 - i
    else:
        w = numpy.ones(mu)
    return w / w.sum()


def spec_params(dim, lambda_, kw):
    """Documented defaults (docstring table) unless user supplied."""
    N = float(dim)
    mu = kw.get("mu", lambda_ // 2)
    w = spec_weights(kw.get("weights", "superlinear"), mu)
    mueff = 1.0 / float((w ** 2).sum())
    cc = kw.get("ccum", 4.0 / (N + 4.0))
    cs = kw.get("cs", (mueff + 2.0) / (N + mueff + 3.0))
    c1 = kw.get("ccov1", 2.0 / ((N + 1.3) ** 2 + mueff))
    cmu = kw.get("ccovmu", 2.0 * (mueff - 2.0 + 1.0 / mueff) / ((N + 2.0) ** 2 + mueff))
    cmu = min(1.0 - c1, cmu)
    damps = kw.get("damps", 1.0 + 2.0 * max(0.0, math.sqrt((mueff - 1.0) / (N + 1.0)) - 1.0) + cs)
    chiN = math.sqrt(N) * (1.0 - 1.0 / (4.0 * N) + 1.0 / (21.0 * N * N))
    return {"dim": dim, "lambda_": lambda_, "mu": mu, "weights": w, "mueff": mueff, "cc": cc, "cs": cs,
            "ccov1": c1, "ccovmu": cmu, "damps": damps, "chiN": chiN}


def spec_update(P, S, xs_sorted):
    """One generation from state S (dict) with the population sorted best first.
    Returns the new (m, ps, pc, C, sigma, hsig, margin)."""
    n, mu = P["dim"], P["mu"]
    w = numpy.asarray(P["weights"], dtype=float)
    m, sigma, C = S["centroid"], S["sigma"], S["C"]
    x = numpy.asarray(xs_sorted[:mu], dtype=float)
    y = (x - m) / sigma                                   # y_{i:lambda}
    yw = (w[:, None] * y).sum(axis=0)                     # <y>_w
    m_new = m + sigma * yw
    ev, E = numpy.linalg.eigh((C + C.T) / 2.0)            # own decomposition of the pre-update C
    Cinvsqrt = E @ numpy.diag(ev ** -0.5) @ E.T
    cs, cc, c1, cmu, mueff = P["cs"], P["cc"], P["ccov1"], P["ccovmu"], P["mueff"]
    ps = (1 - cs) * S["ps"] + math.sqrt(cs * (2 - cs) * mueff) * (Cinvsqrt @ yw)
    g = S["update_count"] + 1
    lhs = math.sqrt(float(ps @ ps)) / math.sqrt(1 - (1 - cs) ** (2 * g)) / P["chiN"]
    rhs = 1.4 + 2.0 / (n + 1.0)
    hsig = 1.0 if lhs < rhs else 0.0
    pc = (1 - cc) * S["pc"] + hsig * math.sqrt(cc * (2 - cc) * mueff) * yw
    rank_mu = numpy.zeros((n, n))
    for i in range(mu):
        rank_mu += w[i] * numpy.outer(y[i], y[i])
    delta = (1 - hsig) * cc * (2 - cc)
    C_new = (1 - c1 - cmu) * C + c1 * (numpy.outer(pc, pc) + delta * C) + cmu * rank_mu
    sigma_new = sigma * math.exp((cs / P["damps"]) * (math.sqrt(float(ps @ ps)) / P["chiN"] - 1))
    return {"centroid": m_new, "ps": ps, "pc": pc, "C": C_new, "sigma": sigma_new, "hsig": hsig,
            "margin": abs(lhs - rhs) / rhs, "cond": float(ev.max() / ev.min()) if ev.min() > 0 else float("inf")}


def close_arr(a, b, factor=1.0):
    a, b = numpy.asarray(a, dtype=float), numpy.asarray(b, dtype=float)
    if a.shape != b.shape or not (numpy.all(numpy.isfinite(a)) and numpy.all(numpy.isfinite(b))):
        return False
    scale = max(float(numpy.abs(a).max(initial=0.0)), float(numpy.abs(b).max(initial=0.0)))
    return bool(numpy.abs(a - b).max(initial=0.0) <= ATOL + RTOL * factor * scale)


# ---------------------------------------------------------------------------------------------
# objective functions (return a tuple of values) ; fitness weights chosen by the run
# ---------------------------------------------------------------------------------------------
def f_sphere(x):
    return (float(sum(v * v for v in x)),)


def f_elli(x):
    n = len(x)
    return (float(sum((10.0 ** (3.0 * i / max(1, n - 1))) * v * v for i, v in enumerate(x))),)


def f_rosen(x):
    return (float(sum(100.0 * (x[i + 1] - x[i] ** 2) ** 2 + (1 - x[i]) ** 2 for i in range(len(x) - 1))),)


def f_rastrigin(x):
    return (float(10 * len(x) + sum(v * v - 10 * math.cos(2 * math.pi * v) for v in x)),)


def f_linear(x):
    return (float(x[0]),)


def f_stairs(x):          # plateaus: many ties (exercises the stable descending sort)
    return (float(sum(math.floor(2 * abs(v)) for v in x)),)


def f_two(x):             # two objectives: lexicographic comparison of the weighted tuple
    return (float(round(sum(v * v for v in x), 1)), float(x[0]))


OBJECTIVES = [("sphere", f_sphere), ("elli", f_elli), ("rosen", f_rosen), ("rastrigin", f_rastrigin),
              ("linear", f_linear), ("stairs", f_stairs), ("two", f_two)]


def main(run):
    from deap import base, cma, creator
    run.level = "proof"
    run.rule = ("computeParams: grid dim x lambda x mu(1..lambda) x {superlinear,linear,equal} plus random user-supplied rates; "
                "__init__: random centroid/sigma/SPD cmatrix/default lambda; update: runs of 1..50 generations (dim 2..8 in Coq, "
                "2..20 by the numpy oracle) on 7 objectives (min/max, ties, 2 objectives), list and ndarray individuals, every "
                "update re-evaluated from the strategy's own pre-update attributes, plus synthetic pre-states (random ps/pc/"
                "update_count, both h_sigma branches); generate: seeded numpy draws recorded and replayed. A case is distinct by "
                "its full input; non-trivial = population with at least two different fitness values.")
    run.trusted += ["Coq 8.16.1 kernel and vm_compute",
                    "hand-written model coq/Model/C13_CMAexec.v (lists, generic number type) tied to /repo by correspondence at the "
                    "PrimFloat instance; the theorems are about coq/Model/C13_CMAalg.v (mathcomp matrices), which the list model "
                    "refines at every real closed field (Props/C13_refine.v: computeParams, __init__, generate, update end to end incl. "
                    "the population sort); not linked by proof: int(4 + 3 log N) (default lambda_) and the PrimFloat instance itself",
                    "numpy.linalg.eigh as an oracle: contract V diag(w) V^T = C, V^T V = I checked numerically on every value used",
                    "PrimFloat exp/ln approximations of coq/Base/C13_FloatFun.v (only inside the tolerance comparison)",
                    "N3 tolerance: rtol 1e-9 relative to the largest magnitude of the compared array (x max(1, cond C) for the "
                    "numpy oracle), atol 1e-12; floating-point rounding/overflow not verified",
                    "numpy.random.standard_normal draws N(0, I) (sampling covariance is the algebraic identity BD BD^T = C)"]
    run.assumptions += ["1 <= mu <= lambda (mu = 0 divides by zero in computeParams)", "sigma > 0, C symmetric positive definite",
                        "fitness values finite; order independence only for pairwise distinct fitnesses",
                        "cmatrix given as a numpy array"]
    run.build_props()                                  # Props/C13.v (mathcomp, algebraic model)
    run.build_props(props="Props/C13_exec.v")         # list model + Reals instance
    run.build_props(props="Props/C13_refine.v")       # list model (at any real closed field) refines the algebraic model
    # tie (T): regenerate Gen/C13_gen.v from the working tree, re-prove `regenerated = model` and the theorems on it
    gen_check, gen_reqs, gen_unproved = tie_T(run)
    rng = run.rng
    nprng = numpy.random.RandomState(rng.randrange(2 ** 31))

    fits = {}

    def indcls(weights, array):
        """array: False/'list' -> list individuals, True/'ndarray' -> numpy.ndarray, 'array' -> array.array('d')"""
        kind = {False: "list", True: "ndarray"}.get(array, array)
        key = (tuple((type(w).__name__, w) for w in weights), kind)      # -1 and -1.0 are different weights here
        if key not in fits:
            fname = "C13Fit%d" % len(fits)
            iname = "C13Ind%d" % len(fits)
            creator.create(fname, base.Fitness, weights=tuple(weights))
            if kind == "ndarray":
                creator.create(iname, numpy.ndarray, fitness=getattr(creator, fname))
            elif kind == "array":
                import array as _array
                creator.create(iname, _array.array, typecode="d", fitness=getattr(creator, fname))
            else:
                creator.create(iname, list, fitness=getattr(creator, fname))
            fits[key] = getattr(creator, iname)
        return fits[key]

    terms = {"params": [], "init": [], "update": [], "gen": []}
    cases = {"params": [], "init": [], "update": [], "gen": []}
    stats = {"hsig0": 0, "hsig1": 0, "ties": 0, "order_checked": 0, "coq_updates": 0, "oracle_only_updates": 0,
             "near_threshold": 0, "max_cond": 0.0, "rejected_forgetting_rates": 0, "min_rate_product": float("inf"),
             "corpus_runs": 0, "slow_rate_runs": 0}

    def impl(fn, what, case):
        """Call implementation code; an exception is a concrete failing input of its own."""
        try:
            return True, fn()
        except Exception as e:  # noqa
            run.oracle_violation("%s raised %s: %s" % (what, type(e).__name__, str(e)[:200]), case)
            return False, None

    def add(group, term, case, nontrivial=True):
        terms[group].append(term)
        cases[group].append(case)

    # ---------------------------------------------------------------- weights / params oracle
    def oracle_params(s, kw, case, what="computeParams"):
        P = read_params(s)
        sp = spec_params(P["dim"], P["lambda_"], kw)
        w = numpy.asarray(P["weights"])
        ok_w = (len(w) == P["mu"] and numpy.all(w > 0) and numpy.all(numpy.diff(w) <= 0)
                and abs(float(w.sum()) - 1.0) <= 1e-12)
        if not ok_w:
            run.oracle_violation("recombination weights are not positive, non-increasing and summing to one (%s)" % what,
                                 case, observed=P)
        if P["mu"] != sp["mu"] or not close_arr(P["weights"], sp["weights"]):
            run.oracle_violation("weights differ from the documented scheme (%s)" % what, case, observed=P)
        for k in ("mueff", "cc", "cs", "ccov1", "ccovmu", "damps", "chiN"):
            if not close_arr([P[k]], [sp[k]]):
                run.oracle_violation("parameter %s differs from its documented default / the supplied value (%s)" % (k, what),
                                     case, observed={k: P[k], "expected": sp[k]})
        return P

    def logu(lo, hi):
        return math.exp(rng.uniform(math.log(lo), math.log(hi)))

    def rand_user(kw, p=0.5):
        """user-supplied learning rates: log-uniform from 1e-5 up to (and for ccovmu beyond) the clamp"""
        if rng.random() < p:
            kw["cs"] = logu(1e-5, 0.95)
        if rng.random() < p:
            kw["ccum"] = logu(1e-5, 1.0)
        if rng.random() < p:
            kw["ccov1"] = logu(1e-5, 0.5)
        if rng.random() < p:
            kw["ccovmu"] = logu(1e-5, 1.2)            # above 1 - ccov1 sometimes: the min() clamp
        if rng.random() < p:
            kw["damps"] = logu(0.05, 20.0)
        if "cs" in kw and "damps" in kw and kw["cs"] / kw["damps"] > 5.0:
            kw["damps"] = kw["cs"] / 5.0              # keeps sigma * exp(..) far from float overflow
        return kw

    def slow_rates(dim, product):
        """ccov1, ccovmu with (ccov1 + ccovmu) * dim * 10 == product, split log-uniformly"""
        total = product / (dim * 10.0)
        u = rng.choice([0.5, logu(1e-3, 0.999), 1.0 - logu(1e-3, 0.5)])
        return {"ccov1": total * u, "ccovmu": total * (1.0 - u)}

    def params_case(dim, lam, kw):
        case = {"kind": "params", "dim": dim, "lambda_": lam, "kargs": dict(kw)}
        run.note_case(case, True, sample=case if len(cases["params"]) % 211 == 3 else None)
        ok, s = impl(lambda: cma.Strategy([0.0] * dim, 1.0, **dict(kw, lambda_=lam)), "Strategy(...)", case)
        if not ok:
            return None
        P = oracle_params(s, kw, case)
        add("params", "CParams %s %s %s %s %s" % (cnat(dim), cnat(lam), cfloat(P["chiN"]), ckargs(kw), cparams(P)), case)
        return s

    dims_grid = run.scale([2, 5, 20], list(range(2, 21)))
    lam_grid = run.scale([4, 5, 9, 12], list(range(4, 17)))
    for dim in dims_grid:
        for lam in lam_grid:
            for mu in range(1, lam + 1):
                for sch in ("superlinear", "linear", "equal"):
                    params_case(dim, lam, {"mu": mu, "weights": sch})
    for _ in range(run.scale(150, 1500)):
        dim, lam = rng.randint(2, 20), rng.randint(4, 40)
        kw = {"weights": rng.choice(list(SCHEME))}
        if rng.random() < 0.7:
            kw["mu"] = rng.randint(1, lam)
        s = params_case(dim, lam, rand_user(kw))
        if s is not None and rng.random() < 0.3:
            # lambda changes during evolution: computeParams must be called again (docstring)
            s.lambda_ = rng.randint(4, 40)
            if "mu" in kw and kw["mu"] > s.lambda_:
                s.lambda_ = kw["mu"]
            case = {"kind": "params-recomputed", "dim": dim, "lambda_": s.lambda_, "kargs": dict(kw)}
            run.note_case(case)
            if not impl(lambda: s.computeParams(s.params), "computeParams", case)[0]:
                continue
            P = oracle_params(s, kw, case, "computeParams after lambda_ changed")
            add("params", "CParams %s %s %s %s %s" % (cnat(dim), cnat(s.lambda_), cfloat(P["chiN"]), ckargs(kw), cparams(P)), case)

    # ---------------------------------------------------------------- construction
    def rand_spd(n):
        kind = rng.random()
        Q, _ = numpy.linalg.qr(nprng.standard_normal((n, n)))
        if kind < 0.5:
            ev = numpy.exp(nprng.uniform(-1.5, 1.5, n))
        elif kind < 0.8:
            ev = 10.0 ** nprng.uniform(-2, 2, n)
        else:
            ev = numpy.ones(n) * float(numpy.exp(nprng.uniform(-1, 1)))   # multiple eigenvalue
        C = (Q * ev) @ Q.T
        return (C + C.T) / 2.0

    def oracle_consistency(s, case, what):
        """clauses that must hold after __init__ and after every update"""
        S = read_state(s)
        C = S["C"]
        n = len(S["centroid"])
        mag = float(numpy.abs(C).max())
        ok = True
        if not (numpy.all(numpy.isfinite(C)) and float(numpy.abs(C - C.T).max()) <= ATOL + RTOL * mag):
            run.oracle_violation("covariance matrix is not symmetric %s" % what, case, observed=jsonable(S))
            ok = False
        rec = S["B"] @ numpy.diag(S["diagD"] ** 2) @ S["B"].T
        if not close_arr(rec, C) or not close_arr(S["B"].T @ S["B"], numpy.identity(n)):
            run.oracle_violation("stored eigen-decomposition does not reproduce the covariance matrix %s" % what, case,
                                 observed=jsonable(S))
            ok = False
        if not close_arr(S["BD"] @ S["BD"].T, C):
            run.oracle_violation("sampling factor BD does not satisfy BD BD^T = C %s" % what, case, observed=jsonable(S))
            ok = False
        if not (S["sigma"] > 0 and math.isfinite(S["sigma"])):
            run.oracle_violation("step size is not positive %s" % what, case, observed=S["sigma"])
            ok = False
        return ok

    def new_strategy(n, coq, force_kw=None):
        """A strategy inside the domain of the update clauses: 1 - ccov1 - ccovmu > 0 (the old C is not forgotten
        completely) unless mu >= 2 dim; otherwise a rank-deficient C can arise (see design_notes/C13.md)."""
        for _ in range(50):
            s, kw = new_strategy_any(n, coq, force_kw)
            if s is None:
                return None, kw
            if 1.0 - float(s.ccov1) - float(s.ccovmu) >= 0.05 or s.mu >= 2 * n:
                return s, kw
            stats["rejected_forgetting_rates"] += 1
        return None, kw

    def new_strategy_any(n, coq, force_kw=None):
        kw = {"weights": rng.choice(list(SCHEME))}
        r = rng.random()
        if r < 0.75:
            kw["lambda_"] = rng.randint(4, 14 if coq else 30)
        lam = kw.get("lambda_", int(4 + 3 * math.log(n)))
        if rng.random() < 0.6:
            kw["mu"] = rng.randint(1, lam)
        if rng.random() < 0.6:
            kw["cmatrix"] = rand_spd(n)
        if rng.random() < 0.4:
            rand_user(kw, 0.6)
        if force_kw:
            kw.update(force_kw)
        if rng.random() < 0.15:
            centroid = [rng.randint(-5, 5) for _ in range(n)]          # integer start point
        else:
            centroid = [rng.uniform(-5, 5) for _ in range(n)]
        sigma = rng.choice([rng.uniform(0.1, 3.0), 10.0 ** rng.uniform(-3, 1), 1, 0.5])
        return build_strategy(centroid, sigma, kw, coq)

    def build_strategy(centroid, sigma, kw, coq):
        n = len(centroid)
        lam = kw.get("lambda_", int(4 + 3 * math.log(n)))
        case = {"kind": "init", "centroid": centroid, "sigma": sigma, "kargs": jsonable(kw)}
        run.note_case(case, True, sample=None)
        ok, s = impl(lambda: cma.Strategy(centroid, sigma, **kw), "Strategy(...)", case)
        if not ok:
            return None, kw
        P = oracle_params(s, kw, case, "__init__")
        S = read_state(s)
        C0 = numpy.array(kw["cmatrix"]) if "cmatrix" in kw else numpy.identity(n)
        if P["dim"] != n or P["lambda_"] != lam or not close_arr(S["C"], C0) or not close_arr(S["centroid"], centroid) \
                or S["sigma"] != sigma or numpy.any(S["ps"] != 0) or numpy.any(S["pc"] != 0) or S["update_count"] != 0:
            run.oracle_violation("__init__ does not start from the given centroid/sigma/covariance with zero paths", case,
                                 observed=jsonable(S))
        oracle_consistency(s, case, "after __init__")
        if coq:
            w, V = numpy.linalg.eigh(S["C"])
            add("init", "CInit %s %s %s (%s, %s) %s %s" % (cvec(centroid), cfloat(sigma), ckargs(kw), cvec(w), cmat(V),
                                                          cparams(P), cstate(S)), case)
        return s, kw

    # ---------------------------------------------------------------- one update, fully checked
    STATE_KEYS = ("centroid", "sigma", "pc", "ps", "C", "B", "diagD", "BD")

    def do_update(s, pop, coq, meta, wv_true=None):
        """pop: evaluated individuals. Runs s.update(pop) and checks everything.
        wv_true: the exact weighted values (value * weight computed by the harness from what it assigned) when they are
        integers beyond 2**53, which a float cannot tell apart; the ranking is judged on them."""
        P, S = read_params(s), read_state(s)
        wv_raw = list(wv_true) if wv_true is not None else [tuple(ind.fitness.wvalues) for ind in pop]
        wv = [tuple(float(v) for v in t) for t in wv_raw]
        xs = [[float(v) for v in ind] for ind in pop]
        case = dict(meta, kind="update", params=jsonable(P), pre=jsonable(S), wvalues=wv, xs=xs)
        if wv_true is not None:
            case["exact_wvalues"] = [[str(v) for v in t] for t in wv_raw]
        wv = wv_raw                      # exact values decide order and distinctness
        distinct = len(set(wv)) == len(wv)
        if not distinct:
            stats["ties"] += 1
        run.note_case((meta, wv, xs), len(set(wv)) >= 2,
                      sample={k: case[k] for k in ("kind", "objective", "gen", "wvalues")} if stats["coq_updates"] % 97 == 5 else None)
        # order independence: same pre-state, shuffled population (deep copies of everything)
        if distinct and len(pop) > 1:
            s2 = copy.deepcopy(s)
            pop2 = copy.deepcopy(pop)
            if rng.random() < 0.3:
                pop2.reverse()
            else:
                rng.shuffle(pop2)
            if not impl(lambda: s2.update(pop2), "update (shuffled population)", case)[0]:
                s2 = None
        else:
            s2 = None
        ids_before = {id(x): i for i, x in enumerate(pop)}
        if not impl(lambda: s.update(pop), "update", case)[0]:
            return False
        S1 = read_state(s)
        case["post"] = jsonable(S1)
        if s2 is not None:
            stats["order_checked"] += 1
            S2 = read_state(s2)
            bad = [k for k in STATE_KEYS if not numpy.array_equal(numpy.asarray(S1[k]), numpy.asarray(S2[k]))]
            if bad or S1["update_count"] != S2["update_count"]:
                run.oracle_violation("update depends on the order in which the individuals are passed (%s differ)" % ",".join(bad),
                                     case, observed={"shuffled_post": jsonable(S2)})
        # the published equations
        order = sorted(range(len(pop)), key=lambda i: wv[i], reverse=True)   # stable, best first
        if not distinct:
            # with ties "the mu best" is not unique: any best-first arrangement is acceptable.  update sorts the
            # list it is given in place, so the arrangement the implementation used can be read off the list.
            try:
                used = [ids_before[id(x)] for x in pop]
            except KeyError:
                used = []
            if sorted(used) == list(range(len(wv))) and all(wv[used[i]] >= wv[used[i + 1]] for i in range(len(used) - 1)):
                order = used
        sp = spec_update(P, S, [xs[i] for i in order])
        stats["max_cond"] = max(stats["max_cond"], sp["cond"])
        # own eigendecomposition of C vs the stored one: C^{-1/2} differs by O(eps * cond(C))
        factor = max(1.0, sp["cond"] / 1e4)
        near = sp["margin"] < 1e-7 * factor
        if near:
            stats["near_threshold"] += 1
        stats["hsig1" if sp["hsig"] else "hsig0"] += 1
        if S1["update_count"] != S["update_count"] + 1:
            run.oracle_violation("update_count not incremented", case, observed=S1["update_count"])
        mu = P["mu"]
        wmean = numpy.zeros(P["dim"])
        for k in range(mu):
            wmean += P["weights"][k] * numpy.asarray(xs[order[k]])
        if not close_arr(S1["centroid"], wmean) or not close_arr(S1["centroid"], sp["centroid"], factor):
            run.oracle_violation("centroid is not the weighted mean of the mu best individuals", case,
                                 observed={"centroid": S1["centroid"].tolist(), "expected": wmean.tolist()})
        if not close_arr(S1["ps"], sp["ps"], factor):
            run.oracle_violation("evolution path ps differs from the published equation", case,
                                 observed={"ps": S1["ps"].tolist(), "expected": sp["ps"].tolist()})
        if not near:
            if not close_arr(S1["pc"], sp["pc"], factor):
                run.oracle_violation("evolution path pc differs from the published equation", case,
                                     observed={"pc": S1["pc"].tolist(), "expected": sp["pc"].tolist(), "hsig": sp["hsig"]})
            if not close_arr(S1["C"], sp["C"], factor):
                run.oracle_violation("covariance matrix differs from the published rank-one + rank-mu update", case,
                                     observed={"C": S1["C"].tolist(), "expected": sp["C"].tolist(), "hsig": sp["hsig"]})
        if not close_arr([S1["sigma"]], [sp["sigma"]], factor):
            run.oracle_violation("step size differs from the published equation", case,
                                 observed={"sigma": S1["sigma"], "expected": sp["sigma"]})
        oracle_consistency(s, case, "after update")
        P1 = read_params(s)
        if P1 != P:
            run.oracle_violation("update changed a strategy parameter", case, observed=P1)
        if coq:
            stats["coq_updates"] += 1
            w, V = numpy.linalg.eigh(S1["C"]) if numpy.all(numpy.isfinite(S1["C"])) else (numpy.zeros(P["dim"]), numpy.identity(P["dim"]))
            # distinct fitnesses: the population as passed (the model sorts it); ties: in the best-first arrangement
            # established above (the model's stable sort leaves it unchanged)
            feed = range(len(wv)) if distinct else order
            popterm = clist(["(%s, %s)" % (cvec(wv[i]), cvec(xs[i])) for i in feed])
            small = {k: case[k] for k in ("kind", "objective", "gen", "params", "pre", "wvalues", "xs", "post") if k in case}
            add("update", "CUpdate %s %s %s (%s, %s) %s" % (cparams(P), cstate(S), popterm, cvec(w), cmat(V), cstate(S1)), small)
        else:
            stats["oracle_only_updates"] += 1
        return True

    # ---------------------------------------------------------------- generate, fully checked
    def do_generate(s, icls, coq, meta):
        P, S = read_params(s), read_state(s)
        seed = rng.randrange(2 ** 31)
        calls = []

        def ind_init(a):
            calls.append(numpy.array(a, dtype=float).copy())
            return icls(a)
        case = dict(meta, kind="generate", seed=seed, params=jsonable(P), pre=jsonable(S))
        run.note_case((meta, seed), True, sample=None)
        numpy.random.seed(seed)
        ok, pop = impl(lambda: s.generate(ind_init), "generate", case)
        if not ok:
            return None
        numpy.random.seed(seed)
        arz = numpy.random.standard_normal((P["lambda_"], P["dim"]))
        xs = [[float(v) for v in ind] for ind in pop]
        ok = (isinstance(pop, list) and len(pop) == P["lambda_"] and all(len(x) == P["dim"] for x in xs)
              and all(type(ind) is icls for ind in pop) and len(calls) == P["lambda_"])
        if not ok:
            run.oracle_violation("generate does not return lambda individuals of the problem dimension built with ind_init",
                                 case, observed={"len": len(pop), "dims": [len(x) for x in xs], "types": [type(i).__name__ for i in pop][:3]})
            if coq:
                add("gen", "CGen %s %s %s %s" % (cparams(P), cstate(S), cmat(arz), cmat(xs)), case)
            return None
        exp = S["centroid"] + S["sigma"] * (arz @ S["BD"].T)
        dev_obs = (numpy.asarray(xs) - S["centroid"])
        dev_exp = S["sigma"] * (arz @ S["BD"].T)
        scale = max(float(numpy.abs(dev_exp).max()), 1e-5 * float(numpy.abs(S["centroid"]).max()))
        if not close_arr(xs, exp) or float(numpy.abs(dev_obs - dev_exp).max()) > ATOL + RTOL * scale \
                or not close_arr(S["BD"] @ S["BD"].T, S["C"]):
            run.oracle_violation("samples are not centroid + sigma * BD z with BD BD^T = C (covariance sigma^2 C)", case,
                                 observed={"xs": xs, "expected": exp.tolist()})
        S_after = read_state(s)
        if any(not numpy.array_equal(numpy.asarray(S[k]), numpy.asarray(S_after[k])) for k in STATE_KEYS):
            run.oracle_violation("generate modified the strategy state", case)
        if coq:
            add("gen", "CGen %s %s %s %s" % (cparams(P), cstate(S), cmat(arz), cmat(xs)), case)
        return pop

    # ---------------------------------------------------------------- runs
    def evaluate(pop, f, scale_noise=False):
        for ind in pop:
            ind.fitness.values = f(ind)

    def own_samples(s, icls):
        """fallback population when generate misbehaved: the harness' own draw from N(m, sigma^2 C)"""
        S = read_state(s)
        n = len(S["centroid"])
        ev, E = numpy.linalg.eigh((S["C"] + S["C"].T) / 2.0)
        A = E * numpy.sqrt(numpy.maximum(ev, 0.0))
        z = nprng.standard_normal((int(s.lambda_), n))
        return [icls(row) for row in S["centroid"] + S["sigma"] * (z @ A.T)]

    def state_usable(s):
        try:
            return bool(numpy.all(numpy.isfinite(s.C)) and s.sigma > 0 and numpy.all(numpy.isfinite(s.diagD)) and
                        numpy.all(numpy.isfinite(s.B)) and numpy.all(numpy.isfinite(s.centroid)) and
                        numpy.all(numpy.isfinite(s.ps)) and numpy.all(numpy.isfinite(s.pc)) and
                        float(numpy.min(s.diagD)) > 0 and float(numpy.max(s.diagD) / numpy.min(s.diagD)) < 1e4 and
                        1e-150 < s.sigma < 1e150)
        except Exception:  # noqa
            return False

    def one_run(n, coq, gens, force_kw=None, fixed=None):
        try:
            one_run_(n, coq, gens, force_kw, fixed)
        except Exception as e:  # noqa  (a mutated implementation may leave attributes of unexpected type/shape)
            import traceback
            run.oracle_violation("strategy left in a state the harness cannot read: %s" % type(e).__name__,
                                 {"kind": "run", "dim": n}, observed=traceback.format_exc()[-1500:])

    def one_run_(n, coq, gens, force_kw=None, fixed=None):
        """fixed: a corpus entry (centroid, sigma, kargs, objective, fitness_weights, array_individuals)"""
        if fixed is not None:
            oname = fixed.get("objective", "sphere")
            f = dict(OBJECTIVES)[oname]
            weights = tuple(fixed.get("fitness_weights", [-1.0]))
            icls = indcls(weights, bool(fixed.get("array_individuals", False)))
            kw = dict(fixed.get("kargs", {}))
            if "cmatrix" in kw:
                kw["cmatrix"] = numpy.array(kw["cmatrix"], dtype=float)
            s, kw = build_strategy(list(fixed["centroid"]), fixed["sigma"], kw, coq)
        else:
            oname, f = rng.choice(OBJECTIVES)
            nobj = 2 if oname == "two" else 1
            weights = tuple(rng.choice([-1.0, -1.0, 1.0, -2.0]) for _ in range(nobj))
            icls = indcls(weights, rng.random() < 0.3)
            s, kw = new_strategy(n, coq, force_kw)
        if s is None or not state_usable(s):
            return
        stats["min_rate_product"] = min(stats["min_rate_product"], float((s.ccov1 + s.ccovmu) * n * 10))
        for g in range(gens):
            meta = {"objective": oname, "fitness_weights": list(weights), "gen": g, "dim": n}
            pop = do_generate(s, icls, bool(coq and (g < 3 or rng.random() < 0.25)), meta)
            if pop is None:
                pop = own_samples(s, icls)
            evaluate(pop, f)
            if fixed is None and rng.random() < 0.1 and s.mu < len(pop):
                # populations larger/smaller than lambda_ are legal as long as len >= mu
                pop = pop[:rng.randint(s.mu, len(pop))]
            # every update (not only the last) is checked: published equations, stored decomposition of the
            # CURRENT C, and -- when coq -- re-evaluated in Coq with B/diagD/BD observed after this very update
            if not do_update(s, pop, coq, meta) or not state_usable(s):
                return

    def gens_draw():
        r = rng.random()
        if r < 0.5:
            return rng.randint(1, 5)
        if r < 0.85:
            return rng.randint(6, 20)
        return rng.randint(21, 50)

    # corpus first: minimised past misses (corpus/C13_*.json)
    cdir = os.path.join(os.path.dirname(os.path.dirname(os.path.abspath(__file__))), "corpus")
    for fn in sorted(os.listdir(cdir)) if os.path.isdir(cdir) else []:
        if fn.startswith("C13_") and fn.endswith(".json"):
            entry = json.load(open(os.path.join(cdir, fn)))
            for fixed in entry.get("runs", []):
                n = len(fixed["centroid"])
                one_run(n, n <= 8, int(fixed.get("generations", 4)), fixed=fixed)
                stats["corpus_runs"] += 1

    # systematic user-supplied slow/fast covariance learning rates: (ccov1 + ccovmu) * dim * 10 on a grid
    # around 1 (a lazily refreshed eigendecomposition a la Hansen's c-cmaes would skip updates below 1), every
    # dimension class, every update checked
    products = [0.01, 0.1, 0.5, 0.99, 1.0, 2.0]
    slow_dims = run.scale([2, 3, 5, 8, 13, 20], list(range(2, 21)))
    for n in slow_dims:
        for prod in products:
            for _ in range(run.scale(1, 2)):
                fk = slow_rates(n, prod)
                if rng.random() < 0.5:
                    rand_user(fk, 0.5)          # cs / ccum / damps log-uniform as well
                    fk.update(slow_rates(n, prod))
                one_run(n, n <= 8, run.scale(3, 6), force_kw=fk)
                stats["slow_rate_runs"] += 1

    for _ in range(run.scale(36, 400)):
        one_run(rng.randint(2, 8), True, gens_draw())
    for n in run.scale([20], [9, 12, 16, 20]):
        one_run(n, True, run.scale(3, 6))                       # a few large-dimension cases inside Coq
    for _ in range(run.scale(14, 150)):
        one_run(rng.randint(2, 20), False, gens_draw())        # oracle only: all dimensions
    # a full-length run
    one_run(rng.randint(2, 6), True, 50)


    # ================================================================= hardening round (HARDENING.md)
    ULP = 2.0 ** -52

    def crafted_fitness(pop, nobj):
        """class 3: +-0.0, 1-ulp neighbours, duplicates, huge and tiny magnitudes (all finite)"""
        pool = [0.0, -0.0, 1.0, 1.0 + ULP, 1.0 - ULP / 2, 1.0 + 2.0 ** -40, 1e-300, -1e-300, 1e300, -1e300,
                2.0 ** 53, 2.0 ** 53 + 2.0, 3.0, -3.0, 1e9 + 1e-3, 1e9 - 1e-3, 1e9]
        mode = rng.random()
        for ind in pop:
            if mode < 0.5:
                ind.fitness.values = tuple(rng.choice(pool) for _ in range(nobj))
            else:                                         # pairwise distinct near-ties
                ind.fitness.values = tuple(1.0 + ULP * rng.randint(0, 10 ** 6) for _ in range(nobj))

    def recompute(s, kw, what):
        """computeParams called again after a reconfiguration; judged like a fresh computeParams"""
        case = {"kind": "params-recomputed", "what": what, "dim": int(s.dim), "lambda_": int(s.lambda_), "kargs": jsonable(kw)}
        run.note_case(case)
        if not impl(lambda: s.computeParams(s.params), "computeParams", case)[0]:
            return False
        kwp = {k: v for k, v in kw.items() if k not in ("lambda_", "cmatrix")}
        P = oracle_params(s, kwp, case, "computeParams after %s" % what)
        if len(P["weights"]) <= 40:
            add("params", "CParams %s %s %s %s %s" % (cnat(P["dim"]), cnat(P["lambda_"]), cfloat(P["chiN"]), ckargs(kwp), cparams(P)), case)
        return True

    def reconfig_run(n, coq, gens):
        """class 1: one strategy object used in a sequence with every public reconfiguration route in between"""
        oname, f = rng.choice(OBJECTIVES)
        nobj = 2 if oname == "two" else 1
        weights = tuple(rng.choice([-1.0, 1.0, -2.0, 0.5]) for _ in range(nobj))
        icls = indcls(weights, rng.choice(["list", "ndarray", "array"]))
        s, kw = new_strategy(n, coq)
        if s is None or not state_usable(s):
            return
        kw = dict(kw)
        prev_pop = None
        for g in range(gens):
            meta = {"objective": oname, "fitness_weights": list(weights), "gen": g, "dim": n, "mode": "reconfigure"}
            act = rng.choice(["none", "sigma", "centroid", "lambda", "rates", "paths", "double", "stale", "gen2", "scheme"])
            meta["action"] = act
            if act == "sigma":
                v = float(s.sigma) * logu(0.1, 10.0)
                s.sigma = rng.choice([v, numpy.float64(v), max(1, int(round(v)))])
            elif act == "centroid":
                c = [float(x) + rng.uniform(-1, 1) for x in s.centroid]
                # (an ndarray, as __init__ stores it; a plain list is not a supported value of the attribute)
                s.centroid = rng.choice([numpy.array(c), numpy.array(c, dtype=numpy.float32).astype(float)])
            elif act == "lambda":
                s.lambda_ = max(rng.randint(4, 14 if coq else 30), kw.get("mu", 1))
                if not recompute(s, kw, "lambda_ changed"):
                    return
            elif act == "rates":
                key = rng.choice(["cs", "ccum", "ccov1", "ccovmu", "damps"])
                val = {"cs": logu(1e-5, 0.95), "ccum": logu(1e-5, 1.0), "ccov1": logu(1e-5, 0.3),
                       "ccovmu": logu(1e-5, 0.5), "damps": logu(0.2, 20.0)}[key]
                s.params[key] = val
                kw[key] = val
                if not recompute(s, kw, "params[%s] changed" % key):
                    return
            elif act == "scheme":
                sch = rng.choice(list(SCHEME))
                s.params["weights"] = sch
                kw["weights"] = sch
                if not recompute(s, kw, "weights scheme changed"):
                    return
            elif act == "paths":                          # a restart of the paths by the user
                s.ps = numpy.zeros(n)
                s.pc = numpy.zeros(n)
                s.update_count = 0
            if not state_usable(s) or not (1.0 - float(s.ccov1) - float(s.ccovmu) >= 0.05 or s.mu >= 2 * n):
                return
            pop = do_generate(s, icls, bool(coq and rng.random() < 0.3), meta)
            if pop is None:
                pop = own_samples(s, icls)
            if act == "gen2":                             # generate again before any update: independent second sample
                pop2 = do_generate(s, icls, False, meta)
                if pop2 is not None:
                    pop = pop + pop2 if rng.random() < 0.5 else pop2      # also: more than lambda_ individuals
            if rng.random() < 0.25:
                crafted_fitness(pop, nobj)
            else:
                evaluate(pop, f)
            if act == "stale" and prev_pop is not None and len(prev_pop) >= s.mu and len(prev_pop[0]) == n:
                pop, prev_pop = prev_pop, pop             # an older, already sorted population is fed again
            else:
                prev_pop = pop
            if not do_update(s, pop, coq, meta) or not state_usable(s):
                return
            if act == "double":                           # the same (now sorted) list object once more
                if not do_update(s, pop, coq, dict(meta, action="double-second")) or not state_usable(s):
                    return

    def bigint_run():
        """class 3: integer objective values beyond 2**53 under integer weights: pairwise distinct exact weighted values that
        collapse to one double; the mu best and the order independence are judged on the exact values (oracle only)"""
        n = rng.randint(2, 6)
        s, kw = new_strategy(n, False)
        if s is None or not state_usable(s):
            return
        wt = rng.choice([1, -1])
        icls = indcls((wt,), rng.choice(["list", "ndarray"]))
        for g in range(run.scale(2, 4)):
            if not state_usable(s):
                return
            meta = {"objective": "exact integers beyond 2**53", "fitness_weights": [wt], "gen": g, "dim": n, "mode": "bigint"}
            pop = do_generate(s, icls, False, meta) or own_samples(s, icls)
            base_v = rng.choice([2 ** 60, 2 ** 53, -(2 ** 61)])
            ks = rng.sample(range(0, 4 * len(pop)), len(pop))
            for ind, k in zip(pop, ks):
                ind.fitness.values = (base_v + k,)
            stats["bigint_updates"] = stats.get("bigint_updates", 0) + 1
            if not do_update(s, pop, False, meta, wv_true=[((base_v + k) * wt,) for k in ks]):
                return

    def interleaved_run(coq):
        """class 1: two strategies (different dimension / rates) used alternately: no state may leak through
        class attributes or module globals"""
        na, nb = rng.randint(2, 8), rng.randint(2, 8)
        sa, _ = new_strategy(na, coq)
        sb, _ = new_strategy(nb, coq)
        if sa is None or sb is None:
            return
        ia, ib = indcls((-1.0,), False), indcls((1.0,), True)
        for g in range(run.scale(3, 6)):
            for (s, icls, f, n) in ((sa, ia, f_sphere, na), (sb, ib, lambda x: (-f_elli(x)[0],), nb)):
                if not state_usable(s):
                    return
                meta = {"objective": "interleaved", "gen": g, "dim": n, "mode": "interleaved"}
                pop = do_generate(s, icls, False, meta) or own_samples(s, icls)
                evaluate(pop, f)
                if not do_update(s, pop, coq, meta):
                    return

    def aliasing_run(n, coq):
        """class 2: the same individual object twice, the same list for two strategies, the user's cmatrix array
        reused after the first strategy has been updated"""
        cm = rand_spd(n)
        cm_snapshot = cm.copy()
        kw = {"cmatrix": cm, "lambda_": rng.randint(4, 10), "weights": rng.choice(list(SCHEME))}
        centroid = [rng.uniform(-3, 3) for _ in range(n)]
        s, kw = build_strategy(centroid, rng.uniform(0.2, 2.0), kw, coq)
        if s is None or not state_usable(s):
            return
        icls = indcls((-1.0,), rng.choice(["list", "ndarray"]))
        meta = {"objective": "sphere", "gen": 0, "dim": n, "mode": "aliasing"}
        twin = copy.deepcopy(s)
        pop = do_generate(s, icls, False, meta) or own_samples(s, icls)
        evaluate(pop, f_rosen)
        pop.append(pop[rng.randrange(len(pop))])          # the same object twice (a tie with itself)
        if not do_update(s, pop, coq, meta):
            return
        # the same list object (sorted in place by the first call) given to an identical second strategy
        S1 = read_state(s)
        if impl(lambda: twin.update(pop), "update (same list, second strategy)", meta)[0]:
            S2 = read_state(twin)
            if any(not numpy.array_equal(numpy.asarray(S1[k]), numpy.asarray(S2[k])) for k in STATE_KEYS):
                run.oracle_violation("two identical strategies updated with the same population list reach different states",
                                     dict(meta, kind="update-shared-list"), observed={"first": jsonable(S1), "second": jsonable(S2)})
        for g in range(1, 3):
            if not state_usable(s):
                return
            meta = dict(meta, gen=g)
            pop = do_generate(s, icls, False, meta) or own_samples(s, icls)
            evaluate(pop, f_rosen)
            if not do_update(s, pop, coq, meta):
                return
        # the array the user passed as cmatrix and still holds
        if not numpy.array_equal(cm, cm_snapshot):
            run.oracle_violation("updates modified the cmatrix array passed by the user (a second strategy built from it "
                                 "would not start from the covariance the user supplied)", dict(meta, kind="cmatrix-aliased"),
                                 observed={"now": cm.tolist(), "passed": cm_snapshot.tolist()})
        s3, _ = build_strategy(centroid, 1.0, {"cmatrix": cm, "lambda_": kw["lambda_"]}, False)
        if s3 is not None and not close_arr(read_state(s3)["C"], cm_snapshot):
            run.oracle_violation("a strategy built from the user's cmatrix array does not start from the supplied covariance",
                                 dict(meta, kind="cmatrix-aliased"))

    def scaled_run(n, coq, scale, offset):
        """class 3: the whole problem scaled (1e-9 .. 1e6) or shifted (|m| up to 1e3 with sigma >= 1e-2)"""
        kw = {"weights": rng.choice(list(SCHEME)), "lambda_": rng.randint(4, 12)}
        if rng.random() < 0.5:
            kw["cmatrix"] = rand_spd(n)
        dt = rng.choice([float, numpy.float32, numpy.int64]) if scale == 1.0 else float
        centroid = numpy.array([offset + scale * rng.uniform(-5, 5) for _ in range(n)])
        centroid = numpy.round(centroid).astype(dt) if dt is numpy.int64 else centroid.astype(dt)
        sigma = scale * rng.uniform(0.1, 3.0) if offset == 0 else rng.uniform(1e-2, 1.0)
        s, kw = build_strategy(centroid, sigma, kw, coq)
        if s is None or not state_usable(s):
            return
        icls = indcls((rng.choice([-1.0, 2.0]),), rng.choice(["list", "ndarray", "array"]))
        for g in range(run.scale(2, 5)):
            meta = {"objective": "scaled-sphere", "gen": g, "dim": n, "mode": "scaled", "scale": scale, "offset": offset}
            pop = do_generate(s, icls, bool(coq and g == 0), meta) or own_samples(s, icls)
            evaluate(pop, lambda x: (float(sum(((v - offset) / scale) ** 2 for v in x)),))
            if not do_update(s, pop, coq, meta) or not state_usable(s):
                return

    def boundary_run(n, coq, kwb, popsize):
        """class 5: mu = 1, mu = lambda_, population of exactly mu individuals, extreme admissible rates"""
        s, kw = build_strategy([rng.uniform(-2, 2) for _ in range(n)], rng.uniform(0.3, 2.0), dict(kwb), coq)
        if s is None or not state_usable(s) or not (1.0 - float(s.ccov1) - float(s.ccovmu) >= 0.05 or s.mu >= 2 * n):
            return
        icls = indcls((-1.0,), False)
        for g in range(run.scale(2, 4)):
            meta = {"objective": "rastrigin", "gen": g, "dim": n, "mode": "boundary", "popsize": popsize}
            pop = do_generate(s, icls, bool(coq and g == 0), meta) or own_samples(s, icls)
            evaluate(pop, f_rastrigin)
            if popsize == "mu":
                pop = pop[:s.mu]
            if not do_update(s, pop, coq, meta) or not state_usable(s):
                return

    def guard(fn, *a):
        try:
            fn(*a)
        except Exception as e:  # noqa
            import traceback
            run.oracle_violation("strategy left in a state the harness cannot read: %s" % type(e).__name__,
                                 {"kind": fn.__name__}, observed=traceback.format_exc()[-1500:])

    for _ in range(run.scale(14, 120)):
        guard(reconfig_run, rng.randint(2, 8), True, rng.randint(4, 10))
    for _ in range(run.scale(4, 40)):
        guard(reconfig_run, rng.randint(9, 20), False, rng.randint(4, 10))
    for _ in range(run.scale(4, 40)):
        guard(interleaved_run, True)
    for _ in range(run.scale(8, 80)):
        guard(bigint_run)
    for _ in range(run.scale(6, 60)):
        guard(aliasing_run, rng.randint(2, 8), True)
    for scale, offset in [(1e-9, 0.0), (1e-6, 0.0), (1e3, 0.0), (1e6, 0.0), (1.0, 1e3), (1.0, -1e3), (1.0, 0.0), (1.0, 0.0)]:
        for _ in range(run.scale(1, 6)):
            guard(scaled_run, rng.randint(2, 8), True, scale, offset)
    for n in run.scale([2, 5, 20], [2, 3, 5, 8, 12, 20]):
        lam = rng.randint(4, 10)
        for kwb, popsize in [({"lambda_": lam, "mu": 1}, "lambda"), ({"lambda_": lam, "mu": lam}, "lambda"),
                             ({"lambda_": lam, "mu": max(1, lam // 2)}, "mu"), ({"lambda_": 4}, "lambda"),
                             ({"lambda_": lam, "cs": 1.0, "ccum": 1.0}, "lambda"),
                             ({"lambda_": lam, "ccov1": 0.0, "ccovmu": 0.0}, "lambda"),
                             ({"lambda_": n + 4, "mu": n + 2, "weights": "equal"}, "lambda")]:
            guard(boundary_run, n, n <= 8, kwb, popsize)
    # class 5, parameters only: the exact clamp / max(0, .) boundaries of computeParams
    for dim in run.scale([2, 7, 20], list(range(2, 21))):
        for kwb in [{"mu": dim + 2, "weights": "equal"},                 # sqrt((mueff-1)/(N+1)) - 1 == 0 exactly
                    {"mu": dim + 3, "weights": "equal"}, {"mu": dim + 1, "weights": "equal"},
                    {"ccov1": 0.25, "ccovmu": 0.75}, {"ccov1": 0.25, "ccovmu": 0.75 + 2.0 ** -50},
                    {"ccov1": 0.25, "ccovmu": 0.75 - 2.0 ** -50}, {"ccov1": 0.0, "ccovmu": 1.0}, {"ccov1": 1.0, "ccovmu": 0.5},
                    {"cs": 1.0}, {"ccum": 1.0}, {"cs": 1e-5, "damps": 1e-3}, {"mu": 1}, {"mu": 1, "weights": "linear"}]:
            params_case(dim, max(4, kwb.get("mu", 0), rng.randint(4, 12)), dict(kwb))
    # class 4: generate with every kind of initialiser (class, builtin, function, partial)
    import functools
    for _ in range(run.scale(6, 40)):
        n = rng.randint(2, 8)
        s, kw = new_strategy(n, False)
        if s is None or not state_usable(s):
            continue
        for init in (list, tuple, numpy.array, lambda a: [float(v) for v in a], functools.partial(numpy.array, dtype=float)):
            seed = rng.randrange(2 ** 31)
            case = {"kind": "generate-init", "dim": n, "init": getattr(init, "__name__", repr(init)), "seed": seed}
            run.note_case(case)
            numpy.random.seed(seed)
            ok, pop = impl(lambda: s.generate(init), "generate", case)
            if not ok:
                continue
            numpy.random.seed(seed)
            arz = numpy.random.standard_normal((int(s.lambda_), n))
            S = read_state(s)
            exp_ = S["centroid"] + S["sigma"] * (arz @ S["BD"].T)
            try:
                good = (len(pop) == int(s.lambda_) and all(len(x) == n for x in pop) and
                        all(type(x) is type(init(numpy.zeros(n))) for x in pop) and
                        close_arr([[float(v) for v in x] for x in pop], exp_))
            except Exception:  # noqa
                good = False
            if not good:
                run.oracle_violation("generate does not return lambda individuals built with the given initialiser around the centroid",
                                     case)

    # synthetic pre-states: random paths / generation counter, both h_sigma branches
    for _ in range(run.scale(120, 1500)):
        n = rng.randint(2, 8)
        s, kw = new_strategy(n, True)
        if s is None:
            continue
        s.ps = nprng.standard_normal(n) * rng.choice([0.1, 1.0, 1.0, 3.0, 10.0])
        s.pc = nprng.standard_normal(n) * rng.choice([0.0, 0.5, 2.0])
        s.update_count = rng.choice([0, 0, 1, 2, 5, 30])
        if s is None or not state_usable(s):
            continue
        oname, f = rng.choice(OBJECTIVES)
        nobj = 2 if oname == "two" else 1
        weights = tuple(rng.choice([-1.0, 1.0]) for _ in range(nobj))
        icls = indcls(weights, rng.random() < 0.3)
        meta = {"objective": oname, "fitness_weights": list(weights), "gen": "synthetic", "dim": n}
        try:
            pop = do_generate(s, icls, False, meta)
            if pop is None:
                pop = own_samples(s, icls)
            evaluate(pop, f)
            do_update(s, pop, True, meta)
        except Exception as e:  # noqa
            import traceback
            run.oracle_violation("strategy left in a state the harness cannot read: %s" % type(e).__name__,
                                 {"kind": "synthetic", "dim": n}, observed=traceback.format_exc()[-1500:])

    # informational (not part of the verdict): the boundary of the domain assumption.  With user-supplied
    # ccov1 + ccovmu >= 1 the code clamps ccovmu to 1 - ccov1, the old C is forgotten entirely and, when
    # mu + 1 < dim, the new C is rank deficient: eigh returns a slightly negative eigenvalue and diagD gets NaN.
    try:
        with numpy.errstate(all="ignore"):
            sb = cma.Strategy([0.0] * 8, 1.0, lambda_=4, mu=2, ccov1=0.366, ccovmu=0.85)
            numpy.random.seed(12345)
            popb = sb.generate(indcls((-1.0,), False))
            evaluate(popb, f_sphere)
            sb.update(popb)
            stats["boundary_forgetting_rates"] = {
                "one_minus_c1_minus_cmu": float(1.0 - sb.ccov1 - sb.ccovmu),
                "rank_of_new_C": int(numpy.linalg.matrix_rank(sb.C)),
                "diagD_has_nan_or_zero": bool(numpy.any(~numpy.isfinite(sb.diagD)) or numpy.any(sb.diagD <= 1e-7))}
    except Exception as e:  # noqa
        stats["boundary_forgetting_rates"] = "raised %s" % type(e).__name__
    if gen_unproved:
        # the regenerated definitions are no longer provably the model: search beyond the regular sizes for an input
        # on which the implementation leaves the property / the model (large dimensions and parent numbers, long runs)
        n0 = sum(len(v) for v in terms.values())
        for dim in (33, 64, 100, 257):
            s = params_case(dim, 4, {})                # one construction per dimension (eigh), then computeParams again
            if s is None:
                continue
            for lam in (5, 9, 64, 300, 700, 2100):
                for sch in SCHEME:
                    for kw in ({"weights": sch}, {"weights": sch, "mu": rng.randint(1, lam)}):
                        s.lambda_ = lam
                        case = {"kind": "params-recomputed", "dim": dim, "lambda_": lam, "kargs": dict(kw)}
                        run.note_case(case)
                        if not impl(lambda: s.computeParams(kw), "computeParams", case)[0]:
                            continue
                        P = oracle_params(s, kw, case, "computeParams (wide search)")
                        add("params", "CParams %s %s %s %s %s" % (cnat(dim), cnat(lam), cfloat(P["chiN"]), ckargs(kw), cparams(P)), case)
        for _ in range(run.scale(8, 40)):
            guard(one_run, rng.choice([33, 64, 100, 130]), False, rng.randint(2, 6))
        for _ in range(run.scale(3, 12)):
            guard(one_run, rng.randint(2, 8), True, rng.randint(60, 120))
        run.notes.append("tie (T) broke: %d wide cases (dim up to 257, lambda up to 2100, runs of 60..120 generations, oracle-only "
                         "runs at dim 33..130) searched in addition" % (sum(len(v) for v in terms.values()) - n0))
    run.extra_cov["c13"] = stats
    shards = {"params": 400, "init": 60, "update": 40, "gen": 80}
    reqs = ["From Coq Require Import Floats."]
    gen_evaluated = 0
    for g in ("params", "init", "update", "gen"):
        # the regenerated definitions are evaluated next to the hand model (check_both) on every params / init / update case
        run.correspond(g, "C13", terms[g], cases[g], shard=shards[g], check=gen_check if g != "gen" else "check",
                       requires=reqs + (gen_reqs if g != "gen" else []))
        if gen_check != "check" and g != "gen":
            gen_evaluated += len(terms[g])
    run.extra_cov["cases_also_evaluated_on_regenerated_definitions"] = gen_evaluated
    if gen_unproved:
        # diagnosis: do the regenerated definitions (translated, not provably the model) agree with the implementation?
        ok_, out = vlib.make_targets(["Corr/C13_gen.vo"])
        if ok_:
            traces, ndis = run.traces, len(run.disagreements)
            ng, nt = 0, 0
            try:
                for g in ("params", "init", "update"):
                    bad = run.correspond("diagnosis_regenerated_" + g, "C13", terms[g], cases[g], check="check_gen",
                                         requires=reqs + ["From DV Require Import Corr.C13_gen."], shard=shards[g] * 4)
                    if run.corr_groups.get("diagnosis_regenerated_" + g, {}).get("errors"):
                        ng = None
                    elif ng is not None:
                        ng += len(bad)
                    nt += len(terms[g])
            except Exception as e:  # noqa
                ng = None
                run.notes.append("diagnosis step failed: %r" % (e,))
            finally:
                run.traces = traces
                del run.disagreements[ndis:]
                for g in ("params", "init", "update"):
                    run.corr_groups.pop("diagnosis_regenerated_" + g, None)
            run.notes.append("diagnosis: the regenerated definitions (not provably equal to the model) disagree with the "
                             "implementation on %s of %d cases" % (ng, nt))
            run.extra_cov["regenerated_vs_implementation"] = {"sampled": nt, "disagree": ng}
        else:
            run.notes.append("diagnosis: the regenerated definitions do not compile: " + out[-400:])
