"""C03 self-test: applies one realistic property-breaking edit (or harmless refactor H*) at a time to a scratch copy
of /repo and runs ./check C03 --tier quick against it.  Usage: /venv/bin/python corpus/C03_mutants.py [names...]
Never touches /repo.  Table of results: design_notes/C03.md."""
import os
import subprocess
import sys

A, G, S = "deap/algorithms.py", "deap/gp.py", "deap/tools/support.py"
EVAL_OFF = ("        invalid_ind = [ind for ind in offspring if not ind.fitness.valid]\n"
            "        fitnesses = toolbox.map(toolbox.evaluate, invalid_ind)\n"
            "        for ind, fit in zip(invalid_ind, fitnesses):\n"
            "            ind.fitness.values = fit\n\n"
            "        # Update the hall of fame with the generated individuals\n"
            "        if halloffame is not None:\n"
            "            halloffame.update(offspring)\n\n")
PLUS_TAIL = EVAL_OFF + "        # Select the next generation population\n        population[:] = toolbox.select(population + offspring, mu)"
COMMA_TAIL = EVAL_OFF + "        # Select the next generation population\n        population[:] = toolbox.select(offspring, mu)"
SIMPLE_TAIL = EVAL_OFF + "        # Replace"
MUTS = {
 "M01_zip_wrong_list_simple": (A, SIMPLE_TAIL, SIMPLE_TAIL.replace("zip(invalid_ind, fitnesses)", "zip(offspring, fitnesses)")),
 "M02_nevals_len_population_simple": (A, "        logbook.record(gen=gen, nevals=len(invalid_ind), **record)\n        if verbose:\n            print(logbook.stream)\n\n    return population, logbook\n\n\ndef varOr", "        logbook.record(gen=gen, nevals=len(population), **record)\n        if verbose:\n            print(logbook.stream)\n\n    return population, logbook\n\n\ndef varOr"),
 "M03_hof_population_plus": (A, PLUS_TAIL, PLUS_TAIL.replace("halloffame.update(offspring)", "halloffame.update(population)")),
 "M04_no_hof_gen0_comma": (A, "    if halloffame is not None:\n        halloffame.update(population)\n\n    logbook = tools.Logbook()", "    logbook = tools.Logbook()"),
 "M05_rebind_population_simple": (A, "        population[:] = offspring\n", "        population = offspring\n"),
 "M06_range_off_by_one_plus": (A, "    for gen in range(1, ngen + 1):\n        # Vary the population\n        offspring = varOr(population, toolbox, lambda_, cxpb, mutpb)\n\n" + PLUS_TAIL, "    for gen in range(1, ngen):\n        # Vary the population\n        offspring = varOr(population, toolbox, lambda_, cxpb, mutpb)\n\n" + PLUS_TAIL),
 "M07_select_offspring_only_plus": (A, "population[:] = toolbox.select(population + offspring, mu)", "population[:] = toolbox.select(offspring, mu)"),
 "M08_evaluate_all_comma": (A, COMMA_TAIL, COMMA_TAIL.replace("[ind for ind in offspring if not ind.fitness.valid]", "[ind for ind in offspring]")),
 "M09_rebind_population_harm": (G, "        population[:] = offspring\n", "        population = offspring\n"),
 "M10_harm_no_len_check_second_child": (G, "if len(producedpop) < n and acceptfunc(len(aspirant2)):", "if acceptfunc(len(aspirant2)):"),
 "M11_harm_stale_fitness_after_mutation": (G, "                        aspirant = toolbox.mutate(aspirant)[0]\n                        del aspirant.fitness.values\n", "                        aspirant = toolbox.mutate(aspirant)[0]\n"),
 "M12_gu_evaluate_only_invalid": (A, "        fitnesses = toolbox.map(toolbox.evaluate, population)\n        for ind, fit in zip(population, fitnesses):", "        invalid_ind = [ind for ind in population if not ind.fitness.valid]\n        fitnesses = toolbox.map(toolbox.evaluate, invalid_ind)\n        for ind, fit in zip(invalid_ind, fitnesses):"),
 "M13_gu_hof_before_evaluation": (A, "        population = toolbox.generate()\n        # Evaluate the individuals\n        fitnesses = toolbox.map(toolbox.evaluate, population)\n        for ind, fit in zip(population, fitnesses):\n            ind.fitness.values = fit\n\n        if halloffame is not None:\n            halloffame.update(population)\n", "        population = toolbox.generate()\n        if halloffame is not None:\n            halloffame.update(population)\n\n        # Evaluate the individuals\n        fitnesses = toolbox.map(toolbox.evaluate, population)\n        for ind, fit in zip(population, fitnesses):\n            ind.fitness.values = fit\n"),
 "M14_gu_gens_from_1": (A, "    for gen in range(ngen):\n        # Generate a new population", "    for gen in range(1, ngen + 1):\n        # Generate a new population"),
 "M15_nevals_gen0_simple": (A, "    logbook.record(gen=0, nevals=len(invalid_ind), **record)", "    logbook.record(gen=0, nevals=len(population), **record)"),
 "M16_harm_gen0_zip_population": (G, "    for ind, fit in zip(invalid_ind, fitnesses):\n        ind.fitness.values = fit\n\n    if halloffame is not None:\n        halloffame.update(population)", "    for ind, fit in zip(population, fitnesses):\n        ind.fitness.values = fit\n\n    if halloffame is not None:\n        halloffame.update(population)"),
 "M17_comma_select_lambda": (A, "population[:] = toolbox.select(offspring, mu)", "population[:] = toolbox.select(offspring, lambda_)"),
 "M18_harm_hof_population": (G, "            halloffame.update(offspring)\n\n        # Replace the current population by the offspring\n        population[:] = offspring", "            halloffame.update(population)\n\n        # Replace the current population by the offspring\n        population[:] = offspring"),
 "M19_gu_ngen0_fix_reverted": (A, "    population = []\n    for gen in range(ngen):", "    for gen in range(ngen):"),
 "M20_harm_offspring_one_less": (G, "        offspring = _genpop(len(population), pickfrom=naturalpop,", "        offspring = _genpop(len(population) - 1, pickfrom=naturalpop,"),
 "M21_plus_fitnesses_reversed": (A, PLUS_TAIL, PLUS_TAIL.replace("zip(invalid_ind, fitnesses)", "zip(invalid_ind, reversed(list(fitnesses)))")),
 "M22_varAnd_del_on_argument_not_result": (A, "            offspring[i - 1], offspring[i] = toolbox.mate(offspring[i - 1],\n                                                          offspring[i])\n            del offspring[i - 1].fitness.values, offspring[i].fitness.values\n\n    for i in range(len(offspring)):\n        if random.random() < mutpb:\n            offspring[i], = toolbox.mutate(offspring[i])\n            del offspring[i].fitness.values\n", "            ind1, ind2 = offspring[i - 1], offspring[i]\n            offspring[i - 1], offspring[i] = toolbox.mate(ind1, ind2)\n            del ind1.fitness.values, ind2.fitness.values\n\n    for i, ind in enumerate(offspring):\n        if random.random() < mutpb:\n            offspring[i], = toolbox.mutate(ind)\n            del ind.fitness.values\n"),
 "M23_varOr_del_on_argument_not_result": (A, "            ind1, ind2 = toolbox.mate(ind1, ind2)\n            del ind1.fitness.values\n", "            c1, c2 = ind1, ind2\n            ind1, ind2 = toolbox.mate(c1, c2)\n            del c1.fitness.values\n"),
 "M24_harm_del_on_argument_not_result": (G, "                        aspirant = toolbox.mutate(aspirant)[0]\n                        del aspirant.fitness.values\n", "                        mutant = toolbox.mutate(aspirant)[0]\n                        del aspirant.fitness.values\n                        aspirant = mutant\n"),
 "M25_varOr_mutation_del_on_argument": (A, "            ind = toolbox.clone(random.choice(population))\n            ind, = toolbox.mutate(ind)\n            del ind.fitness.values\n", "            c = toolbox.clone(random.choice(population))\n            ind, = toolbox.mutate(c)\n            del c.fitness.values\n"),
 # ---- hardening round ----
 "N01_simple_gen0_hof_only_evaluated": (A, "    if halloffame is not None:\n        halloffame.update(population)\n\n    record = stats.compile(population) if stats else {}", "    if halloffame is not None:\n        halloffame.update(invalid_ind)\n\n    record = stats.compile(population) if stats else {}"),
 "N02_harm_pickfrom_not_removed": (G, "                aspirant = pickfrom.pop()\n", "                aspirant = pickfrom[-1]\n                if random.random() < 0.5:\n                    pickfrom.pop()\n"),
 "N03_hof_compares_raw_values": (S, "            if ind.fitness > self[-1].fitness or len(self) < self.maxsize:", "            if ind.fitness.values > self[-1].fitness.values or len(self) < self.maxsize:"),
 "N04_comma_stats_on_offspring": (A, "        population[:] = toolbox.select(offspring, mu)\n\n        # Update the statistics with the new population\n        record = stats.compile(population) if stats is not None else {}", "        population[:] = toolbox.select(offspring, mu)\n\n        # Update the statistics with the new population\n        record = stats.compile(offspring) if stats is not None else {}"),
 "N05_simple_gen0_hof_skipped_when_nothing_evaluated": (A, "    if halloffame is not None:\n        halloffame.update(population)\n\n    record = stats.compile(population) if stats else {}", "    if halloffame is not None and invalid_ind:\n        halloffame.update(population)\n\n    record = stats.compile(population) if stats else {}"),
 "N06_plus_logbook_shared_between_calls": (A, "    logbook = tools.Logbook()\n    logbook.header = ['gen', 'nevals'] + (stats.fields if stats else [])\n\n    # Evaluate the individuals with an invalid fitness\n    invalid_ind = [ind for ind in population if not ind.fitness.valid]\n    fitnesses = toolbox.map(toolbox.evaluate, invalid_ind)\n    for ind, fit in zip(invalid_ind, fitnesses):\n        ind.fitness.values = fit\n\n    if halloffame is not None:\n        halloffame.update(population)\n\n    record = stats.compile(population) if stats is not None else {}", "    logbook = _LOGBOOKS.setdefault(id(population), tools.Logbook())\n    logbook.header = ['gen', 'nevals'] + (stats.fields if stats else [])\n\n    # Evaluate the individuals with an invalid fitness\n    invalid_ind = [ind for ind in population if not ind.fitness.valid]\n    fitnesses = toolbox.map(toolbox.evaluate, invalid_ind)\n    for ind, fit in zip(invalid_ind, fitnesses):\n        ind.fitness.values = fit\n\n    if halloffame is not None:\n        halloffame.update(population)\n\n    record = stats.compile(population) if stats is not None else {}"),
 "N07_harm_size_from_first_call": (G, "        offspring = _genpop(len(population), pickfrom=naturalpop,", "        offspring = _genpop(_popsize, pickfrom=naturalpop,"),
 "N08_simple_fitness_cast_to_float32": (A, SIMPLE_TAIL, SIMPLE_TAIL.replace("            ind.fitness.values = fit\n", "            ind.fitness.values = [float(numpy.float32(f)) for f in fit]\n")),
 # ---- harmless refactors ----
 "H01_eager_map_simple": (A, SIMPLE_TAIL, SIMPLE_TAIL.replace("        fitnesses = toolbox.map(toolbox.evaluate, invalid_ind)\n        for ind, fit in zip(invalid_ind, fitnesses):\n            ind.fitness.values = fit\n", "        fitnesses = list(toolbox.map(toolbox.evaluate, invalid_ind))\n        for i in range(len(invalid_ind)):\n            invalid_ind[i].fitness.values = fitnesses[i]\n")),
 "H02_harm_slice_copy": (G, "        population[:] = offspring\n", "        nextgen = list(offspring)\n        population[:] = nextgen\n"),
 "H03_plus_concat_refactor": (A, "population[:] = toolbox.select(population + offspring, mu)", "pool = list(population)\n        pool.extend(offspring)\n        population[:] = toolbox.select(pool, mu)"),
}
EXTRA = {  # additional edits needed by a mutant (file, old, new)
 "N06_plus_logbook_shared_between_calls": [(A, "from . import tools\n", "from . import tools\n\n_LOGBOOKS = {}\n")],
 "N07_harm_size_from_first_call": [(G, "    if nbrindsmodel == -1:\n        nbrindsmodel = max(2000, len(population))\n", "    global _POPSIZE\n    if nbrindsmodel == -1:\n        nbrindsmodel = max(2000, len(population))\n    _popsize = _POPSIZE.setdefault(id(toolbox), len(population))\n"),
                                   (G, "\ndef harm(population, toolbox,", "\n_POPSIZE = {}\n\n\ndef harm(population, toolbox,")],
 "N08_simple_fitness_cast_to_float32": [(A, "import random\n", "import random\n\nimport numpy\n")],
}


def main():
    names = sys.argv[1:] or sorted(MUTS)
    d = "/var/tmp/c03_mut"
    for name in names:
        subprocess.run(["rsync", "-a", "--delete", "--exclude", ".git", "/repo/", d + "/"], check=True)
        ok = True
        for (f, old, new) in [MUTS[name]] + EXTRA.get(name, []):
            p = os.path.join(d, f)
            s = open(p).read()
            if s.count(old) < 1:
                ok = False
                break
            open(p, "w").write(s.replace(old, new, 1))
        if not ok:
            print(name, "PATTERN NOT FOUND")
            continue
        env = dict(os.environ, VERIF_REPO=d)
        r = subprocess.run(["./check", "C03", "--tier", "quick"], cwd="/verif", env=env, stdout=subprocess.PIPE,
                           stderr=subprocess.STDOUT, text=True)
        lines = [l for l in r.stdout.splitlines() if "conda" not in l]
        viol = [l for l in lines if l.startswith("VIOLATION")]
        summ = [l for l in lines if l.startswith("C03 tier")]
        print(name, "exit", r.returncode, "|", viol[0] if viol else "no VIOLATION", "|",
              summ[0][summ[0].index("disagreements"):] if summ else lines[-3:])
        sys.stdout.flush()
    subprocess.run(["rm", "-rf", d])


main()
