#!/usr/bin/env python3
"""Validate a seeded change and run the property's check against it.

  tools/seedtest.py seeded/<name>            # scratch copy of /repo (safe while other work uses /repo)
  tools/seedtest.py seeded/<name> --in-repo  # apply to /repo itself, run, and undo (git checkout -- .)

A seeded directory holds patch.diff, a demonstration (demo.py: exits 0 on the clean tree, non-zero with
the patch) and meta.json {"property": "Cxx", ...}.  Prints one JSON line with the outcome.
"""
import json, os, shutil, subprocess, sys, time

def sh(cmd, **k):
    p = subprocess.run(cmd, shell=True, stdout=subprocess.PIPE, stderr=subprocess.STDOUT, text=True, **k)
    return p.returncode, p.stdout

def main():
    d = os.path.abspath(sys.argv[1])
    in_repo = "--in-repo" in sys.argv
    skip_tests = "--skip-tests" in sys.argv
    tier = "thorough" if "--thorough" in sys.argv else "quick"
    meta = json.load(open(os.path.join(d, "meta.json")))
    pid = meta["property"]
    patch = os.path.join(d, "patch.diff")
    demo = os.path.join(d, "demo.py")
    out = {"seeded": os.path.basename(d), "property": pid}
    if in_repo:
        tree = "/repo"
        rc, o = sh("git -C /repo status --porcelain --untracked-files=no")
        if o.strip():
            print(json.dumps({"error": "/repo has uncommitted changes", "status": o})); return 2
    else:
        tree = "/var/tmp/seedtest_%s_%d" % (os.path.basename(d), os.getpid())
        sh("rm -rf %s && rsync -a --exclude .git /repo/ %s/" % (tree, tree))
    env = dict(os.environ, PYTHONPATH=tree, PYTHONHASHSEED="0", PYTHONDONTWRITEBYTECODE="1")
    try:
        if os.path.exists(demo):
            rc, o = sh("/venv/bin/python %s" % demo, env=env, cwd=tree)
            out["demo_clean_rc"] = rc
        rc, o = sh("cd %s && (git apply %s 2>/dev/null || patch -p1 -s < %s)" % (tree, patch, patch))
        out["apply_rc"] = rc
        if rc != 0:
            out["apply_log"] = o[-500:]
        if os.path.exists(demo):
            rc, o = sh("/venv/bin/python %s" % demo, env=env, cwd=tree)
            out["demo_patched_rc"] = rc
        if not skip_tests:
            rc, o = sh("cd %s && /venv/bin/python -m pytest -q -p no:cacheprovider --timeout=900 2>&1 | tail -1" % tree, env=env)
            out["tests"] = o.strip()[-80:]
        t0 = time.time()
        env2 = dict(os.environ, VERIF_REPO=tree)
        if not in_repo:
            env2["VERIF_EVIDENCE_DIR"] = "/var/tmp/seedtest_evidence"
        rc, o = sh("cd /verif && ./check %s --tier %s" % (pid, tier), env=env2)
        out["check_rc"] = rc
        out["check_s"] = round(time.time() - t0, 1)
        out["violation_lines"] = [l for l in o.splitlines() if l.startswith("VIOLATION")]
        out["summary"] = [l for l in o.splitlines() if l.startswith(pid + " tier=")]
    finally:
        if in_repo:
            sh("git -C /repo checkout -- .")
        else:
            shutil.rmtree(tree, ignore_errors=True)
    print(json.dumps(out))
    return 0

sys.exit(main())
