#!/usr/bin/env python3
"""Print a markdown table of the seeded changes and which check outcome each produced (from seeded/*/meta.json)."""
import glob, json, os, re
here = os.path.dirname(os.path.dirname(os.path.abspath(__file__)))
rows = []
def key(p):
    m = re.match(r".*/(C\d+)_(\d+)$", p); return (m.group(1), int(m.group(2)))
for d in sorted(glob.glob(os.path.join(here, "seeded", "C*_*")), key=key):
    m = json.load(open(os.path.join(d, "meta.json")))
    first = (m.get("confirmed") or {}).get("outcome", "?")
    rt = m.get("retests") or []
    last = rt[-1]["outcome"] if rt else ""
    clause = (m.get("clause") or "").replace("|", "/").replace("\n", " ")
    needs = (m.get("needs") or "").replace("|", "/").replace("\n", " ")
    rows.append("| %s | %s | %s | %s | %s |" % (os.path.basename(d), clause[:110], needs[:140], first, last))
print("| seeded change | clause broken | needs | first run of the check | after strengthening |")
print("|---|---|---|---|---|")
print("\n".join(rows))
