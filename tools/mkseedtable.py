#!/usr/bin/env python3
"""Write seeded/TABLE.md: the seeded changes (property-breaking ones and harmless rewrites) and the outcome of the
property's quick check on each (first run = before anything was changed for it; last = latest re-test), from
seeded/*/meta.json.  Prints summary counts."""
import glob, json, os, re
here = os.path.dirname(os.path.dirname(os.path.abspath(__file__)))
rows, hrows = [], []
stats = {"breaking": 0, "first_caught_concrete": 0, "first_caught_nofail": 0, "first_missed": 0, "last_missed": 0,
         "harmless": 0, "harmless_alarm_first": 0, "harmless_alarm_last": 0}
def key(p):
    m = re.match(r".*/(C\d+)_(h?)(\d+)$", p); return (m.group(1), m.group(2), int(m.group(3)))
def cell(t, n):
    return (t or "").replace("|", "/").replace("\n", " ")[:n]
for d in sorted(glob.glob(os.path.join(here, "seeded", "C*_*")), key=key):
    m = json.load(open(os.path.join(d, "meta.json")))
    first = (m.get("confirmed") or {}).get("outcome", "?")
    rt = m.get("retests") or []
    last = rt[-1]["outcome"] if rt else ""
    name = os.path.basename(d)
    if m.get("harmless"):
        stats["harmless"] += 1
        fa = "VIOLATION" in first
        la = "VIOLATION" in (last or first)
        stats["harmless_alarm_first"] += fa
        stats["harmless_alarm_last"] += la
        hrows.append("| %s | %s | %s | %s |" % (name, cell(m.get("what"), 230), first, last.replace("MISSED (check exited 0)", "check exited 0")))
        continue
    stats["breaking"] += 1
    if first.startswith("MISSED"):
        stats["first_missed"] += 1
    elif "no-failing-input-found" in first:
        stats["first_caught_nofail"] += 1
    else:
        stats["first_caught_concrete"] += 1
    if m.get("obsolete"):
        last = "check exits 0, rightly: no longer property-breaking (%s)" % m["obsolete"][:120]
    elif (last or first).startswith("MISSED"):
        stats["last_missed"] += 1
    rows.append("| %s | %s | %s | %s | %s |" % (name, cell(m.get("clause"), 160), cell(m.get("needs"), 220), first, last))
out = ["# Seeded changes and what the checks reported", "",
       "Written by independent sub-agents that saw only the property text and a scratch worktree (three rounds). Every "
       "property-breaking change keeps the 45 tests green and has a demonstration that passes on the clean tree and fails "
       "with the patch (both re-confirmed by tools/seedtest.py). 'first run' is the outcome of `./check Cxx --tier quick` before "
       "anything was changed for that seeded change; 'after strengthening' the latest re-test (empty = unchanged).", "",
       "Summary: %(breaking)d property-breaking changes: first run %(first_caught_concrete)d VIOLATION with a concrete replay, "
       "%(first_caught_nofail)d VIOLATION no-failing-input-found, %(first_missed)d missed; after strengthening %(last_missed)d missed. "
       "%(harmless)d harmless rewrites: %(harmless_alarm_first)d raised an alarm on the first run, %(harmless_alarm_last)d after the correction." % stats, "",
       "## Property-breaking changes", "",
       "| seeded change | clause broken | needs | first run of the check | after strengthening |", "|---|---|---|---|---|"] + rows + \
      ["", "## Harmless rewrites (expected outcome: the check exits 0)", "",
       "| seeded change | what was rewritten | first run of the check | after correction |", "|---|---|---|---|"] + hrows
open(os.path.join(here, "seeded", "TABLE.md"), "w").write("\n".join(out) + "\n")
print(json.dumps(stats))
