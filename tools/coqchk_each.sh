#!/bin/bash
# tools/coqchk_each.sh [jobs] : re-check, property by property, every compiled property file (Props/Cxx*.vo) and
# correspondence runner (Corr/Cxx*.vo) with everything they depend on, using the independent checker coqchk, and
# write the context summaries (axioms, type-in-type, unsafe fixpoints, assumed positivity) to build/coqchk/Cxx.txt.
# Needs a finished ./setup.sh.  One process per property; allow up to an hour for the heaviest (mathcomp / Reals).
here="$(cd "$(dirname "$0")/.." && pwd)"
jobs="${1:-4}"
mkdir -p "$here/build/coqchk"
cd "$here/coq" || exit 1
for i in $(seq -w 1 20); do echo C$i; done | xargs -P "$jobs" -I{} sh -c '
  mods=$(ls Props/{}*.v Corr/{}*.v 2>/dev/null | sed "s/\.v$//; s#/#.#; s/^/DV./" | tr "\n" " ")
  start=$(date +%s)
  timeout 3600 coqchk -silent -o -Q . DV $mods > ../build/coqchk/{}.txt 2>&1
  echo "rc=$? seconds=$(( $(date +%s) - start )) modules: $mods" >> ../build/coqchk/{}.txt'
grep -H "rc=" "$here"/build/coqchk/C*.txt
