#!/bin/bash
# tools/coqchk_all.sh : re-check every compiled property file (and everything it depends on) with the independent
# checker coqchk and print the axioms the closure relies on. Needs a finished ./setup.sh. ~5-20 min, several GB.
here="$(cd "$(dirname "$0")/.." && pwd)"
cd "$here/coq" || exit 1
mods=$(ls Props/*.v Corr/*.v | sed 's/\.v$//; s#/#.#; s/^/DV./')
timeout 7200 coqchk -silent -o -Q . DV $mods
