#!/usr/bin/env python3
"""tools/seedbatch.py C04 : import /var/tmp/seedout_C04/{1,2,3} into seeded/, run seedtest on each, record the
outcome in meta.json ("confirmed"), remove the scratch worktree and outputs."""
import json, os, shutil, subprocess, sys
here = os.path.dirname(os.path.dirname(os.path.abspath(__file__)))
pid = sys.argv[1]
src = "/var/tmp/seedout_%s" % pid
offset = int(sys.argv[sys.argv.index("--offset") + 1]) if "--offset" in sys.argv else 0
if "--offset" in sys.argv:
    k = sys.argv.index("--offset"); del sys.argv[k:k + 2]
for i0 in sorted(os.listdir(src)):
    if not i0.isdigit():
        continue
    i = str(int(i0) + offset)
    d = os.path.join(here, "seeded", "%s_%s" % (pid, i))
    os.makedirs(d, exist_ok=True)
    for f in os.listdir(os.path.join(src, i0)):
        if os.path.isfile(os.path.join(src, i0, f)):
            shutil.copy(os.path.join(src, i0, f), d)
    p = subprocess.run([sys.executable, os.path.join(here, "tools", "seedtest.py"), d] + sys.argv[2:], stdout=subprocess.PIPE, text=True)
    line = [l for l in p.stdout.splitlines() if l.startswith("{")]
    out = json.loads(line[-1]) if line else {"error": p.stdout[-500:]}
    print(json.dumps(out))
    m = json.load(open(os.path.join(d, "meta.json")))
    viol = out.get("violation_lines") or []
    m["confirmed"] = {
        "ran": "tools/seedtest.py seeded/%s_%s: scratch copy of /repo; demo on clean tree rc=%s, with patch rc=%s; test suite with patch: %s; ./check %s --tier quick rc=%s"
               % (pid, i, out.get("demo_clean_rc"), out.get("demo_patched_rc"), out.get("tests"), pid, out.get("check_rc")),
        "outcome": ("MISSED (check exited 0)" if not viol else ("VIOLATION no-failing-input-found" if "no-failing-input-found" in viol[0] else "VIOLATION with concrete replay")),
        "summary": out.get("summary"),
    }
    json.dump(m, open(os.path.join(d, "meta.json"), "w"), indent=1)
subprocess.run("git -C /repo worktree remove --force /var/tmp/seed_%s; rm -rf %s /var/tmp/seedtask_%s.md" % (pid, src, pid), shell=True)
