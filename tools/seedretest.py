#!/usr/bin/env python3
"""tools/seedretest.py seeded/C19_2 ... : re-run seedtest on already imported seeded changes and append the
outcome to meta.json under "retests"."""
import json, os, subprocess, sys, time
here = os.path.dirname(os.path.dirname(os.path.abspath(__file__)))
extra = [a for a in sys.argv[1:] if a.startswith("--")]
for d in [a for a in sys.argv[1:] if not a.startswith("--")]:
    d = os.path.abspath(d)
    p = subprocess.run([sys.executable, os.path.join(here, "tools", "seedtest.py"), d, "--skip-tests"] + extra, stdout=subprocess.PIPE, text=True)
    line = [l for l in p.stdout.splitlines() if l.startswith("{")]
    out = json.loads(line[-1]) if line else {"error": p.stdout[-500:]}
    viol = out.get("violation_lines") or []
    res = ("check exited 0" if "_h" in os.path.basename(d) else "MISSED (check exited 0)") if not viol else ("VIOLATION no-failing-input-found" if "no-failing-input-found" in viol[0] else "VIOLATION with concrete replay")
    print(os.path.basename(d), res, out.get("check_s"), out.get("summary"))
    m = json.load(open(os.path.join(d, "meta.json")))
    m.setdefault("retests", []).append({"when": time.strftime("%Y-%m-%d %H:%M"), "mode": "in-repo" if "--in-repo" in extra else "scratch copy",
                                        "outcome": res, "summary": out.get("summary")})
    json.dump(m, open(os.path.join(d, "meta.json"), "w"), indent=1)
