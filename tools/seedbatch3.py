#!/usr/bin/env python3
"""tools/seedbatch3.py C04 [--offset 6]: import /var/tmp/seedout_C04/{1,2,3} as seeded/C04_<offset+i> (property-breaking
changes: demo + tests + quick check, as seedbatch.py) and /var/tmp/seedout_C04/{h1,h2} as seeded/C04_h<j> (harmless rewrites:
tests + quick check; expected outcome: the check exits 0). Removes the scratch worktree and outputs afterwards."""
import json, os, shutil, subprocess, sys
here = os.path.dirname(os.path.dirname(os.path.abspath(__file__)))
pid = sys.argv[1]
src = "/var/tmp/seedout_%s" % pid
offset = int(sys.argv[sys.argv.index("--offset") + 1]) if "--offset" in sys.argv else 6
keep = "--keep" in sys.argv
hoffset = int(sys.argv[sys.argv.index("--hoffset") + 1]) if "--hoffset" in sys.argv else 0

def outcome(out):
    viol = out.get("violation_lines") or []
    if not viol:
        return "check exited 0" if out.get("check_rc") == 0 else "check exited %s without VIOLATION line" % out.get("check_rc")
    return "VIOLATION no-failing-input-found" if "no-failing-input-found" in viol[0] else "VIOLATION with concrete replay"

for i0 in sorted(os.listdir(src)):
    sdir = os.path.join(src, i0)
    if not os.path.isdir(sdir) or not os.path.exists(os.path.join(sdir, "patch.diff")):
        continue
    harmless = i0.startswith("h")
    name = "%s_%s" % (pid, ("h%d" % (int(i0[1:]) + hoffset)) if harmless else str(int(i0) + offset))
    d = os.path.join(here, "seeded", name)
    os.makedirs(d, exist_ok=True)
    for f in os.listdir(sdir):
        if os.path.isfile(os.path.join(sdir, f)):
            shutil.copy(os.path.join(sdir, f), d)
    mp = os.path.join(d, "meta.json")
    try:
        m = json.load(open(mp))
    except Exception:
        m = {"property": pid, "harmless": harmless}
    m["property"] = pid
    if harmless:
        m["harmless"] = True
    json.dump(m, open(mp, "w"), indent=1)
    p = subprocess.run([sys.executable, os.path.join(here, "tools", "seedtest.py"), d], stdout=subprocess.PIPE, text=True)
    line = [l for l in p.stdout.splitlines() if l.startswith("{")]
    out = json.loads(line[-1]) if line else {"error": p.stdout[-500:]}
    print(json.dumps(out))
    oc = outcome(out)
    if not harmless and oc == "check exited 0":
        oc = "MISSED (check exited 0)"
    m["confirmed"] = {
        "ran": "tools/seedtest.py seeded/%s: scratch copy of /repo; demo on clean tree rc=%s, with patch rc=%s; test suite with patch: %s; ./check %s --tier quick rc=%s"
               % (name, out.get("demo_clean_rc"), out.get("demo_patched_rc"), out.get("tests"), pid, out.get("check_rc")),
        "outcome": oc, "summary": out.get("summary"), "violation_lines": out.get("violation_lines"),
    }
    json.dump(m, open(mp, "w"), indent=1)
if not keep:
    subprocess.run("git -C /repo worktree remove --force /var/tmp/seed_%s; rm -rf %s /var/tmp/seedtasks/%s.md" % (pid, src, pid), shell=True)
