#!/usr/bin/env python3
"""Run every claimed check (MANIFEST.json) on the unchanged tree and summarise.
   tools/runall.py [--tier quick|thorough] [--seeds 0,1,2] [--only C01,C02] [--jobs 4]"""
import json, os, subprocess, sys, time
from concurrent.futures import ThreadPoolExecutor
here = os.path.dirname(os.path.dirname(os.path.abspath(__file__)))
args = sys.argv[1:]
def opt(name, d):
    return args[args.index(name) + 1] if name in args else d
tier = opt("--tier", "quick"); seeds = [int(x) for x in opt("--seeds", "0").split(",")]
only = opt("--only", ""); jobs = int(opt("--jobs", "3"))
m = json.load(open(os.path.join(here, "MANIFEST.json")))
pids = [c["property_id"] for c in m["checks"]]
if only:
    pids = [p for p in only.split(",")]
def one(job):
    pid, seed = job
    t0 = time.time()
    p = subprocess.run(["./check", pid, "--tier", tier], cwd=here, env=dict(os.environ, VERIF_SEED=str(seed)),
                       stdout=subprocess.PIPE, stderr=subprocess.STDOUT, text=True)
    lines = [l for l in p.stdout.splitlines() if l.startswith(("VIOLATION", "KNOWN-FINDING", pid + " tier="))]
    return pid, seed, p.returncode, round(time.time() - t0, 1), lines
with ThreadPoolExecutor(jobs) as ex:
    res = list(ex.map(one, [(p, s) for p in pids for s in seeds]))
bad = 0
for pid, seed, rc, dt, lines in res:
    print("%s seed=%d rc=%d %.1fs" % (pid, seed, rc, dt))
    for l in lines:
        print("    " + l)
    bad += rc != 0
print("%d runs, %d non-zero" % (len(res), bad))
sys.exit(1 if bad else 0)
