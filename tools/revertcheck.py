#!/usr/bin/env python3
"""tools/revertcheck.py [Cxx ...]: for every "fixed:" entry of KNOWN_FINDINGS.json (optionally only the given
properties) revert that commit in a scratch copy of /repo and run the property's quick check against it; the
check must report a VIOLATION (the repaired defect must be reported again if it ever returns).
Properties run in parallel (3 at a time), the entries of one property one after the other."""
import json, os, re, shutil, subprocess, sys
from concurrent.futures import ThreadPoolExecutor
here = os.path.dirname(os.path.dirname(os.path.abspath(__file__)))
k = json.load(open(os.path.join(here, "KNOWN_FINDINGS.json")))
only = set(sys.argv[1:])
byprop = {}
for e in k["fixed"]:
    m = re.match(r"fixed: property=(C\d+) ([0-9a-f]{7,}) ", e)
    if m and (not only or m.group(1) in only):
        byprop.setdefault(m.group(1), []).append(m.group(2))

def one(pid):
    out = []
    for h in byprop[pid]:
        tree = "/var/tmp/revert_%s_%s" % (pid, h)
        subprocess.run("rm -rf %s && rsync -a --exclude .git /repo/ %s/ && cd %s && git -C /repo show %s -- deap | patch -R -p1 -s"
                       % (tree, tree, tree, h), shell=True)
        env = dict(os.environ, VERIF_REPO=tree, VERIF_EVIDENCE_DIR="/var/tmp/seedtest_evidence")
        p = subprocess.run(["./check", pid, "--tier", "quick"], cwd=here, env=env, stdout=subprocess.PIPE, stderr=subprocess.STDOUT, text=True)
        v = [l for l in p.stdout.splitlines() if l.startswith("VIOLATION")]
        out.append((pid, h, p.returncode, v[0][-60:] if v else "NOT CAUGHT"))
        shutil.rmtree(tree, ignore_errors=True)
        print(out[-1], flush=True)
    return out
with ThreadPoolExecutor(3) as ex:
    res = [r for rs in ex.map(one, sorted(byprop)) for r in rs]
bad = [r for r in res if r[3] == "NOT CAUGHT"]
print("%d reverts, %d not caught" % (len(res), len(bad)))
sys.exit(1 if bad else 0)
