#!/usr/bin/env python3
"""Assemble MANIFEST.json from manifest/*.json fragments (one per claimed property) and manifest/_na.json."""
import glob, json, os
here = os.path.dirname(os.path.dirname(os.path.abspath(__file__)))
checks = []
for f in sorted(glob.glob(os.path.join(here, "manifest", "C*.json"))):
    c = json.load(open(f))
    pid = c["property_id"]
    c.setdefault("quick_cmd", "./check %s --tier quick" % pid)
    c.setdefault("thorough_cmd", "./check %s --tier thorough" % pid)
    c.setdefault("evidence_file", "/verif/evidence/%s.json" % pid)
    c.setdefault("replay_cmd_template", "./check %s --replay {path}" % pid)
    c.setdefault("engine", "coq-proof+correspondence")
    checks.append(c)
na_p = os.path.join(here, "manifest", "_na.json")
na = json.load(open(na_p)) if os.path.exists(na_p) else []
claimed = {c["property_id"] for c in checks}
na = [x for x in na if x["property_id"] not in claimed]
allp = [json.loads(l)["id"] for l in open(os.path.join(here, "properties.jsonl"))]
for p in allp:
    if p not in claimed and p not in {x["property_id"] for x in na}:
        na.append({"property_id": p, "reason": "check not built yet (work in progress); nothing is claimed for this property"})
m = {
    "version": 1,
    "setup_cmd": "./setup.sh",
    "hooks": {"guard": "DEAP_VERIF", "enable": "no source hooks are used: all instrumentation is external (namespace proxies, recording toolbox functions); checks run /repo's working tree via PYTHONPATH",
              "baseline_off_cmd": "cd /repo && /venv/bin/python -m pytest -ra -q -p no:cacheprovider --timeout=900 --continue-on-collection-errors",
              "source_commits": [], "add_only": True},
    "engines": [{"name": "coq-proof+correspondence", "path": "/verif/check",
                 "serves_properties": sorted(claimed),
                 "kind_free_text": "Coq 8.16.1 models and theorems (coq/), tied to /repo on every run (a) by fail-closed Python-ast -> Gallina translators that regenerate definitions from the current source, with machine-checked lemmas that the regenerated definitions equal the hand-written models the theorems are about (16 of the 20 properties), and (b) by differential evaluation of the models (and of the regenerated definitions) inside coqc (vm_compute) against the implementation on generated cases; plus an implementation-level oracle that evaluates the property statement directly, for replays"}],
    "checks": checks,
    "not_applicable": na,
    "notes": "See DESIGN.md. KNOWN_FINDINGS.json lists recorded defects and 'fixed:' entries.",
}
json.dump(m, open(os.path.join(here, "MANIFEST.json"), "w"), indent=1)
print("MANIFEST.json: %d checks, %d not_applicable" % (len(checks), len(na)))

# KNOWN_FINDINGS.json = union of the per-property fragments known_findings/Cxx.json (+ C01's entry)
kf = {"findings": [], "fixed": ["fixed: property=C01 fcd3ad3 copy.deepcopy of a constraint-violating ConstrainedFitness (values unassigned, constraint_violation=[True]) dropped constraint_violation, so the clone compared != to its original"]}
for f in sorted(glob.glob(os.path.join(here, "known_findings", "C*.json"))):
    d = json.load(open(f))
    kf["findings"] += d.get("findings", [])
    kf["fixed"] += d.get("fixed", [])
json.dump(kf, open(os.path.join(here, "KNOWN_FINDINGS.json"), "w"), indent=1)
print("KNOWN_FINDINGS.json: %d findings, %d fixed" % (len(kf["findings"]), len(kf["fixed"])))
