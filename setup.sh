#!/bin/bash
# MANIFEST.setup_cmd: full .vo build of the hand-written Coq development (offline).
here="$(cd "$(dirname "$0")" && pwd)"
cd "$here" || exit 1
export PYTHONDONTWRITEBYTECODE=1
exec /venv/bin/python harness/setup.py "$@"
