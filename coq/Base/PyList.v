(* Python list indexing and slicing on Coq lists.
   slice_adjust follows CPython's PySlice_AdjustIndices / slice.indices(len). *)
From Coq Require Import List ZArith Bool Lia.
Import ListNotations.
Local Open Scope Z_scope.

Definition zlen {A} (l : list A) : Z := Z.of_nat (length l).

(* l[i] with Python's negative indices; None = IndexError *)
Definition py_get {A} (l : list A) (i : Z) : option A :=
  let n := zlen l in
  let j := if i <? 0 then i + n else i in
  if (j <? 0) || (n <=? j) then None else nth_error l (Z.to_nat j).

(* l[i] = v; None = IndexError *)
Fixpoint set_nth {A} (l : list A) (k : nat) (v : A) : list A :=
  match l, k with
  | [], _ => []
  | _ :: r, O => v :: r
  | x :: r, S k' => x :: set_nth r k' v
  end.

Definition py_set {A} (l : list A) (i : Z) (v : A) : option (list A) :=
  let n := zlen l in
  let j := if i <? 0 then i + n else i in
  if (j <? 0) || (n <=? j) then None else Some (set_nth l (Z.to_nat j) v).

Lemma set_nth_length {A} (l : list A) k v : length (set_nth l k v) = length l.
Proof. revert k; induction l as [|x r IH]; destruct k; cbn; auto. Qed.

(* range(start, stop, step) for step <> 0 *)
Definition range_count (start stop step : Z) : Z :=
  if 0 <? step then (if start <? stop then (stop - start - 1) / step + 1 else 0)
  else if step <? 0 then (if stop <? start then (start - stop - 1) / (- step) + 1 else 0)
  else 0.

Definition py_range3 (start stop step : Z) : list Z :=
  map (fun i => start + Z.of_nat i * step) (seq 0 (Z.to_nat (range_count start stop step))).

Definition py_range (n : Z) : list Z := py_range3 0 n 1.

(* slice.indices(len): (start, stop) after defaulting and clamping; step <> 0 *)
Definition slice_adjust (start stop : option Z) (step len : Z) : Z * Z :=
  let lower := if step <? 0 then -1 else 0 in
  let upper := if step <? 0 then len - 1 else len in
  let norm (o : option Z) (dflt : Z) :=
    match o with
    | None => dflt
    | Some v => if v <? 0 then Z.max (v + len) lower else Z.min v upper
    end in
  (norm start (if step <? 0 then upper else lower),
   norm stop  (if step <? 0 then lower else upper)).

Definition slice_idx (start stop : option Z) (step len : Z) : list Z :=
  let '(s, e) := slice_adjust start stop step len in py_range3 s e step.

Definition py_slice {A} (l : list A) (start stop : option Z) (step : Z) : list A :=
  flat_map (fun i => match nth_error l (Z.to_nat i) with Some x => [x] | None => [] end)
           (slice_idx start stop step (zlen l)).

(* the common l[a:b] with plain integer bounds, step 1 *)
Definition py_sub {A} (l : list A) (a b : Z) : list A :=
  py_slice l (Some a) (Some b) 1.

(* l[a:b] = r (step 1 slice assignment; lengths may differ) *)
Definition py_slice_assign {A} (l : list A) (a b : option Z) (r : list A) : list A :=
  let '(s, e) := slice_adjust a b 1 (zlen l) in
  let e' := Z.max s e in
  firstn (Z.to_nat s) l ++ r ++ skipn (Z.to_nat e') l.

(* zip truncation *)
Fixpoint zip {A B} (a : list A) (b : list B) : list (A * B) :=
  match a, b with
  | x :: a', y :: b' => (x, y) :: zip a' b'
  | _, _ => []
  end.

Fixpoint map2 {A B C} (f : A -> B -> C) (a : list A) (b : list B) : list C :=
  match a, b with
  | x :: a', y :: b' => f x y :: map2 f a' b'
  | _, _ => []
  end.

Lemma map2_length {A B C} (f : A -> B -> C) a b :
  length (map2 f a b) = Nat.min (length a) (length b).
Proof. revert b; induction a; destruct b; cbn; auto. Qed.

Lemma zip_length {A B} (a : list A) (b : list B) :
  length (zip a b) = Nat.min (length a) (length b).
Proof. revert b; induction a; destruct b; cbn; auto. Qed.

(* sanity: a few evaluations against CPython, checked at compile time *)
Example slice_ex1 : py_slice [0;1;2;3;4] (Some 1) (Some 4) 1 = [1;2;3]. Proof. reflexivity. Qed.
Example slice_ex2 : py_slice [0;1;2;3;4] None None (-1) = [4;3;2;1;0]. Proof. reflexivity. Qed.
Example slice_ex3 : py_slice [0;1;2;3;4] (Some (-2)) None 1 = [3;4]. Proof. reflexivity. Qed.
Example slice_ex4 : py_slice [0;1;2;3;4] (Some 4) (Some (-6)) (-2) = [4;2;0]. Proof. reflexivity. Qed.
Example slice_ex5 : py_slice [0;1;2;3;4] (Some 7) (Some 2) 1 = []. Proof. reflexivity. Qed.
Example slice_ex6 : py_slice [0;1;2;3;4] None (Some 10) 2 = [0;2;4]. Proof. reflexivity. Qed.
Example assign_ex1 : py_slice_assign [0;1;2;3;4] (Some 1) (Some 3) [9] = [0;9;3;4]. Proof. reflexivity. Qed.
Example assign_ex2 : py_slice_assign [0;1;2;3;4] (Some 3) (Some 1) [9] = [0;1;2;9;3;4]. Proof. reflexivity. Qed.
