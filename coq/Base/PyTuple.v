(* CPython rich comparison of tuples (Objects/tupleobject.c, tuplerichcompare):
   find the first index where the items differ under ==; if there is none the
   lengths decide; otherwise the operator is applied to that pair of items.
   Instantiated here for items that are integers (every finite set of floats
   under < is order-isomorphic to a set of integers).  *)
From Coq Require Import List ZArith Bool Lia.
Import ListNotations.
Local Open Scope Z_scope.

Inductive cmpop := OpLt | OpLe | OpEq | OpNe | OpGt | OpGe.

Definition z_op (op : cmpop) (x y : Z) : bool :=
  match op with
  | OpLt => x <? y | OpLe => x <=? y | OpEq => x =? y
  | OpNe => negb (x =? y) | OpGt => x >? y | OpGe => x >=? y
  end.

Definition len_op (op : cmpop) (x y : nat) : bool :=
  z_op op (Z.of_nat x) (Z.of_nat y).

Fixpoint tup_cmp (op : cmpop) (a b : list Z) : bool :=
  match a, b with
  | x :: a', y :: b' => if x =? y then tup_cmp op a' b' else z_op op x y
  | _, _ => len_op op (length a) (length b)
  end.

Definition tup_lt := tup_cmp OpLt.
Definition tup_le := tup_cmp OpLe.
Definition tup_eq := tup_cmp OpEq.

(* Specification: strict lexicographic order on lists, as an inductive relation *)
Inductive lex_lt : list Z -> list Z -> Prop :=
| lex_nil : forall y b, lex_lt [] (y :: b)
| lex_head : forall x y a b, x < y -> lex_lt (x :: a) (y :: b)
| lex_tail : forall x a b, lex_lt a b -> lex_lt (x :: a) (x :: b).

Lemma tup_lt_spec a b : tup_lt a b = true <-> lex_lt a b.
Proof.
  unfold tup_lt. revert b; induction a as [|x a IH]; destruct b as [|y b]; cbn.
  - split; [discriminate|inversion 1].
  - split; [constructor|reflexivity].
  - split; [discriminate|inversion 1].
  - destruct (Z.eqb_spec x y) as [->|N].
    + rewrite IH. split; [apply lex_tail|]. inversion 1; subst; [lia|assumption].
    + rewrite Z.ltb_lt. split; [apply lex_head|]. inversion 1; subst; [assumption|congruence].
Qed.

Lemma tup_eq_spec a b : tup_eq a b = true <-> a = b.
Proof.
  unfold tup_eq. revert b; induction a as [|x a IH]; destruct b as [|y b]; cbn;
    try (split; [discriminate|congruence]); [tauto|].
  destruct (Z.eqb_spec x y) as [->|N].
  - rewrite IH. split; [congruence|]. inversion 1; reflexivity.
  - split; [|congruence]. unfold z_op. destruct (Z.eqb_spec x y); [congruence|discriminate].
Qed.

Lemma tup_le_spec a b : tup_le a b = true <-> (lex_lt a b \/ a = b).
Proof.
  unfold tup_le. revert b; induction a as [|x a IH]; destruct b as [|y b]; cbn.
  - split; auto.
  - split; [left; constructor|reflexivity].
  - split; [discriminate|]. intros [H|H]; [inversion H|discriminate].
  - destruct (Z.eqb_spec x y) as [->|N].
    + rewrite IH. split.
      * intros [H| ->]; [left; apply lex_tail; assumption|right; reflexivity].
      * intros [H|H]; [inversion H; subst; [lia|left; assumption]|inversion H; right; reflexivity].
    + rewrite Z.leb_le. split.
      * intro H; left; apply lex_head; lia.
      * intros [H|H]; [inversion H; subst; [lia|congruence]|congruence].
Qed.

Lemma lex_lt_irrefl a : ~ lex_lt a a.
Proof. induction a as [|x a IH]; inversion 1; subst; [lia|auto]. Qed.

Lemma lex_lt_trans a b c : lex_lt a b -> lex_lt b c -> lex_lt a c.
Proof.
  intros H; revert c; induction H as [y b|x y a b L|x a b H IH]; intros c H2; inversion H2; subst;
    try (constructor; fail); try (apply lex_head; lia).
  apply lex_tail; apply IH; assumption.
Qed.

Lemma lex_trichotomy a b : lex_lt a b \/ a = b \/ lex_lt b a.
Proof.
  revert b; induction a as [|x a IH]; destruct b as [|y b].
  - right; left; reflexivity.
  - left; constructor.
  - right; right; constructor.
  - destruct (Z.lt_trichotomy x y) as [L|[ ->|G]].
    + left; apply lex_head; assumption.
    + destruct (IH b) as [H|[ ->|H]]; [left; apply lex_tail; assumption|right; left; reflexivity|right; right; apply lex_tail; assumption].
    + right; right; apply lex_head; assumption.
Qed.

Lemma lex_lt_asym a b : lex_lt a b -> ~ lex_lt b a.
Proof. intros H1 H2; apply (lex_lt_irrefl a); eapply lex_lt_trans; eassumption. Qed.

(* the two derived operators of tuples agree with the swapped primary ones *)
Lemma tup_cmp_gt a b : tup_cmp OpGt a b = tup_lt b a.
Proof.
  unfold tup_lt; revert b; induction a as [|x a IH]; destruct b as [|y b]; cbn; try reflexivity;
    try (unfold len_op, z_op; cbn [length]; rewrite Z.gtb_ltb; reflexivity).
  unfold z_op. rewrite Z.gtb_ltb. destruct (Z.eqb_spec x y), (Z.eqb_spec y x); try congruence; apply IH.
Qed.

Lemma tup_cmp_ge a b : tup_cmp OpGe a b = tup_le b a.
Proof.
  unfold tup_le; revert b; induction a as [|x a IH]; destruct b as [|y b]; cbn; try reflexivity;
    try (unfold len_op, z_op; cbn [length]; rewrite Z.geb_leb; reflexivity).
  unfold z_op. rewrite Z.geb_leb. destruct (Z.eqb_spec x y), (Z.eqb_spec y x); try congruence; apply IH.
Qed.

Lemma tup_cmp_ne a b : tup_cmp OpNe a b = negb (tup_eq a b).
Proof.
  unfold tup_eq; revert b; induction a as [|x a IH]; destruct b as [|y b]; cbn; try reflexivity.
  destruct (x =? y); [apply IH|reflexivity].
Qed.
