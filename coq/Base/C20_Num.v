(* C20: the numeric type class the regenerated benchmark definitions are generic in, its two
   instances (R: theorems; PrimFloat: evaluation inside coqc), and the small Python run-time
   (indexing with default, enumerate, reduce, max, bit-string decoding, bounded while) that the
   translator harness/c20_py2coq.py targets. *)
From Coq Require Import Reals ZArith List Bool Floats Lia Lra.
From DV Require Import Base.PyList Base.C20_FloatFun.
Import ListNotations.

Class Num (T : Type) := {
  nofZ : Z -> T;
  (* a decimal literal of the source: exact value num/den, and its binary64 rounding *)
  nlit : Z -> positive -> float -> T;
  npi : T;
  ne : T;
  nadd : T -> T -> T;
  nsub : T -> T -> T;
  nmul : T -> T -> T;
  ndiv : T -> T -> T;
  nneg : T -> T;
  nabs : T -> T;
  nsqrt : T -> T;
  nsin : T -> T;
  ncos : T -> T;
  nexp : T -> T;
  nln : T -> T;
  npown : T -> nat -> T;       (* x ** k for a literal k >= 0 *)
  npow : T -> T -> T;          (* x ** y, float exponent *)
  nsum : list T -> T;          (* builtin sum() *)
  nltb : T -> T -> bool;
  nleb : T -> T -> bool;
  neqb : T -> T -> bool;
  nround : T -> Z;             (* int(round(x)) *)
  ntrunc : T -> Z              (* int(x) *)
}.

Definition ngtb {T} `{Num T} (a b : T) : bool := nltb b a.
Definition ngeb {T} `{Num T} (a b : T) : bool := nleb b a.
Definition nneb {T} `{Num T} (a b : T) : bool := negb (neqb a b).

(* ------------------------------------------------------------------ *)
(* R instance                                                           *)
(* ------------------------------------------------------------------ *)
Local Open Scope R_scope.

Definition Rltb (a b : R) : bool := if Rlt_dec a b then true else false.
Definition Rleb (a b : R) : bool := if Rle_dec a b then true else false.
Definition Reqb (a b : R) : bool := if Req_EM_T a b then true else false.

(* total real power: x^y = exp(y ln x) for x > 0; 0^0 = 1, 0^y = 0; 0 for x < 0 (outside the
   domain of every benchmark: Python would return a complex number or raise) *)
Definition Rpow_total (x y : R) : R :=
  if Rlt_dec 0 x then Rpower x y
  else if Req_EM_T x 0 then (if Req_EM_T y 0 then 1 else 0)
  else 0.

Definition Rfloor (x : R) : Z := (up x - 1)%Z.
Definition Rround_he (x : R) : Z :=
  let n := Rfloor x in
  let d := x - IZR n in
  if Rlt_dec d (1/2) then n
  else if Rlt_dec (1/2) d then (n + 1)%Z
  else if Z.even n then n else (n + 1)%Z.
Definition Rtrunc (x : R) : Z := if Rle_dec 0 x then Rfloor x else (- Rfloor (- x))%Z.

Definition Rsum (l : list R) : R := fold_right Rplus 0 l.

#[global] Instance NumR : Num R := {
  nofZ := IZR;
  nlit := fun n d _ => match d with xH => IZR n | _ => IZR n / IZR (Zpos d) end;
  npi := PI;
  ne := Rtrigo_def.exp 1;
  nadd := Rplus; nsub := Rminus; nmul := Rmult; ndiv := Rdiv;
  nneg := Ropp; nabs := Rabs; nsqrt := R_sqrt.sqrt; nsin := Rtrigo_def.sin; ncos := Rtrigo_def.cos;
  nexp := Rtrigo_def.exp; nln := Rpower.ln;
  npown := pow; npow := Rpow_total;
  nsum := Rsum;
  nltb := Rltb; nleb := Rleb; neqb := Reqb;
  nround := Rround_he; ntrunc := Rtrunc
}.

Local Close Scope R_scope.

(* ------------------------------------------------------------------ *)
(* float instance (evaluation only)                                     *)
(* ------------------------------------------------------------------ *)
#[global] Instance NumF : Num float := {
  nofZ := f_ofZ;
  nlit := fun _ _ f => f;
  npi := 0x1.921fb54442d18p+1%float;
  ne := 0x1.5bf0a8b145769p+1%float;
  nadd := PrimFloat.add; nsub := PrimFloat.sub; nmul := PrimFloat.mul; ndiv := PrimFloat.div;
  nneg := PrimFloat.opp; nabs := PrimFloat.abs; nsqrt := PrimFloat.sqrt;
  nsin := f_sin; ncos := f_cos; nexp := f_exp; nln := f_ln;
  npown := f_pow_nat; npow := f_pow;
  nsum := f_pysum;
  nltb := PrimFloat.ltb; nleb := PrimFloat.leb; neqb := PrimFloat.eqb;
  nround := f_roundZ; ntrunc := f_truncZ
}.

(* ------------------------------------------------------------------ *)
(* Python run-time used by generated code                               *)
(* ------------------------------------------------------------------ *)
Local Open Scope Z_scope.

(* l[i] (negative indices allowed); the default stands for IndexError and is excluded by the
   length hypotheses of the theorems *)
Definition zget {A} (d : A) (l : list A) (i : Z) : A :=
  match py_get l i with Some x => x | None => d end.

Definition enumerate {A} (l : list A) : list (Z * A) := zip (py_range (zlen l)) l.

(* functools.reduce(f, l, init) and reduce(f, l) *)
Definition reduce {A B} (f : B -> A -> B) (l : list A) (init : B) : B := fold_left f l init.
Definition reduce1 {A} (d : A) (f : A -> A -> A) (l : list A) : A :=
  match l with [] => d | x :: r => fold_left f r x end.

(* builtin max / min of a non-empty list: the first extremum *)
Definition pymax {T} `{Num T} (d : T) (l : list T) : T :=
  match l with [] => d | x :: r => fold_left (fun m y => if nltb m y then y else m) r x end.
Definition pymin {T} `{Num T} (d : T) (l : list T) : T :=
  match l with [] => d | x :: r => fold_left (fun m y => if nltb y m then y else m) r x end.

Definition zsum (l : list Z) : Z := fold_left Z.add l 0.

(* int("".join(map(str, bits)), 2) for bits in {0,1}: most significant bit first *)
Definition bits2int (bits : list Z) : Z := fold_left (fun acc b => 2 * acc + b) bits 0.

(* while cond: body, with explicit fuel; None = out of fuel *)
Fixpoint while_loop {S} (fuel : nat) (cond : S -> bool) (body : S -> S) (s : S) : option S :=
  if cond s then
    match fuel with
    | O => None
    | Datatypes.S k => while_loop k cond body (body s)
    end
  else Some s.

(* numpy.dot(M, v) for a list-of-rows matrix *)
Definition dotv {T} `{Num T} (r v : list T) : T :=
  fold_left nadd (map (fun p => nmul (fst p) (snd p)) (zip r v)) (nofZ 0).
Definition matvec {T} `{Num T} (M : list (list T)) (v : list T) : list T := map (fun r => dotv r v) M.

(* l[i] = v (negative indices allowed); unchanged list stands for IndexError *)
Definition zset {A} (l : list A) (i : Z) (v : A) : list A :=
  match py_set l i v with Some l' => l' | None => l end.

(* [x] * n *)
Definition zrepeat {A} (x : A) (n : Z) : list A := repeat x (Z.to_nat n).
