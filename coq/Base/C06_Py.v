(* Python built-ins used by deap/tools/selection.py, as executable definitions only
   (lemmas are in Proofs/C06_Sort.v so that the model still evaluates when a proof breaks).

   - sorted(l, key=...)            : stable; CPython's list.sort compares keys with < only
   - sorted(l, key=..., reverse=True) : CPython reverses, sorts stably, reverses again
   - max(l, key=...)               : first maximum; compares with > (Py_GT)
   - tuple < / <= on tuples of numbers (here: rationals, every finite float is one)
   - max/min of numbers, numpy.median of a 1-d list *)
From Coq Require Import List Bool Arith QArith.
Import ListNotations.

Section Generic.
  Context {A : Type}.

  (* insertion of x, an element that was EARLIER in the input than every element of l:
     it goes in front of the first element that is not strictly smaller *)
  Fixpoint ins (lt : A -> A -> bool) (x : A) (l : list A) : list A :=
    match l with
    | [] => [x]
    | y :: r => if lt y x then y :: ins lt x r else x :: y :: r
    end.

  Definition py_sorted (lt : A -> A -> bool) (l : list A) : list A := fold_right (ins lt) [] l.

  Definition py_sorted_rev (lt : A -> A -> bool) (l : list A) : list A :=
    rev (py_sorted lt (rev l)).

  Fixpoint max_from (gt : A -> A -> bool) (best : A) (l : list A) : A :=
    match l with
    | [] => best
    | x :: r => max_from gt (if gt x best then x else best) r
    end.

  (* None = ValueError: max() arg is an empty sequence *)
  Definition py_max (gt : A -> A -> bool) (l : list A) : option A :=
    match l with [] => None | x :: r => Some (max_from gt x r) end.

  Definition opt_list (o : option A) : list A := match o with Some x => [x] | None => [] end.

  (* [l[i] for i in idx], silently skipping out-of-range indices (callers check ranges first) *)
  Definition pick (l : list A) (idx : list nat) : list A :=
    flat_map (fun i => opt_list (nth_error l i)) idx.
End Generic.

(* ---- numbers ---- *)
Definition Qltb (x y : Q) : bool := negb (Qle_bool y x).

Fixpoint qtup_lt (a b : list Q) : bool :=
  match a, b with
  | x :: a', y :: b' => if Qeq_bool x y then qtup_lt a' b' else Qltb x y
  | [], _ :: _ => true
  | _, [] => false
  end.

Fixpoint qtup_le (a b : list Q) : bool :=
  match a, b with
  | x :: a', y :: b' => if Qeq_bool x y then qtup_le a' b' else Qle_bool x y
  | [], _ => true
  | _ :: _, [] => false
  end.

(* max(...) / min(...) of a non-empty sequence of numbers (value of the first extremum) *)
Definition qmax (l : list Q) : Q :=
  match l with [] => 0 | x :: r => fold_left (fun b y => if Qltb b y then y else b) r x end.
Definition qmin (l : list Q) : Q :=
  match l with [] => 0 | x :: r => fold_left (fun b y => if Qltb y b then y else b) r x end.

(* sum(...) : 0 + x1 + x2 + ... *)
Definition qsum (l : list Q) : Q := fold_left Qplus l 0.

(* numpy.median of a non-empty 1-d sequence: sort; middle element, or mean of the two middle ones *)
Definition qsort (l : list Q) : list Q := py_sorted Qltb l.
Definition median (l : list Q) : Q :=
  let s := qsort l in
  let n := length s in
  if Nat.even n then (nth (n / 2 - 1) s 0 + nth (n / 2) s 0) / 2
  else nth (n / 2) s 0.

(* permutation / distinctness checks on recorded draws *)
Definition is_perm (p : list nat) (n : nat) : bool :=
  Nat.eqb (length p) n && forallb (fun i => existsb (Nat.eqb i) p) (seq 0 n).

Fixpoint nodupb (l : list nat) : bool :=
  match l with
  | [] => true
  | x :: r => negb (existsb (Nat.eqb x) r) && nodupb r
  end.
