(* C20: elementary functions on primitive floats (binary64), used ONLY to evaluate the regenerated
   benchmark definitions inside coqc for the correspondence step (compared with CPython within a
   tolerance, or bit for bit when a definition uses + - * / sqrt only).  Nothing is proved about
   these approximations; they are part of the trusted evaluation harness, not of any theorem.
   Accuracy (measured against CPython's libm in harness/c20.py on every run): about 1e-15 relative
   for exp/ln/pow on the ranges used, about 1e-15 absolute for sin/cos with |x| < 1e5. *)
From Coq Require Import Floats ZArith List Bool.
Import ListNotations.
Local Open Scope bool_scope.
Local Open Scope float_scope.

(* ---- conversions ---- *)
Definition f_ofpos (p : positive) : float := of_uint63 (Uint63.of_Z (Zpos p)).
(* exact for |z| <= 2^53; correctly rounded up to 2^62; nan beyond (never used there) *)
Definition f_ofZ (z : Z) : float :=
  match z with
  | Z0 => 0
  | Zpos p => if (Zpos p <? 4611686018427387904)%Z then f_ofpos p else nan
  | Zneg p => if (Zpos p <? 4611686018427387904)%Z then - f_ofpos p else nan
  end.

(* truncation toward zero of a finite float; 0 for nan/inf *)
Definition f_truncZ (f : float) : Z :=
  match Prim2SF f with
  | S754_finite s m e =>
      let v := if (0 <=? e)%Z then (Zpos m * 2 ^ e)%Z else (Zpos m / 2 ^ (- e))%Z in
      if s then (- v)%Z else v
  | _ => 0%Z
  end.

(* Python round(x) for a float: nearest integer, ties to even *)
Definition f_roundZ (f : float) : Z :=
  match Prim2SF f with
  | S754_finite s m e =>
      let v :=
        if (0 <=? e)%Z then (Zpos m * 2 ^ e)%Z
        else let d := (2 ^ (- e))%Z in
             let q := (Zpos m / d)%Z in
             let r := (Zpos m mod d)%Z in
             if (2 * r <? d)%Z then q else if (d <? 2 * r)%Z then (q + 1)%Z
             else if Z.even q then q else (q + 1)%Z in
      if s then (- v)%Z else v
  | _ => 0%Z
  end.

(* round to nearest integer-valued float, |x| < 2^51 *)
Definition f_rint (x : float) : float := (x + 0x1.8p52) - 0x1.8p52.

Fixpoint horner (cs : list float) (x : float) : float :=
  match cs with
  | [] => 0
  | c :: r => c + x * horner r x
  end.

(* ---- exp ---- *)
Definition ln2_hi := 0x1.62e42fee00000p-1.
Definition ln2_lo := 0x1.a39ef35793c76p-33.
Definition inv_ln2 := 0x1.71547652b82fep+0.

(* 1/k! for k = 0..15 *)
Definition exp_coefs : list float :=
  [1; 1; 0x1p-1; 0x1.5555555555555p-3; 0x1.5555555555555p-5; 0x1.1111111111111p-7;
   0x1.6c16c16c16c17p-10; 0x1.a01a01a01a01ap-13; 0x1.a01a01a01a01ap-16; 0x1.71de3a556c734p-19;
   0x1.27e4fb7789f5cp-22; 0x1.ae64567f544e4p-26; 0x1.1eed8eff8d898p-29; 0x1.6124613a86d09p-33;
   0x1.93974a8c07c9dp-37; 0x1.ae7f3e733b81fp-41].

Definition f_exp (x : float) : float :=
  if x <? -746 then 0
  else if 710 <? x then infinity
  else if x =? x then
    let kf := f_rint (x * inv_ln2) in
    let r := (x - kf * ln2_hi) - kf * ln2_lo in
    Z.ldexp (horner exp_coefs r) (f_truncZ kf)
  else nan.

(* ---- ln ---- *)
Definition sqrt_half := 0x1.6a09e667f3bcdp-1.
(* 1/(2k+1), k = 0..13 *)
Definition atanh_coefs : list float :=
  [1; 0x1.5555555555555p-2; 0x1.999999999999ap-3; 0x1.2492492492492p-3; 0x1.c71c71c71c71cp-4;
   0x1.745d1745d1746p-4; 0x1.3b13b13b13b14p-4; 0x1.1111111111111p-4; 0x1.e1e1e1e1e1e1ep-5;
   0x1.af286bca1af28p-5; 0x1.8618618618618p-5; 0x1.642c8590b2164p-5; 0x1.47ae147ae147bp-5;
   0x1.2f684bda12f68p-5].

Definition f_ln (x : float) : float :=
  if x <? 0 then nan
  else if x =? 0 then neg_infinity
  else if x =? infinity then infinity
  else if x =? x then
    let '(m, e) := Z.frexp x in
    let '(m, e) := if m <? sqrt_half then (m * 2, (e - 1)%Z) else (m, e) in
    let s := (m - 1) / (m + 1) in
    let lm := 2 * s * horner atanh_coefs (s * s) in
    let ef := f_ofZ e in
    ef * ln2_hi + (lm + ef * ln2_lo)
  else nan.

(* ---- sin / cos ---- *)
Definition pio2_1 := 0x1.921fb54400000p+0.
Definition pio2_2 := 0x1.0b4611a600000p-34.
Definition pio2_3 := 0x1.3198a2e037073p-69.
Definition two_over_pi := 0x1.45f306dc9c883p-1.

(* (-1)^k/(2k+1)!, k = 0..9   and  (-1)^k/(2k)!, k = 0..9 *)
Definition sin_coefs : list float :=
  [1; -0x1.5555555555555p-3; 0x1.1111111111111p-7; -0x1.a01a01a01a01ap-13; 0x1.71de3a556c734p-19;
   -0x1.ae64567f544e4p-26; 0x1.6124613a86d09p-33; -0x1.ae7f3e733b81fp-41; 0x1.952c77030ad4ap-49;
   -0x1.2f49b46814157p-57].
Definition cos_coefs : list float :=
  [1; -0x1p-1; 0x1.5555555555555p-5; -0x1.6c16c16c16c17p-10; 0x1.a01a01a01a01ap-16;
   -0x1.27e4fb7789f5cp-22; 0x1.1eed8eff8d898p-29; -0x1.93974a8c07c9dp-37; 0x1.ae7f3e733b81fp-45;
   -0x1.6827863b97d97p-53].

Definition k_sin (r : float) : float := r * horner sin_coefs (r * r).
Definition k_cos (r : float) : float := horner cos_coefs (r * r).

(* reduction: x = k*(pi/2) + r, |r| <= pi/4 (for |x| < 2^20; larger arguments never occur here) *)
Definition trig_reduce (x : float) : Z * float :=
  let kf := f_rint (x * two_over_pi) in
  let r := ((x - kf * pio2_1) - kf * pio2_2) - kf * pio2_3 in
  (f_truncZ kf, r).

Definition f_sin (x : float) : float :=
  if abs x <? 0x1p20 then
    let '(k, r) := trig_reduce x in
    match (k mod 4)%Z with
    | 0%Z => k_sin r
    | 1%Z => k_cos r
    | 2%Z => - k_sin r
    | _ => - k_cos r
    end
  else nan.

Definition f_cos (x : float) : float :=
  if abs x <? 0x1p20 then
    let '(k, r) := trig_reduce x in
    match (k mod 4)%Z with
    | 0%Z => k_cos r
    | 1%Z => - k_sin r
    | 2%Z => - k_cos r
    | _ => k_sin r
    end
  else nan.

(* ---- powers ---- *)
Fixpoint f_pow_pos (x : float) (p : positive) : float :=
  match p with
  | xH => x
  | xO q => let y := f_pow_pos x q in y * y
  | xI q => let y := f_pow_pos x q in x * (y * y)
  end.

Definition f_pow_Z (x : float) (z : Z) : float :=
  match z with
  | Z0 => 1
  | Zpos p => f_pow_pos x p
  | Zneg p => 1 / f_pow_pos x p
  end.

Fixpoint f_pow_nat (x : float) (n : nat) : float :=
  match n with O => 1 | S O => x | S m => f_pow_nat x m * x end.

(* Python float ** float on the domain where it returns a float *)
Definition f_pow (x y : float) : float :=
  if y =? 0 then 1
  else if (y =? f_rint y) && (abs y <? 1025) then f_pow_Z x (f_truncZ y)
  else if 0 <? x then f_exp (y * f_ln x)
  else if x =? 0 then (if 0 <? y then 0 else infinity)
  else nan.

(* ---- Python 3.12 builtin sum() over a list of floats starting from the int 0:
   Neumaier compensated summation (Python/bltinmodule.c, builtin_sum_impl) ---- *)
Fixpoint neumaier (l : list float) (s c : float) : float * float :=
  match l with
  | [] => (s, c)
  | x :: r =>
      let t := s + x in
      let c' := if abs x <=? abs s then c + ((s - t) + x) else c + ((x - t) + s) in
      neumaier r t c'
  end.

Definition f_isfinite (x : float) : bool := (abs x <? infinity).

Definition f_pysum (l : list float) : float :=
  match l with
  | [] => 0
  | x :: r =>
      let '(s, c) := neumaier r (0 + x) 0 in
      if (negb (c =? 0)) && f_isfinite c then s + c else s
  end.

(* ---- comparison used by the correspondence runner ---- *)
Definition f_max (a b : float) : float := if a <? b then b else a.
Definition rtol := 0x1.12e0be826d695p-30.  (* 1e-9 *)
Definition f_close (a b : float) : bool :=
  if a =? b then true
  else abs (a - b) <=? rtol * (1 + f_max (abs a) (abs b)).

(* bit-for-bit equality (distinguishes +0/-0, identifies nans) *)
Definition f_same (a b : float) : bool :=
  match Prim2SF a, Prim2SF b with
  | S754_zero s1, S754_zero s2 => Bool.eqb s1 s2
  | S754_infinity s1, S754_infinity s2 => Bool.eqb s1 s2
  | S754_nan, S754_nan => true
  | S754_finite s1 m1 e1, S754_finite s2 m2 e2 => Bool.eqb s1 s2 && Pos.eqb m1 m2 && Z.eqb e1 e2
  | _, _ => false
  end.
