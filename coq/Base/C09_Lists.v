(* List lemmas for C09: Python get/set/slices of Base/PyList.v in terms of nth_error / firstn / skipn,
   Z-indexed accessors, swaps, permutations of 0..n-1. *)
From Coq Require Import List ZArith Bool Lia Permutation Arith.
From DV Require Import Base.PyList.
Import ListNotations.
Local Open Scope Z_scope.

(* ------------------------------------------------------------------ zlen *)
Lemma zlen_nonneg {A} (l : list A) : 0 <= zlen l.
Proof. unfold zlen; lia. Qed.

Lemma zlen_app {A} (a b : list A) : zlen (a ++ b) = zlen a + zlen b.
Proof. unfold zlen; rewrite app_length; lia. Qed.

Lemma zlen_cons {A} (x : A) l : zlen (x :: l) = zlen l + 1.
Proof. unfold zlen; cbn [length]; lia. Qed.

Lemma zlen_repeat {A} (x : A) n : zlen (repeat x n) = Z.of_nat n.
Proof. unfold zlen; now rewrite repeat_length. Qed.

(* ------------------------------------------------------------------ range *)
Lemma py_range_nat n : py_range (Z.of_nat n) = map Z.of_nat (seq 0 n).
Proof.
  unfold py_range, py_range3, range_count.
  replace (0 <? 1) with true by reflexivity.
  destruct (0 <? Z.of_nat n) eqn:E.
  - replace (Z.to_nat ((Z.of_nat n - 0 - 1) / 1 + 1)) with n by (rewrite Z.div_1_r; lia).
    apply map_ext; intro; lia.
  - assert (n = 0%nat) by lia. subst; reflexivity.
Qed.

Lemma py_range_nonpos n : n <= 0 -> py_range n = [].
Proof.
  intro H. unfold py_range, py_range3, range_count.
  replace (0 <? 1) with true by reflexivity.
  destruct (0 <? n) eqn:E; [lia|reflexivity].
Qed.

Lemma py_range3_step1 a b : a <= b ->
  py_range3 a b 1 = map (fun i => a + Z.of_nat i) (seq 0 (Z.to_nat (b - a))).
Proof.
  intro H. unfold py_range3, range_count.
  replace (0 <? 1) with true by reflexivity.
  destruct (a <? b) eqn:E.
  - replace (Z.to_nat ((b - a - 1) / 1 + 1)) with (Z.to_nat (b - a)) by (rewrite Z.div_1_r; lia).
    apply map_ext; intro; lia.
  - replace (b - a) with 0 by lia. reflexivity.
Qed.

(* ------------------------------------------------------------------ get / set *)
Lemma py_get_in {A} (l : list A) i : 0 <= i < zlen l -> py_get l i = nth_error l (Z.to_nat i).
Proof.
  intro H. unfold py_get. cbv zeta.
  destruct (i <? 0) eqn:E; [lia|].
  destruct ((i <? 0) || (zlen l <=? i)) eqn:F; [lia|reflexivity].
Qed.

Lemma py_set_in {A} (l : list A) i v : 0 <= i < zlen l -> py_set l i v = Some (set_nth l (Z.to_nat i) v).
Proof.
  intro H. unfold py_set. cbv zeta.
  destruct (i <? 0) eqn:E; [lia|].
  destruct ((i <? 0) || (zlen l <=? i)) eqn:F; [lia|reflexivity].
Qed.

Lemma py_get_some_nth {A} (l : list A) i d : 0 <= i < zlen l -> py_get l i = Some (nth (Z.to_nat i) l d).
Proof.
  intro H. rewrite py_get_in by exact H. apply nth_error_nth'. unfold zlen in H; lia.
Qed.

Lemma nth_error_set_nth {A} (l : list A) k v i :
  nth_error (set_nth l k v) i =
  if Nat.eqb i k then (if Nat.ltb k (length l) then Some v else None) else nth_error l i.
Proof.
  revert k i; induction l as [|x r IH]; intros k i.
  - cbn [set_nth length]. replace (k <? 0)%nat with false by (symmetry; apply Nat.ltb_ge; lia).
    destruct (Nat.eqb i k); destruct i; reflexivity.
  - destruct k, i; cbn [set_nth nth_error Nat.eqb length]; try reflexivity.
    rewrite IH. destruct (Nat.eqb i k); [|reflexivity].
    change (S k <? S (length r))%nat with (k <? length r)%nat. reflexivity.
Qed.

Lemma nth_set_nth {A} (l : list A) k v i d : (k < length l)%nat ->
  nth i (set_nth l k v) d = if Nat.eqb i k then v else nth i l d.
Proof.
  revert k i; induction l as [|x r IH]; intros k i H; [cbn in H; lia|].
  destruct k, i; cbn [set_nth nth Nat.eqb]; try reflexivity.
  apply IH. cbn in H; lia.
Qed.

Lemma set_nth_eq {A} (l : list A) k v : (k < length l)%nat ->
  set_nth l k v = firstn k l ++ v :: skipn (S k) l.
Proof.
  revert k; induction l as [|x r IH]; intros k H; [cbn in H; lia|].
  destruct k; cbn [set_nth firstn skipn app]; [reflexivity|].
  f_equal. apply IH. cbn in H; lia.
Qed.

Lemma nth_split {A} (l : list A) k d : (k < length l)%nat ->
  l = firstn k l ++ nth k l d :: skipn (S k) l.
Proof.
  revert k; induction l as [|x r IH]; intros k H; [cbn in H; lia|].
  destruct k; cbn [firstn skipn nth app]; [reflexivity|].
  f_equal. apply IH. cbn in H; lia.
Qed.

Lemma set_nth_same {A} (l : list A) k d : set_nth l k (nth k l d) = l \/ (length l <= k)%nat.
Proof.
  revert k; induction l as [|x r IH]; intro k; [right; cbn; lia|].
  destruct k; [left; reflexivity|].
  cbn [set_nth nth length]. destruct (IH k) as [E|E]; [left; now rewrite E|right; lia].
Qed.

Lemma zlen_set_nth {A} (l : list A) k v : zlen (set_nth l k v) = zlen l.
Proof. unfold zlen; now rewrite set_nth_length. Qed.

Lemma skipn_skipn {A} (l : list A) a b : skipn a (skipn b l) = skipn (a + b) l.
Proof.
  revert l; induction b as [|b IH]; intro l; [now rewrite Nat.add_0_r|].
  destruct l; [now rewrite !skipn_nil|].
  rewrite Nat.add_succ_r. cbn [skipn]. apply IH.
Qed.

Lemma nth_error_firstn {A} (l : list A) n i : (i < n)%nat -> nth_error (firstn n l) i = nth_error l i.
Proof.
  revert l i; induction n as [|n IH]; intros l i H; [lia|].
  destruct l; [reflexivity|]. destruct i; [reflexivity|]. cbn. apply IH; lia.
Qed.

Lemma nth_error_firstn_ge {A} (l : list A) n i : (n <= i)%nat -> nth_error (firstn n l) i = None.
Proof. intro H. apply nth_error_None. rewrite firstn_length. lia. Qed.

Lemma nth_error_skipn {A} (l : list A) n i : nth_error (skipn n l) i = nth_error l (n + i).
Proof.
  revert l; induction n as [|n IH]; intro l; [reflexivity|].
  destruct l; [now destruct i|]. cbn. apply IH.
Qed.

(* extensional equality of lists through nth_error *)
Lemma nth_error_ext {A} (a b : list A) : (forall i, nth_error a i = nth_error b i) -> a = b.
Proof.
  revert b; induction a as [|x a IH]; intros b H.
  - destruct b; [reflexivity|]. specialize (H 0%nat); discriminate.
  - destruct b as [|y b]; [specialize (H 0%nat); discriminate|].
    f_equal; [specialize (H 0%nat); cbn in H; congruence|].
    apply IH; intro i; exact (H (S i)).
Qed.

(* ------------------------------------------------------------------ slices *)
Definition pick {A} (l : list A) (idx : list Z) : list A :=
  flat_map (fun i => match nth_error l (Z.to_nat i) with Some x => [x] | None => [] end) idx.

Lemma py_slice_pick {A} (l : list A) a b st : py_slice l a b st = pick l (slice_idx a b st (zlen l)).
Proof. reflexivity. Qed.

Lemma skipn_cons_nth {A} (l : list A) m x : nth_error l m = Some x -> skipn m l = x :: skipn (S m) l.
Proof.
  revert m; induction l as [|y r IH]; intros m H; [destruct m; discriminate|].
  destruct m; cbn in *; [congruence|]. now apply IH.
Qed.

Lemma pick_seq {A} (l : list A) (s : nat) n k : (s + k + n <= length l)%nat ->
  pick l (map (fun i => Z.of_nat s + Z.of_nat i) (seq k n)) = firstn n (skipn (s + k) l).
Proof.
  revert k; induction n as [|n IH]; intros k H; [reflexivity|].
  cbn [seq map pick flat_map].
  replace (Z.to_nat (Z.of_nat s + Z.of_nat k)) with (s + k)%nat by lia.
  destruct (nth_error l (s + k)) as [x|] eqn:E.
  - rewrite (skipn_cons_nth _ _ _ E). cbn [firstn app]. f_equal.
    change (flat_map _ ?idx) with (pick l idx).
    rewrite IH by lia. now replace (s + S k)%nat with (S (s + k)) by lia.
  - apply nth_error_None in E. lia.
Qed.

Lemma pick_seq_Z {A} (l : list A) (a : Z) n : 0 <= a -> (Z.to_nat a + n <= length l)%nat ->
  pick l (map (fun i => a + Z.of_nat i) (seq 0 n)) = firstn n (skipn (Z.to_nat a) l).
Proof.
  intros Ha H.
  rewrite (map_ext _ (fun i => Z.of_nat (Z.to_nat a) + Z.of_nat i)) by (intro; lia).
  rewrite (pick_seq l (Z.to_nat a) n 0) by lia. now rewrite Nat.add_0_r.
Qed.

Lemma py_sub_in {A} (l : list A) a b : 0 <= a <= b -> b <= zlen l ->
  py_sub l a b = firstn (Z.to_nat (b - a)) (skipn (Z.to_nat a) l).
Proof.
  intros H1 H2. unfold py_sub. rewrite py_slice_pick. unfold slice_idx, slice_adjust.
  replace (1 <? 0) with false by reflexivity.
  replace (a <? 0) with false by lia. replace (b <? 0) with false by lia.
  rewrite Z.min_l by lia. rewrite Z.min_l by lia.
  rewrite py_range3_step1 by lia.
  apply pick_seq_Z; unfold zlen in *; lia.
Qed.

Lemma py_slice_tail {A} (l : list A) a : 0 <= a <= zlen l ->
  py_slice l (Some a) None 1 = skipn (Z.to_nat a) l.
Proof.
  intro H. rewrite py_slice_pick. unfold slice_idx, slice_adjust.
  replace (1 <? 0) with false by reflexivity.
  replace (a <? 0) with false by lia.
  rewrite Z.min_l by lia.
  rewrite py_range3_step1 by lia.
  rewrite pick_seq_Z by (unfold zlen in *; lia).
  apply firstn_all2. rewrite skipn_length. unfold zlen; lia.
Qed.

Lemma py_slice_assign_in {A} (l r : list A) a b : 0 <= a <= b -> b <= zlen l ->
  py_slice_assign l (Some a) (Some b) r = firstn (Z.to_nat a) l ++ r ++ skipn (Z.to_nat b) l.
Proof.
  intros H1 H2. unfold py_slice_assign, slice_adjust.
  replace (1 <? 0) with false by reflexivity.
  replace (a <? 0) with false by lia. replace (b <? 0) with false by lia.
  rewrite Z.min_l by lia. rewrite Z.min_l by lia. rewrite Z.max_r by lia. reflexivity.
Qed.

Lemma py_slice_assign_tail {A} (l r : list A) a : 0 <= a <= zlen l ->
  py_slice_assign l (Some a) None r = firstn (Z.to_nat a) l ++ r.
Proof.
  intro H. unfold py_slice_assign, slice_adjust.
  replace (1 <? 0) with false by reflexivity.
  replace (a <? 0) with false by lia.
  rewrite Z.min_l by lia. rewrite Z.max_r by lia.
  rewrite (skipn_all2 l) by (unfold zlen; lia). now rewrite app_nil_r.
Qed.

(* l[::-1] *)
Lemma pick_ext_in {A} (l l' : list A) idx :
  (forall i, In i idx -> nth_error l (Z.to_nat i) = nth_error l' (Z.to_nat i)) -> pick l idx = pick l' idx.
Proof.
  induction idx as [|i r IH]; intro H; [reflexivity|].
  cbn [pick flat_map]. rewrite (H i) by (left; reflexivity).
  f_equal. apply IH. intros j Hj; apply H; right; exact Hj.
Qed.

Lemma py_slice_rev {A} (l : list A) : py_slice l None None (-1) = rev l.
Proof.
  rewrite py_slice_pick. unfold slice_idx, slice_adjust.
  replace (-1 <? 0) with true by reflexivity.
  unfold py_range3, range_count.
  replace (0 <? -1) with false by reflexivity. replace (-1 <? 0) with true by reflexivity.
  induction l as [|x l IH] using rev_ind; [reflexivity|].
  rewrite rev_app_distr. cbn [rev app].
  rewrite zlen_app. change (zlen [x]) with 1.
  assert (Hz := zlen_nonneg l).
  replace (-1 <? zlen l + 1 - 1) with true by lia.
  replace (Z.to_nat ((zlen l + 1 - 1 - -1 - 1) / - -1 + 1)) with (S (length l))
    by (change (- -1) with 1; rewrite Z.div_1_r; unfold zlen; lia).
  cbn [seq map pick flat_map].
  replace (Z.to_nat (zlen l + 1 - 1 + Z.of_nat 0 * -1)) with (length l) by (unfold zlen; lia).
  rewrite nth_error_app2 by lia. rewrite Nat.sub_diag. cbn [nth_error app]. f_equal.
  rewrite <- IH. rewrite <- seq_shift, map_map.
  change (flat_map _ ?idx) with (pick (l ++ [x]) idx).
  destruct (-1 <? zlen l - 1) eqn:E.
  - replace (Z.to_nat ((zlen l - 1 - -1 - 1) / - -1 + 1)) with (length l)
      by (change (- -1) with 1; rewrite Z.div_1_r; unfold zlen; lia).
    erewrite map_ext with (g := fun i => zlen l - 1 + Z.of_nat i * -1) by (intro; lia).
    apply pick_ext_in. intros i Hi. apply in_map_iff in Hi. destruct Hi as [k [<- Hk]].
    apply in_seq in Hk. apply nth_error_app1. unfold zlen; lia.
  - assert (length l = 0)%nat by (unfold zlen in E; lia).
    destruct l; [reflexivity|discriminate].
Qed.

(* ------------------------------------------------------------------ permutations *)
(* solver for Permutation goals between ++-trees over the same atoms *)
Ltac perm_rot n :=
  lazymatch n with
  | O => fail "perm_rot: atom not found"
  | S ?m => first [ apply Permutation_app_head
                  | (etransitivity; [|apply Permutation_app_comm]); rewrite <- ?app_assoc; perm_rot m ]
  end.
Ltac perm_solve :=
  rewrite <- ?app_assoc;
  repeat first [ reflexivity | perm_rot 12%nat ].

Lemma perm_swap_tails {A} (p1 p2 : list A) a b :
  Permutation ((firstn a p1 ++ skipn b p2) ++ (firstn b p2 ++ skipn a p1)) (p1 ++ p2).
Proof.
  rewrite <- (firstn_skipn a p1) at 3. rewrite <- (firstn_skipn b p2) at 3.
  perm_solve.
Qed.

Lemma mid_split {A} (l : list A) a b : (a <= b)%nat ->
  l = firstn a l ++ firstn (b - a) (skipn a l) ++ skipn b l.
Proof.
  intro H. rewrite <- (firstn_skipn a l) at 1. f_equal.
  rewrite <- (firstn_skipn (b - a) (skipn a l)) at 1. f_equal.
  rewrite skipn_skipn. f_equal. lia.
Qed.

Lemma perm_swap_mid {A} (p1 p2 : list A) a b : (a <= b)%nat ->
  Permutation ((firstn a p1 ++ firstn (b - a) (skipn a p2) ++ skipn b p1) ++
               (firstn a p2 ++ firstn (b - a) (skipn a p1) ++ skipn b p2)) (p1 ++ p2).
Proof.
  intro H.
  rewrite (mid_split p1 a b H) at 4. rewrite (mid_split p2 a b H) at 4.
  perm_solve.
Qed.

(* swapping two positions of one list *)
Lemma perm_set_nth_swap {A} (l : list A) i j d : (i < length l)%nat -> (j < length l)%nat ->
  Permutation (set_nth (set_nth l i (nth j l d)) j (nth i l d)) l.
Proof.
  intros Hi Hj.
  destruct (Nat.eq_dec i j) as [->|Hne].
  - assert (E : set_nth (set_nth l j (nth j l d)) j (nth j l d) = l).
    { destruct (set_nth_same l j d) as [E|E]; [|lia]. now rewrite !E. }
    now rewrite E.
  - (* wlog by symmetric argument: prove via NoDup-free counting using nth_split *)
    assert (W : forall (l : list A) i j, (i < j)%nat -> (j < length l)%nat ->
              Permutation (set_nth (set_nth l i (nth j l d)) j (nth i l d)) l /\
              Permutation (set_nth (set_nth l j (nth i l d)) i (nth j l d)) l).
    { clear. intros l i j Hij Hj.
      assert (Hi : (i < length l)%nat) by lia.
      assert (E1 : set_nth (set_nth l i (nth j l d)) j (nth i l d) =
                   firstn i l ++ nth j l d :: firstn (j - S i) (skipn (S i) l) ++ nth i l d :: skipn (S j) l).
      { apply nth_error_ext. intro k.
        rewrite !nth_error_set_nth, !set_nth_length.
        replace (j <? length l)%nat with true by (symmetry; apply Nat.ltb_lt; lia).
        replace (i <? length l)%nat with true by (symmetry; apply Nat.ltb_lt; lia).
        destruct (Nat.eqb_spec k j) as [->|Hkj].
        - rewrite nth_error_app2 by (rewrite firstn_length; lia).
          rewrite firstn_length, Nat.min_l by lia.
          replace (j - i)%nat with (S (j - S i)) by lia. cbn [nth_error].
          rewrite nth_error_app2 by (rewrite firstn_length, skipn_length; lia).
          rewrite firstn_length, skipn_length, Nat.min_l by lia.
          now rewrite Nat.sub_diag.
        - destruct (Nat.eqb_spec k i) as [->|Hki].
          + rewrite nth_error_app2 by (rewrite firstn_length; lia).
            rewrite firstn_length, Nat.min_l by lia. now rewrite Nat.sub_diag.
          + destruct (Nat.lt_ge_cases k i) as [Hlt|Hge].
            * rewrite nth_error_app1 by (rewrite firstn_length; lia).
              now rewrite nth_error_firstn by lia.
            * rewrite nth_error_app2 by (rewrite firstn_length; lia).
              rewrite firstn_length, Nat.min_l by lia.
              destruct (k - i)%nat as [|m] eqn:Em; [lia|]. cbn [nth_error].
              destruct (Nat.lt_ge_cases k j) as [Hlt2|Hge2].
              -- rewrite nth_error_app1 by (rewrite firstn_length, skipn_length; lia).
                 rewrite nth_error_firstn by lia. rewrite nth_error_skipn. f_equal; lia.
              -- rewrite nth_error_app2 by (rewrite firstn_length, skipn_length; lia).
                 rewrite firstn_length, skipn_length, Nat.min_l by lia.
                 destruct (m - (j - S i))%nat as [|m'] eqn:Em'; [lia|]. cbn [nth_error].
                 rewrite nth_error_skipn. f_equal; lia. }
      assert (E2 : set_nth (set_nth l j (nth i l d)) i (nth j l d) =
                   set_nth (set_nth l i (nth j l d)) j (nth i l d)).
      { apply nth_error_ext. intro k. rewrite !nth_error_set_nth, !set_nth_length.
        destruct (Nat.eqb_spec k i), (Nat.eqb_spec k j); try reflexivity. lia. }
      rewrite E2, E1.
      assert (P : Permutation (firstn i l ++ nth j l d :: firstn (j - S i) (skipn (S i) l) ++ nth i l d :: skipn (S j) l) l).
      { apply Permutation_trans with (firstn i l ++ nth i l d :: skipn (S i) l);
          [|rewrite <- (nth_split l i d Hi); reflexivity].
        apply Permutation_app_head.
        assert (Hs : skipn (S i) l = firstn (j - S i) (skipn (S i) l) ++ nth j l d :: skipn (S j) l).
        { rewrite <- (firstn_skipn (j - S i) (skipn (S i) l)) at 1. f_equal.
          rewrite skipn_skipn. replace (j - S i + S i)%nat with j by lia.
          rewrite (skipn_cons_nth l j (nth j l d)); [reflexivity|].
          apply nth_error_nth'. lia. }
        rewrite Hs at 2.
        set (m := firstn (j - S i) (skipn (S i) l)). set (t := skipn (S j) l).
        change (nth j l d :: m ++ nth i l d :: t) with ([nth j l d] ++ m ++ [nth i l d] ++ t).
        change (nth i l d :: m ++ nth j l d :: t) with ([nth i l d] ++ m ++ [nth j l d] ++ t).
        perm_solve. }
      split; exact P. }
    destruct (Nat.lt_ge_cases i j) as [Hlt|Hge].
    + exact (proj1 (W l i j Hlt Hj)).
    + assert (Hlt : (j < i)%nat) by lia. exact (proj2 (W l j i Hlt Hi)).
Qed.

(* permutations of 0..n-1 *)
Definition iota (n : nat) : list Z := map Z.of_nat (seq 0 n).
Definition is_perm (l : list Z) : Prop := Permutation l (iota (length l)).

Lemma iota_length n : length (iota n) = n.
Proof. unfold iota; now rewrite map_length, seq_length. Qed.

Lemma in_iota n v : In v (iota n) <-> 0 <= v < Z.of_nat n.
Proof.
  unfold iota. rewrite in_map_iff. split.
  - intros [k [<- Hk]]. apply in_seq in Hk. lia.
  - intro H. exists (Z.to_nat v). split; [lia|]. apply in_seq. lia.
Qed.

Lemma NoDup_iota n : NoDup (iota n).
Proof.
  unfold iota. apply FinFun.Injective_map_NoDup; [|apply seq_NoDup].
  intros a b H; lia.
Qed.

Lemma is_perm_trans l l' : is_perm l -> Permutation l' l -> is_perm l'.
Proof.
  unfold is_perm; intros H P. rewrite (Permutation_length P). now rewrite P.
Qed.

Lemma is_perm_range l : is_perm l -> forall v, In v l <-> 0 <= v < zlen l.
Proof.
  intros H v. unfold zlen. rewrite <- in_iota. split; intro I.
  - exact (Permutation_in _ H I).
  - exact (Permutation_in _ (Permutation_sym H) I).
Qed.

Lemma is_perm_NoDup l : is_perm l -> NoDup l.
Proof. intro H. exact (Permutation_NoDup (Permutation_sym H) (NoDup_iota _)). Qed.

Lemma is_perm_intro l : NoDup l -> (forall v, In v l -> 0 <= v < zlen l) -> is_perm l.
Proof.
  intros ND R. unfold is_perm. apply NoDup_Permutation_bis; [exact ND| |].
  - rewrite iota_length; lia.
  - intros v I. apply in_iota. exact (R v I).
Qed.
