(* String utilities for C12 (deap/gp.py printing / parsing of GP trees):
   the separator class of PrimitiveTree.from_string, re.split on it, a lexer for the
   call-expression fragment, Python's repr of int (decimal) with its inverse, and
   recognisers for the constant literals and identifiers that occur in printed trees. *)
From Coq Require Import List ZArith Bool Lia String Ascii DecimalString DecimalZ Decimal.
Import ListNotations.
Local Open Scope string_scope.

(* ---------------------------------------------------------------- characters *)
Definition code (c : ascii) : nat := nat_of_ascii c.

(* the class  [ \t\n\r\f\v(),]  of  re.split("[ \t\n\r\f\v(),]", string)  *)
Definition is_space (c : ascii) : bool := (code c =? 32)%nat || ((9 <=? code c)%nat && (code c <=? 13)%nat).
Definition is_open (c : ascii) : bool := (code c =? 40)%nat.
Definition is_close (c : ascii) : bool := (code c =? 41)%nat.
Definition is_comma (c : ascii) : bool := (code c =? 44)%nat.
Definition is_sep (c : ascii) : bool := is_open c || is_close c || is_comma c || is_space c.

Definition is_digit (c : ascii) : bool := (48 <=? code c)%nat && (code c <=? 57)%nat.
Definition is_alpha_ (c : ascii) : bool :=
  ((65 <=? code c)%nat && (code c <=? 90)%nat) || ((97 <=? code c)%nat && (code c <=? 122)%nat) || (code c =? 95)%nat.

Fixpoint forall_chars (p : ascii -> bool) (s : string) : bool :=
  match s with EmptyString => true | String c r => p c && forall_chars p r end.

Definition nosep (s : string) : bool := forall_chars (fun c => negb (is_sep c)) s.
Definition nonempty (s : string) : bool := match s with EmptyString => false | _ => true end.

(* a token of the printed form: non-empty and free of separator characters (DESIGN Appendix B 8) *)
Definition atom_ok (s : string) : bool := nonempty s && nosep s.

Lemma forall_chars_app p a b : forall_chars p (a ++ b) = forall_chars p a && forall_chars p b.
Proof. induction a as [|c a IH]; cbn; [reflexivity|]. rewrite IH, andb_assoc. reflexivity. Qed.

Lemma forall_chars_impl (p q : ascii -> bool) s :
  (forall c, p c = true -> q c = true) -> forall_chars p s = true -> forall_chars q s = true.
Proof.
  intro H; induction s as [|c s IH]; cbn; [auto|]. rewrite !andb_true_iff. intros [A B]; auto.
Qed.

Lemma app_assoc_s (a b c : string) : (a ++ b) ++ c = a ++ (b ++ c).
Proof. induction a as [|x a IH]; cbn; [reflexivity|]. now rewrite IH. Qed.

Lemma app_nil_r_s (a : string) : a ++ "" = a.
Proof. induction a as [|x a IH]; cbn; [reflexivity|]. now rewrite IH. Qed.

(* ---------------------------------------------------------------- re.split *)
(* fields between separator characters, empty fields included: exactly re.split on a
   one-character class *)
Fixpoint split (s : string) : list string :=
  match s with
  | EmptyString => [EmptyString]
  | String c r =>
      if is_sep c then EmptyString :: split r
      else match split r with
           | f :: fs => String c f :: fs
           | [] => [String c EmptyString]
           end
  end.

(* the loop of from_string skips the empty fields *)
Definition tokenize (s : string) : list string := filter nonempty (split s).

(* ---------------------------------------------------------------- lexer *)
Inductive lexeme := LAtom (s : string) | LOpen | LClose | LComma.

Definition flush (a : string) (ls : list lexeme) : list lexeme :=
  if nonempty a then LAtom a :: ls else ls.

Fixpoint lex_aux (s : string) : string * list lexeme :=
  match s with
  | EmptyString => (EmptyString, [])
  | String c r =>
      let (a, ls) := lex_aux r in
      if is_open c then (EmptyString, LOpen :: flush a ls)
      else if is_close c then (EmptyString, LClose :: flush a ls)
      else if is_comma c then (EmptyString, LComma :: flush a ls)
      else if is_space c then (EmptyString, flush a ls)
      else (String c a, ls)
  end.

Definition lex (s : string) : list lexeme := let (a, ls) := lex_aux s in flush a ls.

Fixpoint atoms (ls : list lexeme) : list string :=
  match ls with
  | [] => []
  | LAtom a :: r => a :: atoms r
  | _ :: r => atoms r
  end.

Lemma atoms_app a b : atoms (a ++ b) = (atoms a ++ atoms b)%list.
Proof. induction a as [|x a IH]; cbn; [reflexivity|]. destruct x; cbn; now rewrite ?IH. Qed.

Lemma atoms_flush a ls : atoms (flush a ls) = (if nonempty a then a :: atoms ls else atoms ls).
Proof. unfold flush; destruct (nonempty a); reflexivity. Qed.

Lemma is_sep_cases c : is_sep c = false ->
  is_open c = false /\ is_close c = false /\ is_comma c = false /\ is_space c = false.
Proof. unfold is_sep. rewrite !orb_false_iff. tauto. Qed.

Lemma split_lex_aux s :
  exists h t ls, split s = h :: t /\ lex_aux s = (h, ls) /\ atoms ls = filter nonempty t.
Proof.
  induction s as [|c s (h & t & ls & Hs & Hl & Ha)]; cbn.
  - exists EmptyString, [], []. auto.
  - rewrite Hs, Hl. destruct (is_sep c) eqn:Es.
    + assert (atoms (flush h ls) = filter nonempty (h :: t)) as Hf.
      { rewrite atoms_flush. cbn. destruct (nonempty h); congruence. }
      unfold is_sep in Es.
      destruct (is_open c); [do 3 eexists; repeat split; eauto|].
      destruct (is_close c); [do 3 eexists; repeat split; eauto|].
      destruct (is_comma c); [do 3 eexists; repeat split; eauto|].
      destruct (is_space c); [do 3 eexists; repeat split; eauto|]. discriminate.
    + destruct (is_sep_cases _ Es) as (-> & -> & -> & ->).
      do 3 eexists; repeat split; eauto.
Qed.

(* the tokens from_string works on are the atoms of the lexer *)
Lemma tokenize_lex s : tokenize s = atoms (lex s).
Proof.
  destruct (split_lex_aux s) as (h & t & ls & Hs & Hl & Ha).
  unfold tokenize, lex. rewrite Hs, Hl, atoms_flush. cbn. destruct (nonempty h); congruence.
Qed.

Lemma lex_aux_nosep_app a b : nosep a = true ->
  lex_aux (a ++ b) = let (h, ls) := lex_aux b in (a ++ h, ls).
Proof.
  induction a as [|c a IH]; cbn; intro H.
  - destruct (lex_aux b); reflexivity.
  - apply andb_true_iff in H as [Hc Ha]. rewrite (IH Ha).
    destruct (lex_aux b) as [h ls]. apply negb_true_iff in Hc.
    destruct (is_sep_cases _ Hc) as (-> & -> & -> & ->). reflexivity.
Qed.

Definition starts_sep (b : string) : bool :=
  match b with EmptyString => true | String c _ => is_sep c end.

Lemma lex_atom_app a b : atom_ok a = true -> starts_sep b = true -> lex (a ++ b) = LAtom a :: lex b.
Proof.
  unfold atom_ok. rewrite andb_true_iff. intros [Hn Hs] Hb. unfold lex.
  rewrite (lex_aux_nosep_app _ _ Hs).
  destruct b as [|c b]; cbn.
  - rewrite app_nil_r_s. unfold flush. now rewrite Hn.
  - cbn in Hb. destruct (lex_aux b) as [h ls]. unfold is_sep in Hb.
    destruct (is_open c); [rewrite app_nil_r_s; unfold flush at 1 3; cbn; now rewrite Hn|].
    destruct (is_close c); [rewrite app_nil_r_s; unfold flush at 1 3; cbn; now rewrite Hn|].
    destruct (is_comma c); [rewrite app_nil_r_s; unfold flush at 1 3; cbn; now rewrite Hn|].
    destruct (is_space c); [rewrite app_nil_r_s; unfold flush at 1 3; cbn; now rewrite Hn|].
    discriminate.
Qed.

Lemma lex_open b : lex (String "(" b) = LOpen :: lex b.
Proof. unfold lex; cbn. destruct (lex_aux b); reflexivity. Qed.
Lemma lex_close b : lex (String ")" b) = LClose :: lex b.
Proof. unfold lex; cbn. destruct (lex_aux b); reflexivity. Qed.
Lemma lex_comma b : lex (String "," b) = LComma :: lex b.
Proof. unfold lex; cbn. destruct (lex_aux b); reflexivity. Qed.
Lemma lex_space b : lex (String " " b) = lex b.
Proof. unfold lex; cbn. destruct (lex_aux b); reflexivity. Qed.

(* ---------------------------------------------------------------- Python repr(int) *)
Definition repr_Z (z : Z) : string := NilZero.string_of_int (Z.to_int z).

(* strict inverse: only the canonical decimal form is accepted *)
Definition parse_Z (s : string) : option Z :=
  match NilZero.int_of_string s with
  | Some d => let z := Z.of_int d in if String.eqb (repr_Z z) s then Some z else None
  | None => None
  end.

Lemma to_int_not_nil z : Z.to_int z <> Pos Nil /\ Z.to_int z <> Neg Nil.
Proof.
  destruct z as [|p|p]; cbn; split; try discriminate; intro H; injection H as H;
    (apply (f_equal Pos.of_uint) in H; rewrite DecimalPos.Unsigned.of_to in H; discriminate).
Qed.

Lemma parse_repr_Z z : parse_Z (repr_Z z) = Some z.
Proof.
  unfold parse_Z, repr_Z. destruct (to_int_not_nil z) as [A B].
  rewrite (NilZero.isi _ A B), DecimalZ.of_to, String.eqb_refl. reflexivity.
Qed.

Lemma parse_Z_sound s z : parse_Z s = Some z -> s = repr_Z z.
Proof.
  unfold parse_Z. destruct (NilZero.int_of_string s); [|discriminate].
  destruct (String.eqb _ s) eqn:E; [|discriminate]. apply String.eqb_eq in E. congruence.
Qed.

Lemma repr_Z_inj a b : repr_Z a = repr_Z b -> a = b.
Proof. intro H. apply (f_equal parse_Z) in H. rewrite !parse_repr_Z in H. congruence. Qed.

Definition is_digit_or_minus (c : ascii) : bool := is_digit c || (code c =? 45)%nat.

Lemma uint_chars d : forall_chars is_digit (NilEmpty.string_of_uint d) = true.
Proof. induction d; cbn; auto. Qed.

Lemma repr_Z_chars z : forall_chars is_digit_or_minus (repr_Z z) = true.
Proof.
  assert (forall d, forall_chars is_digit_or_minus (NilZero.string_of_uint d) = true) as H.
  { intro d. unfold NilZero.string_of_uint.
    destruct d; try reflexivity;
      (eapply forall_chars_impl; [|apply uint_chars]; intros c Hc; unfold is_digit_or_minus; now rewrite Hc). }
  unfold repr_Z. destruct (Z.to_int z); cbn; [apply H|]. apply H.
Qed.

Lemma repr_Z_nonempty z : nonempty (repr_Z z) = true.
Proof.
  unfold repr_Z. destruct (Z.to_int z) as [d|d]; cbn; [|reflexivity].
  unfold NilZero.string_of_uint. destruct d; reflexivity.
Qed.

Lemma sep_code c : is_sep c = true ->
  (code c = 40 \/ code c = 41 \/ code c = 44 \/ code c = 32 \/ (9 <= code c <= 13))%nat.
Proof.
  unfold is_sep, is_open, is_close, is_comma, is_space.
  rewrite !orb_true_iff, !andb_true_iff, !Nat.leb_le, !Nat.eqb_eq. lia.
Qed.

Lemma digit_or_minus_nosep c : is_digit_or_minus c = true -> negb (is_sep c) = true.
Proof.
  intro H. apply negb_true_iff. destruct (is_sep c) eqn:E; [|reflexivity]. exfalso.
  apply sep_code in E. unfold is_digit_or_minus, is_digit in H.
  rewrite !orb_true_iff, !andb_true_iff, !Nat.leb_le, !Nat.eqb_eq in H. lia.
Qed.

Lemma repr_Z_atom_ok z : atom_ok (repr_Z z) = true.
Proof.
  unfold atom_ok. rewrite repr_Z_nonempty. cbn. unfold nosep.
  eapply forall_chars_impl; [|apply repr_Z_chars]. apply digit_or_minus_nosep.
Qed.

(* ---------------------------------------------------------------- other literals *)
(* repr(float) of a finite float in the forms CPython produces:
   -?D+.D+ | -?D+(.D+)?e[+-]D+   (the model treats the float itself as opaque) *)
Fixpoint float_fsm (st : nat) (s : string) : bool :=
  match s with
  | EmptyString => (st =? 3)%nat || (st =? 6)%nat
  | String c r =>
      let d := is_digit c in
      match st with
      | 0 => if (code c =? 45)%nat then float_fsm 7 r else if d then float_fsm 1 r else false
      | 7 => if d then float_fsm 1 r else false                         (* after '-' *)
      | 1 => if d then float_fsm 1 r else if (code c =? 46)%nat then float_fsm 2 r
             else if (code c =? 101)%nat then float_fsm 4 r else false
      | 2 => if d then float_fsm 3 r else false                         (* after '.' *)
      | 3 => if d then float_fsm 3 r else if (code c =? 101)%nat then float_fsm 4 r else false
      | 4 => if d then float_fsm 6 r
             else if (code c =? 43)%nat || (code c =? 45)%nat then float_fsm 5 r else false
      | 5 => if d then float_fsm 6 r else false
      | 6 => if d then float_fsm 6 r else false
      | _ => false
      end
  end.
Definition is_float_lit (s : string) : bool := float_fsm 0 s.

(* repr(str) for strings of plain printable characters: 'xyz' *)
Definition plain_char (c : ascii) : bool :=
  (33 <=? code c)%nat && (code c <=? 126)%nat && negb (code c =? 39)%nat && negb (code c =? 92)%nat.
Fixpoint str_body (s : string) : bool :=
  match s with
  | EmptyString => false
  | String c EmptyString => (code c =? 39)%nat
  | String c r => plain_char c && str_body r
  end.
Definition is_str_lit (s : string) : bool :=
  match s with String c r => (code c =? 39)%nat && str_body r | _ => false end.

(* ---------------------------------------------------------------- identifiers *)
Definition keywords : list string :=
  ["False"; "None"; "True"; "and"; "as"; "assert"; "async"; "await"; "break"; "class"; "continue";
   "def"; "del"; "elif"; "else"; "except"; "finally"; "for"; "from"; "global"; "if"; "import"; "in";
   "is"; "lambda"; "nonlocal"; "not"; "or"; "pass"; "raise"; "return"; "try"; "while"; "with"; "yield"].

Definition ident_start (s : string) : bool :=
  match s with String c _ => is_alpha_ c | EmptyString => false end.

Definition is_ident (s : string) : bool :=
  ident_start s && forall_chars (fun c => is_alpha_ c || is_digit c) s
  && negb (existsb (String.eqb s) keywords).

Lemma alnum_nosep c : is_alpha_ c || is_digit c = true -> negb (is_sep c) = true.
Proof.
  intro H. apply negb_true_iff. destruct (is_sep c) eqn:E; [|reflexivity]. exfalso.
  apply sep_code in E. unfold is_alpha_, is_digit in H.
  rewrite !orb_true_iff, !andb_true_iff, !Nat.leb_le, !Nat.eqb_eq in H. lia.
Qed.

Lemma ident_atom_ok s : is_ident s = true -> atom_ok s = true.
Proof.
  unfold is_ident, atom_ok. rewrite !andb_true_iff. intros [[Hs Hc] _]. split.
  - destruct s; [discriminate|reflexivity].
  - unfold nosep. eapply forall_chars_impl; [|exact Hc]. apply alnum_nosep.
Qed.
