(* C13 — elementary functions on primitive floats, used ONLY inside tolerance checks of the
   correspondence (regime N3 of DESIGN 2.4).  Nothing is proved about their accuracy; the
   harness compares their results against CPython/numpy within rtol 1e-9, so an inaccurate
   approximation can only cause a (false) disagreement, never hide one.

   exp : halve the argument until |x| <= 1/2, degree-20 Taylor polynomial (Horner), square back.
   ln  : x = m * 2^e with m in [1/sqrt 2, sqrt 2);  ln m = 2 atanh ((m-1)/(m+1)) by its series. *)
From Coq Require Import PrimFloat Uint63 ZArith List.
Import ListNotations.
Local Open Scope float_scope.

Definition fnat (n : nat) : float := of_uint63 (Uint63.of_Z (Z.of_nat n)).
Definition fZ (z : Z) : float :=
  match z with
  | Z0 => 0
  | Zpos _ => of_uint63 (Uint63.of_Z z)
  | Zneg p => - of_uint63 (Uint63.of_Z (Zpos p))
  end.

Definition fle (a b : float) : bool := PrimFloat.leb a b.
Definition flt (a b : float) : bool := PrimFloat.ltb a b.
Definition fmax (a b : float) : float := if PrimFloat.ltb a b then b else a.

Fixpoint halve (fuel : nat) (x : float) (k : nat) : float * nat :=
  if PrimFloat.leb (abs x) 0.5 then (x, k)
  else match fuel with
       | O => (x, k)
       | S f => halve f (x / 2) (S k)
       end.

(* 1 + x/1 (1 + x/2 (1 + ... (1 + x/n))) *)
Fixpoint exp_horner (n : nat) (i : nat) (x : float) : float :=
  match n with
  | O => 1
  | S n' => 1 + x / fnat i * exp_horner n' (S i) x
  end.

Fixpoint sq_iter (k : nat) (y : float) : float :=
  match k with O => y | S k' => sq_iter k' (y * y) end.

Definition fexp (x : float) : float :=
  let '(r, k) := halve 1100 x 0 in
  sq_iter k (exp_horner 20 1 r).

Definition ln2 : float := 0x1.62e42fefa39efp-1.
Definition sqrt_half : float := 0x1.6a09e667f3bcdp-1.

(* sum_{k<n} z2^k / (2k+1), Horner from the top *)
Fixpoint atanh_horner (n : nat) (k : nat) (z2 : float) : float :=
  match n with
  | O => 0
  | S n' => 1 / fnat (2 * k + 1) + z2 * atanh_horner n' (S k) z2
  end.

Definition fln (x : float) : float :=
  if PrimFloat.ltb 0 x then
    let '(m, e) := frshiftexp x in
    let ef := of_uint63 e - 2101 in
    let '(m, ef) := if PrimFloat.ltb m sqrt_half then (m * 2, ef - 1) else (m, ef) in
    let z := (m - 1) / (m + 1) in
    ef * ln2 + 2 * z * atanh_horner 16 0 (z * z)
  else nan.

(* x ^ n for a natural exponent (square and multiply is unnecessary: n <= ~100) *)
Fixpoint fpow (x : float) (n : nat) : float :=
  match n with O => 1 | S n' => x * fpow x n' end.

(* int(x) for 0 <= x < 4000 : largest k with k <= x *)
Fixpoint ftrunc_from (fuel : nat) (k : nat) (x : float) : nat :=
  match fuel with
  | O => k
  | S f => if PrimFloat.leb (fnat (S k)) x then ftrunc_from f (S k) x else k
  end.
Definition ftrunc (x : float) : nat := ftrunc_from 4000 0 x.

(* tolerance comparison: |a - b| <= atol + rtol * scale ; false on NaN *)
Definition rtol : float := 0x1.12e0be826d695p-30.   (* 1e-9 *)
Definition atol : float := 0x1.19799812dea11p-40.   (* 1e-12 *)
Definition close_scaled (scale a b : float) : bool :=
  PrimFloat.leb (abs (a - b)) (atol + rtol * scale).
Definition close (a b : float) : bool := close_scaled (fmax (abs a) (abs b)) a b.

Definition vmaxabs (v : list float) : float := fold_left (fun m x => fmax m (abs x)) v 0.
Definition mmaxabs (m : list (list float)) : float := fold_left (fun a r => fmax a (vmaxabs r)) m 0.

Fixpoint vclose_s (s : float) (a b : list float) : bool :=
  match a, b with
  | [], [] => true
  | x :: a', y :: b' => close_scaled s x y && vclose_s s a' b'
  | _, _ => false
  end.
Definition vclose (a b : list float) : bool := vclose_s (fmax (vmaxabs a) (vmaxabs b)) a b.

Fixpoint mclose_s (s : float) (a b : list (list float)) : bool :=
  match a, b with
  | [], [] => true
  | x :: a', y :: b' => vclose_s s x y && mclose_s s a' b'
  | _, _ => false
  end.
Definition mclose (a b : list (list float)) : bool := mclose_s (fmax (mmaxabs a) (mmaxabs b)) a b.
