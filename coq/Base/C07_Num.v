(* C07 — numeric operations the SPEA2 / NSGA-III models are generic in, list helpers,
   and the exact instance (rationals extended with +infinity).
   The bit-exact float instance lives in Model/C07_FloatInst.v (only the correspondence uses it,
   so that the property theorems do not mention primitive floats). *)
From Coq Require Import List ZArith QArith Bool Lia.
Import ListNotations.

(* ------------------------------------------------------------------ *)
(* numeric operations: exactly the Python float operators the code uses *)
Record numops (T : Type) := mkops {
  n_ofZ : Z -> T;              (* int -> float conversion, float(z) *)
  n_add : T -> T -> T;
  n_sub : T -> T -> T;
  n_mul : T -> T -> T;
  n_div : T -> T -> T;
  n_ltb : T -> T -> bool;      (* a < b ;  a > b is  n_ltb b a *)
  n_eqb : T -> T -> bool;      (* a == b *)
  n_inf : T                    (* float("inf") *)
}.
Arguments n_ofZ {T} _ _. Arguments n_add {T} _ _ _. Arguments n_sub {T} _ _ _.
Arguments n_mul {T} _ _ _. Arguments n_div {T} _ _ _. Arguments n_ltb {T} _ _ _.
Arguments n_eqb {T} _ _ _. Arguments n_inf {T} _.

(* ------------------------------------------------------------------ *)
(* tabulate: [f 0; ...; f (n-1)] *)
Definition tab {A} (n : nat) (f : nat -> A) : list A := map f (seq 0 n).

Lemma tab_length {A} n (f : nat -> A) : length (tab n f) = n.
Proof. unfold tab. now rewrite map_length, seq_length. Qed.

Lemma nth_tab {A} n (f : nat -> A) i d : (i < n)%nat -> nth i (tab n f) d = f i.
Proof.
  intro H. unfold tab.
  rewrite (nth_indep _ d (f 0%nat)) by (rewrite map_length, seq_length; exact H).
  change (f 0%nat) with ((fun x => f x) 0%nat).
  rewrite map_nth, seq_nth by exact H. reflexivity.
Qed.

Lemma tab_ext {A} n (f g : nat -> A) : (forall i, (i < n)%nat -> f i = g i) -> tab n f = tab n g.
Proof.
  intro H. unfold tab. apply map_ext_in. intros a Ha. apply in_seq in Ha. apply H. lia.
Qed.

Lemma in_tab {A} n (f : nat -> A) x : In x (tab n f) <-> exists i, (i < n)%nat /\ x = f i.
Proof.
  unfold tab. rewrite in_map_iff. split.
  - intros [i [E Hi]]. apply in_seq in Hi. exists i. split; [lia|auto].
  - intros [i [Hi E]]. exists i. split; [auto|apply in_seq; lia].
Qed.

Lemma NoDup_app_disj {A} (l1 l2 : list A) :
  NoDup l1 -> NoDup l2 -> (forall x, In x l1 -> ~ In x l2) -> NoDup (l1 ++ l2).
Proof.
  induction l1 as [|a l1 IH]; intros N1 N2 D; cbn; auto.
  inversion N1; subst. constructor.
  - rewrite in_app_iff. intros [H|H]; [contradiction|]. apply (D a); [now left|exact H].
  - apply IH; auto. intros x Hx. apply D. now right.
Qed.

Lemma NoDup_app_inv {A} (l1 l2 : list A) :
  NoDup (l1 ++ l2) -> NoDup l1 /\ NoDup l2 /\ (forall x, In x l1 -> ~ In x l2).
Proof.
  induction l1 as [|a l1 IH]; cbn; intro H.
  - split; [constructor|]. split; [exact H|intros x []].
  - inversion H as [|? ? Ha Hr]; subst. destruct (IH Hr) as [N1 [N2 D]]. split; [|split; [exact N2|]].
    + constructor; [|exact N1]. intro Hin. apply Ha. apply in_or_app. now left.
    + intros x [<-|Hx]; [|now apply D]. intro Hin. apply Ha. apply in_or_app. now right.
Qed.

Local Open Scope nat_scope.
Lemma exists_unselected (m : nat) sel : NoDup sel -> (forall i, In i sel -> i < m) -> length sel < m ->
  exists i, i < m /\ ~ In i sel.
Proof.
  intros ND Hlt Hlen.
  destruct (existsb (fun i => negb (existsb (Nat.eqb i) sel)) (seq 0 m)) eqn:E.
  - apply existsb_exists in E. destruct E as [i [Hi Hn]]. apply in_seq in Hi. exists i. split; [lia|].
    intro Hin. apply negb_true_iff in Hn.
    assert (existsb (Nat.eqb i) sel = true) by (apply existsb_exists; exists i; split; [exact Hin|apply Nat.eqb_refl]).
    congruence.
  - exfalso. assert (Hall : incl (seq 0 m) sel).
    { intros i Hi. destruct (in_dec Nat.eq_dec i sel) as [H|H]; [exact H|]. exfalso.
      assert (X : existsb (fun i => negb (existsb (Nat.eqb i) sel)) (seq 0 m) = true).
      { apply existsb_exists. exists i. split; [exact Hi|]. apply negb_true_iff.
        destruct (existsb (Nat.eqb i) sel) eqn:E2; [|reflexivity].
        apply existsb_exists in E2. destruct E2 as [j [Hj Ej]]. apply Nat.eqb_eq in Ej. subst j. contradiction. }
      congruence. }
    apply NoDup_incl_length in Hall; [|apply seq_NoDup]. rewrite seq_length in Hall. lia.
Qed.

Lemma firstn_In {A} (x : A) : forall n l, In x (firstn n l) -> In x l.
Proof. induction n as [|n IH]; intros [|y l]; cbn; try tauto. intros [H|H]; [now left|right; auto]. Qed.

Lemma firstn_NoDup {A} : forall n (l : list A), NoDup l -> NoDup (firstn n l).
Proof.
  induction n as [|n IH]; intros [|x l] H; cbn; try constructor.
  - inversion H; subst. intro Hin. apply firstn_In in Hin. contradiction.
  - inversion H; subst. apply IH. assumption.
Qed.

Local Close Scope nat_scope.

(* remove the element at position i (del l[i]); out of range leaves the list unchanged *)
Fixpoint remove_nth {A} (i : nat) (l : list A) : list A :=
  match l, i with
  | [], _ => []
  | _ :: r, O => r
  | x :: r, S i' => x :: remove_nth i' r
  end.

(* insert x at position i (clamped to the end) *)
Fixpoint insert_at {A} (i : nat) (x : A) (l : list A) : list A :=
  match i, l with
  | O, _ => x :: l
  | S i', [] => [x]
  | S i', y :: r => y :: insert_at i' x r
  end.

(* ------------------------------------------------------------------ *)
(* exact instance: Q extended by +infinity *)
Inductive qx := QF (q : Q) | QInf.

Definition qx_lift2 (f : Q -> Q -> Q) (a b : qx) : qx :=
  match a, b with QF x, QF y => QF (Qred (f x y)) | _, _ => QInf end.

Definition qx_ltb (a b : qx) : bool :=
  match a, b with
  | QF x, QF y => match Qcompare x y with Lt => true | _ => false end
  | QF _, QInf => true
  | QInf, _ => false
  end.

Definition qx_eqb (a b : qx) : bool :=
  match a, b with
  | QF x, QF y => Qeq_bool x y
  | QInf, QInf => true
  | _, _ => false
  end.

Definition qx_ops : numops qx :=
  mkops qx (fun z => QF (inject_Z z)) (qx_lift2 Qplus) (qx_lift2 Qminus) (qx_lift2 Qmult)
        (qx_lift2 Qdiv) qx_ltb qx_eqb QInf.

(* plain Q operations (no infinity needed): used by the association / reference-point models *)
Definition q_ltb (x y : Q) : bool := match Qcompare x y with Lt => true | _ => false end.
Definition q_leb (x y : Q) : bool := match Qcompare x y with Gt => false | _ => true end.

Lemma q_ltb_lt x y : q_ltb x y = true <-> (x < y)%Q.
Proof. unfold q_ltb. rewrite Qlt_alt. destruct (x ?= y)%Q; split; congruence. Qed.

Lemma q_leb_le x y : q_leb x y = true <-> (x <= y)%Q.
Proof.
  unfold q_leb. rewrite Qle_alt. destruct (x ?= y)%Q; split; try congruence; intros; discriminate.
Qed.
