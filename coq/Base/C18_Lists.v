(* List lemmas for C18: removing one position, removing a set of positions by popping them in
   descending order, bounds of slice.indices + range, descending sort. *)
From Coq Require Import List ZArith Bool Lia ZifyBool Sorting.Sorted Permutation.
From DV Require Import Base.PyList.
Import ListNotations.
Local Open Scope Z_scope.

(* ---- remove_nth (the definition lives here so that the model and the proofs share it) ---- *)
Fixpoint remove_nth {A} (k : nat) (l : list A) : list A :=
  match l, k with
  | [], _ => []
  | _ :: r, O => r
  | x :: r, S k' => x :: remove_nth k' r
  end.

Lemma remove_nth_length {A} (l : list A) k :
  (k < length l)%nat -> length (remove_nth k l) = (length l - 1)%nat.
Proof.
  revert k; induction l as [|x r IH]; intros [|k] H; cbn in *; try lia.
  rewrite IH by lia. destruct r; cbn in *; lia.
Qed.

Lemma remove_nth_map {A B} (f : A -> B) (l : list A) k :
  map f (remove_nth k l) = remove_nth k (map f l).
Proof. revert k; induction l as [|x r IH]; intros [|k]; cbn; auto. now rewrite IH. Qed.

Lemma remove_nth_In {A} (l : list A) k x : In x (remove_nth k l) -> In x l.
Proof.
  revert k; induction l as [|y r IH]; intros [|k]; cbn; auto.
  intros [->|H]; auto. right; eapply IH; eauto.
Qed.

Lemma remove_nth_app_last {A} (l : list A) k x :
  (k < length l)%nat -> remove_nth k (l ++ [x]) = remove_nth k l ++ [x].
Proof.
  revert k; induction l as [|y r IH]; intros [|k] H; cbn in *; try lia; auto.
  now rewrite IH by lia.
Qed.

Lemma remove_nth_firstn_skipn {A} (l : list A) k :
  remove_nth k l = firstn k l ++ skipn (S k) l.
Proof. revert k; induction l as [|y r IH]; intros [|k]; cbn; auto. now rewrite IH. Qed.

(* membership after removal, for duplicate-free lists *)
Lemma remove_nth_In_iff {A} (l : list A) k d x :
  NoDup l -> (k < length l)%nat ->
  (In x (remove_nth k l) <-> In x l /\ x <> nth k l d).
Proof.
  revert k; induction l as [|y r IH]; intros k ND Hk; cbn in *; [lia|].
  inversion ND as [|? ? Hy ND']; subst.
  destruct k as [|k]; cbn.
  - split.
    + intro H; split; auto. intros ->; auto.
    + intros [[->|H] Hne]; [congruence|auto].
  - rewrite (IH k ND') by lia. split.
    + intros [->|[H Hne]]; split; auto.
      intros E. apply Hy. rewrite E. apply nth_In. lia.
    + intros [[->|H] Hne]; auto.
Qed.

Lemma remove_nth_NoDup {A} (l : list A) k : NoDup l -> NoDup (remove_nth k l).
Proof.
  revert k; induction l as [|y r IH]; intros [|k] ND; cbn; auto; inversion ND; subst; auto.
  constructor; auto. intro H; apply remove_nth_In in H; auto.
Qed.

Lemma firstn_remove_nth_lt {A} (l : list A) j b :
  (j < b)%nat -> firstn (b - 1) (remove_nth j l) = remove_nth j (firstn b l).
Proof.
  revert j b; induction l as [|y r IH]; intros j b H.
  - destruct j, b; cbn; auto; destruct (b - 0)%nat; auto.
  - destruct b as [|b]; [lia|]. destruct j as [|j]; cbn.
    + now rewrite Nat.sub_0_r.
    + rewrite Nat.sub_0_r. destruct b as [|b]; [lia|]. cbn.
      f_equal. specialize (IH j (S b)). cbn in IH. rewrite Nat.sub_0_r in IH. apply IH. lia.
Qed.

Lemma firstn_remove_nth_ge {A} (l : list A) j b :
  (b <= j)%nat -> firstn b (remove_nth j l) = firstn b l.
Proof.
  revert j b; induction l as [|y r IH]; intros j b H.
  - destruct j, b; cbn; auto.
  - destruct b as [|b]; cbn; auto. destruct j as [|j]; [lia|]. cbn. f_equal. apply IH. lia.
Qed.

Lemma nth_firstn_lt {A} (l : list A) j b d : (j < b)%nat -> nth j (firstn b l) d = nth j l d.
Proof.
  revert j b; induction l as [|y r IH]; intros j b H; destruct b; try lia.
  - destruct j; reflexivity.
  - destruct j; cbn; auto. apply IH. lia.
Qed.

(* strictly increasing lists of naturals *)
Definition incr (l : list nat) : Prop := StronglySorted lt l.

Lemma incr_NoDup l : incr l -> NoDup l.
Proof.
  induction 1 as [|x r S IH H]; constructor; auto.
  intro Hin. rewrite Forall_forall in H. specialize (H _ Hin). lia.
Qed.

Lemma incr_remove_nth l k : incr l -> incr (remove_nth k l).
Proof.
  unfold incr. intro H; revert k; induction H as [|x r S IH F]; intros [|k]; cbn; auto; try constructor.
  apply IH. rewrite Forall_forall in *. intros y Hy. apply F. eapply remove_nth_In; eauto.
Qed.

Lemma incr_app_last l x : incr l -> (forall y, In y l -> (y < x)%nat) -> incr (l ++ [x]).
Proof.
  induction 1 as [|y r S IH F]; intro H; cbn.
  - repeat constructor.
  - constructor.
    + apply IH. intros; apply H; now right.
    + rewrite Forall_forall in *. intros z Hz. apply in_app_or in Hz as [Hz|[<-|[]]]; auto.
      apply H; now left.
Qed.

(* ---- Python index ---- *)
Definition norm_index (i n : Z) : Z := if i <? 0 then i + n else i.

Lemma py_get_some {A} (l : list A) i x :
  py_get l i = Some x ->
  - zlen l <= i < zlen l /\ 0 <= norm_index i (zlen l) < zlen l /\
  nth_error l (Z.to_nat (norm_index i (zlen l))) = Some x.
Proof.
  unfold py_get, norm_index. destruct (i <? 0) eqn:E; intro H.
  - destruct ((i + zlen l <? 0) || (zlen l <=? i + zlen l)) eqn:E2; [discriminate|].
    apply orb_false_iff in E2 as [E3 E4]. repeat split; auto; lia.
  - destruct ((i <? 0) || (zlen l <=? i)) eqn:E2; [discriminate|].
    apply orb_false_iff in E2 as [E3 E4]. repeat split; auto; lia.
Qed.

Lemma py_get_none {A} (l : list A) i : py_get l i = None <-> ~ (- zlen l <= i < zlen l).
Proof.
  unfold py_get. split.
  - intro H. destruct (i <? 0) eqn:E.
    + destruct ((i + zlen l <? 0) || (zlen l <=? i + zlen l)) eqn:E2.
      * apply orb_true_iff in E2 as [E3|E3]; lia.
      * exfalso. apply orb_false_iff in E2 as [E3 E4].
        assert (Z.to_nat (i + zlen l) < length l)%nat by (unfold zlen in *; lia).
        apply nth_error_None in H. lia.
    + destruct ((i <? 0) || (zlen l <=? i)) eqn:E2.
      * apply orb_true_iff in E2 as [E3|E3]; lia.
      * exfalso. apply orb_false_iff in E2 as [E3 E4].
        assert (Z.to_nat i < length l)%nat by (unfold zlen in *; lia).
        apply nth_error_None in H. lia.
  - intro H. destruct (i <? 0) eqn:E.
    + destruct ((i + zlen l <? 0) || (zlen l <=? i + zlen l)) eqn:E2; auto.
      apply orb_false_iff in E2 as [E3 E4]. lia.
    + destruct ((i <? 0) || (zlen l <=? i)) eqn:E2; auto.
      apply orb_false_iff in E2 as [E3 E4]. lia.
Qed.

Lemma py_get_in_range {A} (l : list A) i :
  - zlen l <= i < zlen l -> exists x, py_get l i = Some x.
Proof.
  intro H. destruct (py_get l i) eqn:E; eauto. apply py_get_none in E. tauto.
Qed.

Lemma py_get_map {A B} (f : A -> B) (l : list A) i :
  py_get (map f l) i = option_map f (py_get l i).
Proof.
  unfold py_get, zlen. rewrite map_length.
  destruct (_ || _); auto. now rewrite nth_error_map.
Qed.

(* ---- sorted(xs, reverse=True) ---- *)
Fixpoint insert_desc (x : Z) (l : list Z) : list Z :=
  match l with
  | [] => [x]
  | y :: r => if y <? x then x :: l else y :: insert_desc x r
  end.
Definition sort_desc (l : list Z) : list Z := fold_right insert_desc [] l.

Lemma insert_desc_perm x l : Permutation (x :: l) (insert_desc x l).
Proof.
  induction l as [|y r IH]; cbn; auto. destruct (y <? x); auto.
  eapply perm_trans; [apply perm_swap|]. now constructor.
Qed.

Lemma sort_desc_perm l : Permutation l (sort_desc l).
Proof.
  induction l as [|x r IH]; cbn; auto.
  eapply perm_trans; [|apply insert_desc_perm]. now constructor.
Qed.

Lemma insert_desc_sorted x l :
  StronglySorted Z.ge l -> StronglySorted Z.ge (insert_desc x l).
Proof.
  induction 1 as [|y r S IH F]; cbn; [repeat constructor|].
  destruct (y <? x) eqn:E.
  - constructor; [constructor; auto|]. constructor; [lia|].
    rewrite Forall_forall in *. intros z Hz. specialize (F _ Hz). lia.
  - constructor; auto. rewrite Forall_forall in *. intros z Hz.
    eapply Permutation_in in Hz; [|apply Permutation_sym, insert_desc_perm].
    destruct Hz as [<-|Hz]; [lia|auto].
Qed.

Lemma sort_desc_sorted l : StronglySorted Z.ge (sort_desc l).
Proof. induction l; cbn; [constructor|now apply insert_desc_sorted]. Qed.

(* strictly descending when duplicate-free *)
Lemma sorted_ge_nodup_gt l : StronglySorted Z.ge l -> NoDup l -> StronglySorted Z.gt l.
Proof.
  induction 1 as [|y r S IH F]; intro ND; constructor; inversion ND; subst; auto.
  rewrite Forall_forall in *. intros z Hz. specialize (F _ Hz).
  assert (z <> y) by (intros ->; auto). lia.
Qed.

Lemma sort_desc_strict l : NoDup l -> StronglySorted Z.gt (sort_desc l).
Proof.
  intro ND. apply sorted_ge_nodup_gt; [apply sort_desc_sorted|].
  eapply Permutation_NoDup; [apply sort_desc_perm|auto].
Qed.

Lemma sort_desc_In l x : In x (sort_desc l) <-> In x l.
Proof.
  split; intro H.
  - eapply Permutation_in; [apply Permutation_sym, sort_desc_perm|exact H].
  - eapply Permutation_in; [apply sort_desc_perm|exact H].
Qed.

(* ---- range / slice.indices ---- *)
Lemma py_range3_In s e st i :
  In i (py_range3 s e st) <-> exists k, 0 <= k < range_count s e st /\ i = s + k * st.
Proof.
  unfold py_range3. rewrite in_map_iff. split.
  - intros (k & <- & Hk). apply in_seq in Hk. exists (Z.of_nat k). split; auto. lia.
  - intros (k & Hk & ->). exists (Z.to_nat k). split; [rewrite Z2Nat.id by lia; reflexivity|]. apply in_seq. lia.
Qed.

Lemma py_range3_NoDup s e st : st <> 0 -> NoDup (py_range3 s e st).
Proof.
  intro H. unfold py_range3. apply FinFun.Injective_map_NoDup; [|apply seq_NoDup].
  intros a b E. assert (Z.of_nat a * st = Z.of_nat b * st) by lia.
  apply Z.mul_cancel_r in H0; auto. lia.
Qed.

Lemma range_bounds_pos s e st k :
  0 < st -> 0 <= k < range_count s e st -> s <= s + k * st < e.
Proof.
  intros Hst Hk. unfold range_count in Hk.
  destruct (0 <? st) eqn:E; [|lia].
  destruct (s <? e) eqn:E2; [|lia].
  assert (k <= (e - s - 1) / st) by lia.
  assert (st * ((e - s - 1) / st) <= e - s - 1) by (apply Z.mul_div_le; lia).
  nia.
Qed.

Lemma range_bounds_neg s e st k :
  st < 0 -> 0 <= k < range_count s e st -> e < s + k * st <= s.
Proof.
  intros Hst Hk. unfold range_count in Hk.
  destruct (0 <? st) eqn:E; [lia|].
  destruct (st <? 0) eqn:E1; [|lia].
  destruct (e <? s) eqn:E2; [|lia].
  assert (k <= (s - e - 1) / (- st)) by lia.
  assert ((- st) * ((s - e - 1) / (- st)) <= s - e - 1) by (apply Z.mul_div_le; lia).
  nia.
Qed.

Lemma slice_idx_bounds a b st n i :
  st <> 0 -> 0 <= n -> In i (slice_idx a b st n) -> 0 <= i < n.
Proof.
  intros Hst Hn. unfold slice_idx.
  destruct (slice_adjust a b st n) as [s e] eqn:E. intro H.
  apply py_range3_In in H as (k & Hk & ->).
  unfold slice_adjust in E. injection E as <- <-.
  destruct (st <? 0) eqn:Es.
  - (* negative step: -1 <= stop, start <= n-1 *)
    assert (Hneg : st < 0) by lia.
    pose proof (range_bounds_neg _ _ _ _ Hneg Hk) as Hb.
    destruct a as [va|], b as [vb|]; cbn in Hb;
      repeat match type of Hb with context [if ?c then _ else _] => destruct c eqn:? end; lia.
  - assert (Hpos : 0 < st) by lia.
    pose proof (range_bounds_pos _ _ _ _ Hpos Hk) as Hb.
    destruct a as [va|], b as [vb|]; cbn in Hb;
      repeat match type of Hb with context [if ?c then _ else _] => destruct c eqn:? end; lia.
Qed.

Lemma slice_idx_NoDup a b st n : st <> 0 -> NoDup (slice_idx a b st n).
Proof.
  intro H. unfold slice_idx. destruct (slice_adjust a b st n). now apply py_range3_NoDup.
Qed.

(* ---- deleting a set of positions ---- *)
Definition zmem (i : Z) (ps : list Z) : bool := existsb (Z.eqb i) ps.

Fixpoint drop_pos {A} (ps : list Z) (i : Z) (l : list A) : list A :=
  match l with
  | [] => []
  | x :: r => if zmem i ps then drop_pos ps (i + 1) r else x :: drop_pos ps (i + 1) r
  end.
(* the elements of l whose position is not in ps, in order: what `del l[slice]` leaves *)
Definition del_positions {A} (ps : list Z) (l : list A) : list A := drop_pos ps 0 l.

Lemma zmem_In i ps : zmem i ps = true <-> In i ps.
Proof.
  unfold zmem. rewrite existsb_exists. split.
  - intros (x & H & E). apply Z.eqb_eq in E. now subst.
  - intro H. exists i. split; auto. apply Z.eqb_refl.
Qed.

Lemma drop_pos_ext {A} ps qs i (l : list A) :
  (forall j, i <= j -> (In j ps <-> In j qs)) -> drop_pos ps i l = drop_pos qs i l.
Proof.
  revert i; induction l as [|x r IH]; intros i H; cbn; auto.
  assert (zmem i ps = zmem i qs) as ->.
  { destruct (zmem i ps) eqn:E1, (zmem i qs) eqn:E2; auto.
    - apply zmem_In in E1. apply H in E1; [|lia]. apply zmem_In in E1. congruence.
    - apply zmem_In in E2. apply H in E2; [|lia]. apply zmem_In in E2. congruence. }
  rewrite (IH (i + 1)); auto. intros j Hj. apply H. lia.
Qed.

Lemma drop_pos_none {A} ps i (l : list A) :
  (forall p, In p ps -> p < i) -> drop_pos ps i l = l.
Proof.
  revert i; induction l as [|x r IH]; intros i H; cbn; auto.
  destruct (zmem i ps) eqn:E.
  - apply zmem_In in E. apply H in E. lia.
  - f_equal. apply IH. intros p Hp. apply H in Hp. lia.
Qed.

(* removing position p first, then the smaller positions ps, is removing p :: ps *)
Lemma drop_pos_remove_nth {A} ps i k (l : list A) :
  (forall p, In p ps -> p < i + Z.of_nat k) -> (k < length l)%nat ->
  drop_pos ps i (remove_nth k l) = drop_pos ((i + Z.of_nat k) :: ps) i l.
Proof.
  revert i k; induction l as [|x r IH]; intros i k H Hk; cbn in Hk; [lia|].
  destruct k as [|k].
  - cbn [remove_nth drop_pos]. replace (i + Z.of_nat 0) with i by lia.
    assert (zmem i (i :: ps) = true) as -> by (apply zmem_In; now left).
    rewrite drop_pos_none; [|intros p Hp; apply H in Hp; lia].
    symmetry. apply drop_pos_none. intros p [<-|Hp]; [lia|]. apply H in Hp. lia.
  - cbn [remove_nth drop_pos].
    assert (zmem i (i + Z.of_nat (S k) :: ps) = zmem i ps) as ->.
    { cbn. replace (i =? i + Z.pos (Pos.of_succ_nat k)) with false; auto. symmetry. apply Z.eqb_neq. lia. }
    rewrite (IH (i + 1) k); [|intros p Hp; apply H in Hp; lia|lia].
    replace (i + 1 + Z.of_nat k) with (i + Z.of_nat (S k)) by lia. reflexivity.
Qed.

(* popping the positions in strictly descending order removes exactly those positions *)
Lemma pop_desc_del_positions {A} (ps : list Z) (l : list A) :
  StronglySorted Z.gt ps -> (forall p, In p ps -> 0 <= p < zlen l) ->
  fold_left (fun acc p => remove_nth (Z.to_nat p) acc) ps l = del_positions ps l.
Proof.
  intro S; revert l; induction S as [|p ps S IH F]; intros l H; cbn.
  - unfold del_positions. symmetry. apply drop_pos_none. intros p [].
  - rewrite Forall_forall in F.
    assert (Hp : 0 <= p < zlen l) by (apply H; now left).
    rewrite IH.
    + unfold del_positions. rewrite (drop_pos_remove_nth ps 0 (Z.to_nat p)).
      * f_equal. f_equal. lia.
      * intros q Hq. specialize (F _ Hq). lia.
      * unfold zlen in Hp. lia.
    + intros q Hq. specialize (F _ Hq). assert (0 <= q < zlen l) by (apply H; now right).
      unfold zlen in *. rewrite remove_nth_length by lia. lia.
Qed.

Lemma drop_pos_map {A B} (f : A -> B) ps i (l : list A) :
  map f (drop_pos ps i l) = drop_pos ps i (map f l).
Proof. revert i; induction l as [|x r IH]; intro i; cbn; auto. destruct (zmem i ps); cbn; now rewrite IH. Qed.

Lemma del_positions_map {A B} (f : A -> B) ps (l : list A) :
  map f (del_positions ps l) = del_positions ps (map f l).
Proof. apply drop_pos_map. Qed.

(* characterisation by positions: x survives iff it sits at a position outside ps *)
Lemma drop_pos_spec {A} ps i (l : list A) x :
  In x (drop_pos ps i l) <-> exists k, nth_error l k = Some x /\ ~ In (i + Z.of_nat k) ps.
Proof.
  revert i; induction l as [|y r IH]; intro i; cbn.
  - split; [tauto|]. intros ([|k] & H & _); discriminate.
  - destruct (zmem i ps) eqn:E.
    + rewrite IH. split.
      * intros (k & H & N). exists (S k). split; auto. now replace (i + Z.of_nat (S k)) with (i + 1 + Z.of_nat k) by lia.
      * intros ([|k] & H & N).
        -- exfalso. apply N. apply zmem_In. now replace (i + Z.of_nat 0) with i by lia.
        -- exists k. split; auto. now replace (i + 1 + Z.of_nat k) with (i + Z.of_nat (S k)) by lia.
    + cbn. rewrite IH. split.
      * intros [->|(k & H & N)].
        -- exists O. split; auto. replace (i + Z.of_nat 0) with i by lia. intro H. apply zmem_In in H. congruence.
        -- exists (S k). split; auto. now replace (i + Z.of_nat (S k)) with (i + 1 + Z.of_nat k) by lia.
      * intros ([|k] & H & N).
        -- left. cbn in H. congruence.
        -- right. exists k. split; auto. now replace (i + 1 + Z.of_nat k) with (i + Z.of_nat (S k)) by lia.
Qed.

Lemma NoDup_app_last {A} (l : list A) x : NoDup l -> ~ In x l -> NoDup (l ++ [x]).
Proof.
  intros ND N. eapply Permutation_NoDup; [apply Permutation_cons_append|]. now constructor.
Qed.
