(* Correspondence plumbing: evaluate a boolean check over a list of cases and
   report the indices of the failing ones.  Used by every generated cases_*.v. *)
From Coq Require Import List NArith Bool.
Import ListNotations.

Fixpoint failing_from {A : Type} (chk : A -> bool) (l : list A) (i : N) : list N :=
  match l with
  | [] => []
  | x :: r => if chk x then failing_from chk r (N.succ i)
              else i :: failing_from chk r (N.succ i)
  end.

Definition failing {A : Type} (chk : A -> bool) (l : list A) : list N :=
  failing_from chk l 0%N.

Lemma failing_from_nil {A} (chk : A -> bool) l i :
  failing_from chk l i = [] <-> forallb chk l = true.
Proof.
  revert i; induction l as [|x r IH]; intro i; cbn; [tauto|].
  destruct (chk x); cbn; [apply IH|]. split; discriminate.
Qed.

(* list equality helpers used by the runners *)
Fixpoint list_eqb {A} (eqb : A -> A -> bool) (a b : list A) : bool :=
  match a, b with
  | [], [] => true
  | x :: a', y :: b' => eqb x y && list_eqb eqb a' b'
  | _, _ => false
  end.

Definition option_eqb {A} (eqb : A -> A -> bool) (a b : option A) : bool :=
  match a, b with
  | None, None => true
  | Some x, Some y => eqb x y
  | _, _ => false
  end.

Definition pair_eqb {A B} (ea : A -> A -> bool) (eb : B -> B -> bool)
  (a b : A * B) : bool := ea (fst a) (fst b) && eb (snd a) (snd b).

Lemma list_eqb_eq {A} (eqb : A -> A -> bool)
  (H : forall x y, eqb x y = true <-> x = y) a b :
  list_eqb eqb a b = true <-> a = b.
Proof.
  revert b; induction a as [|x a IH]; destruct b as [|y b]; cbn; try (split; [discriminate|congruence]).
  - tauto.
  - rewrite andb_true_iff, H, IH. split; [intros [-> ->]; reflexivity|intro E; inversion E; auto].
Qed.
