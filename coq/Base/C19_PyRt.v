(* Run-time library for the translation of deap/tools/constraint.py (property C19).

   The two penalty decorators are translated (by harness/c19_py2coq.py) and hand-transcribed
   (Model/C19_Penalty.v) into a small exception + call-log monad over this universe:

     val      what a Python name of the wrappers can hold besides an individual:
              a number, a tuple/list of numbers (a collections.abc.Sequence), or an
              itertools.repeat(number) object (an infinite iterator, not a Sequence)
     iter     what iter(...) / zip(...) give: a finite stream or a constant infinite one
     event    one invocation of a user callback, with its arguments (the call log)
     M        (outcome, log): a result or a Python exception, and the callbacks invoked so far

   Numbers are rationals: the harness feeds dyadic floats for which Python's arithmetic is exact,
   and int/float are not distinguished (1 == 1.0).

   Each user callback is a Coq function of its arguments; since every callback is invoked at
   most once per wrapper call this loses nothing (no assumption of determinism is used). *)
From Coq Require Import List QArith Bool Arith.
Import ListNotations.

Inductive exn := IndexError | TypeError | NonTermination | Stuck.
(* NonTermination: tuple(...) of an infinite iterator.  Stuck: a value outside this universe
   (repeat of a non-number) -- both are proved unreachable from the modelled inputs. *)

Inductive val := VNum (q : Q) | VTup (l : list Q) | VRep (q : Q).

Inductive iter (A : Type) := Fin (l : list A) | Rep (a : A).
Arguments Fin {A} l.
Arguments Rep {A} a.

Inductive outcome (A : Type) := Ok (a : A) | Exc (e : exn).
Arguments Ok {A} a.
Arguments Exc {A} e.

(* zip of two iterators: stops with the shorter one; two infinite ones stay infinite *)
Fixpoint zip_fin {A B} (a : list A) (b : list B) : list (A * B) :=
  match a, b with
  | x :: a', y :: b' => (x, y) :: zip_fin a' b'
  | _, _ => []
  end.

Definition izip {A B} (a : iter A) (b : iter B) : iter (A * B) :=
  match a, b with
  | Fin la, Fin lb => Fin (zip_fin la lb)
  | Fin la, Rep y => Fin (map (fun x => (x, y)) la)
  | Rep x, Fin lb => Fin (map (fun y => (x, y)) lb)
  | Rep x, Rep y => Rep (x, y)
  end.

(* isinstance(v, Sequence): tuples and lists are, numbers and repeat objects are not *)
Definition is_sequence (v : val) : bool :=
  match v with VTup _ => true | _ => false end.

(* comparisons on numbers *)
Definition py_ge (a b : Q) : bool := Qle_bool b a.
Definition py_le (a b : Q) : bool := Qle_bool a b.
Definition py_gt (a b : Q) : bool := negb (Qle_bool a b).
Definition py_lt (a b : Q) : bool := negb (Qle_bool b a).

Definition is_some {A} (o : option A) : bool :=
  match o with Some _ => true | None => false end.

Section Rt.
  Variables I Args : Type.

  (* callbacks the decorators invoke: feasibility(ind), func(ind, *args, **kwargs),
     feasible(ind), distance(ind) [DeltaPenalty], distance(valid_ind, ind) [ClosestValidPenalty] *)
  Inductive event :=
  | EFeas (i : I)
  | EEval (i : I) (a : Args)
  | EClosest (i : I)
  | EDist1 (i : I)
  | EDist2 (f i : I).

  Definition M (A : Type) : Type := (outcome A * list event)%type.

  Definition ret {A} (a : A) : M A := (Ok a, []).
  Definition raise {A} (e : exn) : M A := (Exc e, []).
  Definition bind {A B} (m : M A) (k : A -> M B) : M B :=
    match m with
    | (Ok a, l) => let (r, l') := k a in (r, l ++ l')
    | (Exc e, l) => (Exc e, l)
    end.

  (* instance state after __init__ *)
  Record delta_self := mk_delta_self {
    d_fbty_fct : I -> bool;
    d_delta : val;
    d_dist_fct : option (I -> val) }.

  Record closest_self := mk_closest_self {
    c_fbty_fct : I -> bool;
    c_fbl_fct : I -> I;
    c_alpha : Q;
    c_dist_fct : option (I -> I -> val) }.

  (* calls of user callbacks: result + one log entry *)
  Definition call_feasibility (f : I -> bool) (i : I) : M bool := (Ok (f i), [EFeas i]).
  Definition call_func (f : I -> Args -> val) (i : I) (a : Args) : M val := (Ok (f i a), [EEval i a]).
  Definition call_closest (f : I -> I) (i : I) : M I := (Ok (f i), [EClosest i]).
  (* calling None raises TypeError ('NoneType' object is not callable) *)
  Definition call_dist1 (o : option (I -> val)) (i : I) : M val :=
    match o with Some f => (Ok (f i), [EDist1 i]) | None => raise TypeError end.
  Definition call_dist2 (o : option (I -> I -> val)) (f i : I) : M val :=
    match o with Some g => (Ok (g f i), [EDist2 f i]) | None => raise TypeError end.

  (* iter(v): numbers are not iterable *)
  Definition py_iter (v : val) : M (iter Q) :=
    match v with
    | VNum _ => raise TypeError
    | VTup l => ret (Fin l)
    | VRep q => ret (Rep q)
    end.

  (* len(v): only sequences have a length (len(repeat(x)) is a TypeError) *)
  Definition py_len (v : val) : M nat :=
    match v with
    | VTup l => ret (length l)
    | _ => raise TypeError
    end.

  (* itertools.repeat(v) for a number v *)
  Definition py_repeat (v : val) : M val :=
    match v with
    | VNum q => ret (VRep q)
    | _ => raise Stuck
    end.

  (* zip(a, b, c): iter() of each argument left to right, then triples ((x, y), z) *)
  Definition py_zip3 (a b c : val) : M (iter (Q * Q * Q)) :=
    bind (py_iter a) (fun x =>
    bind (py_iter b) (fun y =>
    bind (py_iter c) (fun z =>
    ret (izip (izip x y) z)))).

  (* tuple(f x for x in it) *)
  Definition py_tuple_gen {A} (f : A -> Q) (it : iter A) : M val :=
    match it with
    | Fin l => ret (VTup (map f l))
    | Rep _ => raise NonTermination
    end.

  (* the evaluator invocations in a log: (individual, extra arguments) *)
  Fixpoint calls (l : list event) : list (I * Args) :=
    match l with
    | [] => []
    | EEval i a :: r => (i, a) :: calls r
    | _ :: r => calls r
    end.
End Rt.

Arguments EFeas {I Args} i.
Arguments EEval {I Args} i a.
Arguments EClosest {I Args} i.
Arguments EDist1 {I Args} i.
Arguments EDist2 {I Args} f i.
Arguments ret {I Args A} a.
Arguments raise {I Args A} e.
Arguments bind {I Args A B} m k.
Arguments mk_delta_self {I} _ _ _.
Arguments d_fbty_fct {I} _.
Arguments d_delta {I} _.
Arguments d_dist_fct {I} _.
Arguments mk_closest_self {I} _ _ _ _.
Arguments c_fbty_fct {I} _.
Arguments c_fbl_fct {I} _.
Arguments c_alpha {I} _.
Arguments c_dist_fct {I} _.
Arguments call_feasibility {I Args} f i.
Arguments call_func {I Args} f i a.
Arguments call_closest {I Args} f i.
Arguments call_dist1 {I Args} o i.
Arguments call_dist2 {I Args} o f i.
Arguments py_iter {I Args} v.
Arguments py_len {I Args} v.
Arguments py_repeat {I Args} v.
Arguments py_zip3 {I Args} a b c.
Arguments py_tuple_gen {I Args A} f it.
Arguments calls {I Args} l.

Declare Scope py_scope.
Delimit Scope py_scope with py.
Notation "x <- e ;; k" := (bind e (fun x => k))
  (at level 61, e at next level, right associativity) : py_scope.
