(* Small list facts missing from the 8.16 standard library, used by the C05 proofs. *)
From Coq Require Import List Bool Lia Permutation Arith.
Import ListNotations.

Lemma nodup_app_inv {A} (l1 l2 : list A) :
  NoDup (l1 ++ l2) -> NoDup l1 /\ NoDup l2 /\ (forall x, In x l1 -> In x l2 -> False).
Proof.
  induction l1 as [|a l1 IH]; cbn; intro H.
  - split; [constructor|split; [assumption|intros ? []]].
  - inversion H as [|? ? Na Nd]; subst. destruct (IH Nd) as [H1 [H2 H3]].
    split; [constructor; [intro I; apply Na, in_or_app; left; exact I|exact H1]|].
    split; [exact H2|]. intros x [->|I1] I2; [apply Na, in_or_app; right; exact I2|eapply H3; eassumption].
Qed.

Lemma nodup_app_intro {A} (l1 l2 : list A) :
  NoDup l1 -> NoDup l2 -> (forall x, In x l1 -> In x l2 -> False) -> NoDup (l1 ++ l2).
Proof.
  induction l1 as [|a l1 IH]; cbn; intros H1 H2 H3; [assumption|].
  inversion H1; subst. constructor.
  - intro I. apply in_app_or in I. destruct I as [I|I]; [contradiction|]. apply (H3 a); [left; reflexivity|exact I].
  - apply IH; [assumption|assumption|]. intros x I1 I2. apply (H3 x); [right; exact I1|exact I2].
Qed.

Lemma nodup_firstn {A} n (l : list A) : NoDup l -> NoDup (firstn n l).
Proof.
  intro H. rewrite <- (firstn_skipn n l) in H. apply nodup_app_inv in H. tauto.
Qed.

Lemma in_firstn {A} n (l : list A) x : In x (firstn n l) -> In x l.
Proof. intro H. rewrite <- (firstn_skipn n l). apply in_or_app. left; exact H. Qed.

Lemma in_skipn {A} n (l : list A) x : In x (skipn n l) -> In x l.
Proof. intro H. rewrite <- (firstn_skipn n l). apply in_or_app. right; exact H. Qed.

Lemma Forall2_snoc_inv {A B} (R : A -> B -> Prop) l x L :
  Forall2 R (l ++ [x]) L -> exists L1 y, L = L1 ++ [y] /\ Forall2 R l L1 /\ R x y.
Proof.
  intro H. apply Forall2_app_inv_l in H. destruct H as [L1 [L2 [H1 [H2 E]]]].
  inversion H2 as [|? y ? ? Rxy H2']; subst. inversion H2'; subst.
  exists L1, y. auto.
Qed.

Lemma Forall2_length {A B} (R : A -> B -> Prop) l L : Forall2 R l L -> length l = length L.
Proof. induction 1; cbn; congruence. Qed.

Lemma firstn_S_snoc {A} n (l : list A) d : n < length l -> firstn (S n) l = firstn n l ++ [nth n l d].
Proof.
  revert l; induction n as [|n IH]; intros [|a l] L; cbn in *; try lia; [reflexivity|].
  f_equal. apply IH. lia.
Qed.

Lemma Forall2_perm_concat {A} (l L : list (list A)) :
  Forall2 (@Permutation A) l L -> Permutation (concat l) (concat L).
Proof. induction 1; cbn; [constructor|apply Permutation_app; assumption]. Qed.

Lemma concat_snoc {A} (l : list (list A)) x : concat (l ++ [x]) = concat l ++ x.
Proof. rewrite concat_app. cbn. rewrite app_nil_r. reflexivity. Qed.

Lemma combine_fst {A B} (a : list A) (b : list B) : length a = length b -> map fst (combine a b) = a.
Proof. revert b; induction a as [|x a IH]; intros [|y b] L; cbn in *; try lia; [reflexivity|]. f_equal. apply IH. lia. Qed.

Lemma combine_inj_key {A B} (f : A -> nat) (a : list A) : forall (b : list B) x d x' d',
  NoDup (map f a) -> In (x, d) (combine a b) -> In (x', d') (combine a b) -> f x = f x' -> (x, d) = (x', d').
Proof.
  induction a as [|y a IH]; intros [|e b] x d x' d' ND I I' E; cbn in *; try contradiction.
  inversion ND as [|? ? Ny ND']; subst.
  destruct I as [I|I], I' as [I'|I'].
  - congruence.
  - inversion I; subst. exfalso. apply Ny. rewrite E. apply in_map. eapply in_combine_l; eassumption.
  - inversion I'; subst. exfalso. apply Ny. rewrite <- E. apply in_map. eapply in_combine_l; eassumption.
  - eapply IH; eassumption.
Qed.

(* ---- set_nth / nth ---- *)
From DV Require Import Base.PyList.

Lemma nth_set_nth_eq {A} (l : list A) k v z : k < length l -> nth k (set_nth l k v) z = v.
Proof. revert k; induction l as [|a l IH]; intros [|k] L; cbn in *; try lia; [reflexivity|]. apply IH. lia. Qed.

Lemma nth_set_nth_neq {A} (l : list A) k j v z : j <> k -> nth j (set_nth l k v) z = nth j l z.
Proof.
  revert k j; induction l as [|a l IH]; intros [|k] [|j] N; cbn; try reflexivity; try congruence.
  apply IH. congruence.
Qed.

Lemma last_app_cons {A} (l : list A) a r d : last (l ++ a :: r) d = last (a :: r) d.
Proof.
  induction l as [|b l IH]; [reflexivity|]. cbn [app]. rewrite <- IH.
  destruct (l ++ a :: r) eqn:E; [destruct l; discriminate|reflexivity].
Qed.

Lemma last_cons_in {A} (a : list A) x d : In (last (x :: a) d) (x :: a).
Proof.
  revert x; induction a as [|y a IH]; intro x; [left; reflexivity|].
  right. change (last (x :: y :: a) d) with (last (y :: a) d). apply IH.
Qed.

Lemma combine_snd {A B} (a : list A) (b : list B) : length a = length b -> map snd (combine a b) = b.
Proof. revert b; induction a as [|x a IH]; intros [|y b] L; cbn in *; try lia; [reflexivity|]. f_equal. apply IH. lia. Qed.
