(* Stable sort by key, as Python's list.sort(key=...) / sorted(key=...): elements are compared
   only through `lt (key a) (key b)` (CPython uses only `<`); elements with keys that are not
   ordered by `lt` keep their original relative order.  For a strict weak order the result of
   any stable sort is unique, so insertion sort is a faithful model of timsort's *result*.
   sorted(..., reverse=True) is implemented by CPython as reverse; stable sort; reverse. *)
From Coq Require Import List Bool Lia Permutation.
Import ListNotations.

Section Sort.
  Context {A K : Type} (lt : K -> K -> bool) (key : A -> K).

  Fixpoint insert_st (x : A) (l : list A) : list A :=
    match l with
    | [] => [x]
    | y :: r => if lt (key y) (key x) then y :: insert_st x r else x :: y :: r
    end.

  Definition sort_st (l : list A) : list A := fold_right insert_st [] l.

  (* sorted(l, key=key, reverse=True) *)
  Definition sort_st_rev (l : list A) : list A := rev (sort_st (rev l)).

  Lemma insert_st_perm x l : Permutation (x :: l) (insert_st x l).
  Proof.
    induction l as [|y r IH]; cbn; [apply Permutation_refl|].
    destruct (lt (key y) (key x)); [|apply Permutation_refl].
    eapply perm_trans; [apply perm_swap|]. apply perm_skip, IH.
  Qed.

  Lemma sort_st_perm l : Permutation l (sort_st l).
  Proof.
    induction l as [|x r IH]; cbn; [constructor|].
    eapply perm_trans; [apply perm_skip, IH|apply insert_st_perm].
  Qed.

  Lemma sort_st_rev_perm l : Permutation l (sort_st_rev l).
  Proof.
    unfold sort_st_rev. eapply perm_trans; [apply Permutation_rev|].
    eapply perm_trans; [apply sort_st_perm|apply Permutation_rev].
  Qed.

  Lemma sort_st_length l : length (sort_st l) = length l.
  Proof. symmetry; apply Permutation_length, sort_st_perm. Qed.

  Lemma sort_st_in x l : In x (sort_st l) <-> In x l.
  Proof.
    split; intro H; [eapply Permutation_in; [apply Permutation_sym, sort_st_perm|exact H]
                    |eapply Permutation_in; [apply sort_st_perm|exact H]].
  Qed.

  (* ---- sortedness, for keys in a domain P on which lt is a strict weak order ---- *)
  Variable P : K -> Prop.
  Hypothesis lt_asym : forall a b, P a -> P b -> lt a b = true -> lt b a = false.
  (* negative transitivity: "not less" is transitive *)
  Hypothesis lt_ntrans : forall a b c, P a -> P b -> P c ->
    lt b a = false -> lt c b = false -> lt c a = false.

  Inductive sorted_asc : list A -> Prop :=
  | sa_nil : sorted_asc []
  | sa_cons x l : Forall (fun y => lt (key y) (key x) = false) l -> sorted_asc l -> sorted_asc (x :: l).

  Lemma insert_st_forall (Q : A -> Prop) x l : Q x -> Forall Q l -> Forall Q (insert_st x l).
  Proof.
    intros Hx Hl. eapply Permutation_Forall; [apply insert_st_perm|]. constructor; assumption.
  Qed.

  Lemma insert_st_sorted x l :
    P (key x) -> Forall (fun y => P (key y)) l -> sorted_asc l -> sorted_asc (insert_st x l).
  Proof.
    intros Px Pl S. induction S as [|y r Hy S IH]; cbn.
    - constructor; constructor.
    - inversion Pl as [|? ? Py Pr]; subst.
      destruct (lt (key y) (key x)) eqn:E.
      + constructor; [|apply IH; assumption].
        apply insert_st_forall; [|assumption].
        apply lt_asym; assumption.
      + constructor; [|constructor; assumption].
        constructor; [assumption|].
        rewrite Forall_forall in *. intros z Hz.
        apply (lt_ntrans (key x) (key y) (key z)); auto.
  Qed.

  Lemma sort_st_sorted l : Forall (fun y => P (key y)) l -> sorted_asc (sort_st l).
  Proof.
    induction l as [|x r IH]; intro F; cbn; [constructor|].
    inversion F; subst. apply insert_st_sorted; auto.
    eapply Permutation_Forall; [apply sort_st_perm|assumption].
  Qed.

  Lemma sorted_asc_app l1 l2 :
    sorted_asc (l1 ++ l2) ->
    forall a b, In a l1 -> In b l2 -> lt (key b) (key a) = false.
  Proof.
    induction l1 as [|x r IH]; cbn; intros S a b Ha Hb; [contradiction|].
    inversion S as [|? ? F S']; subst. destruct Ha as [->|Ha].
    - rewrite Forall_forall in F. apply F. apply in_or_app; right; assumption.
    - apply IH; assumption.
  Qed.

  (* descending result of reverse=True: nothing kept in a prefix is less than anything after it *)
  Lemma sort_st_rev_cut l n :
    Forall (fun y => P (key y)) l ->
    forall a b, In a (firstn n (sort_st_rev l)) -> In b (skipn n (sort_st_rev l)) ->
                lt (key a) (key b) = false.
  Proof.
    intros F a b Ha Hb. unfold sort_st_rev in *.
    set (s := sort_st (rev l)) in *.
    assert (S : sorted_asc s).
    { apply sort_st_sorted. eapply Permutation_Forall; [apply Permutation_rev|exact F]. }
    assert (E : s = rev (skipn n (rev s)) ++ rev (firstn n (rev s))).
    { rewrite <- rev_app_distr, firstn_skipn, rev_involutive. reflexivity. }
    rewrite E in S. apply (sorted_asc_app _ _ S b a); apply -> in_rev; assumption.
  Qed.
End Sort.
