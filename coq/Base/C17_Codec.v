(* Token codecs with round-trip lemmas, used by the C17 checkpoint model (save = serialise a state
   record to a list of integer tokens, restore = parse).  Self-delimiting encodings: a decoder consumes
   exactly the tokens its encoder produced and hands back the rest. *)
From Coq Require Import List ZArith Bool Lia.
Import ListNotations.
Local Open Scope Z_scope.

Definition dec (A : Type) := list Z -> option (A * list Z).

Definition codec_ok {A} (e : A -> list Z) (d : dec A) : Prop :=
  forall x rest, d (e x ++ rest) = Some (x, rest).

(* ---- atoms ---- *)
Definition enc_Z (z : Z) : list Z := [z].
Definition dec_Z : dec Z := fun t => match t with z :: r => Some (z, r) | [] => None end.

Lemma codec_Z : codec_ok enc_Z dec_Z.
Proof. intros x rest; reflexivity. Qed.

Definition enc_bool (b : bool) : list Z := [if b then 1 else 0].
Definition dec_bool : dec bool := fun t =>
  match t with
  | z :: r => if z =? 0 then Some (false, r) else if z =? 1 then Some (true, r) else None
  | [] => None
  end.

Lemma codec_bool : codec_ok enc_bool dec_bool.
Proof. intros [|] rest; reflexivity. Qed.

(* ---- sequencing ---- *)
Definition enc_pair {A B} (ea : A -> list Z) (eb : B -> list Z) (p : A * B) : list Z :=
  ea (fst p) ++ eb (snd p).
Definition dec_pair {A B} (da : dec A) (db : dec B) : dec (A * B) := fun t =>
  match da t with
  | None => None
  | Some (a, t1) => match db t1 with None => None | Some (b, t2) => Some ((a, b), t2) end
  end.

Lemma codec_pair {A B} (ea : A -> list Z) da (eb : B -> list Z) db :
  codec_ok ea da -> codec_ok eb db -> codec_ok (enc_pair ea eb) (dec_pair da db).
Proof.
  intros Ha Hb [a b] rest. unfold enc_pair, dec_pair; cbn [fst snd].
  rewrite <- app_assoc, Ha, Hb. reflexivity.
Qed.

(* ---- isomorphic views (records as nested pairs) ---- *)
Definition enc_iso {A B} (to : B -> A) (ea : A -> list Z) (b : B) : list Z := ea (to b).
Definition dec_iso {A B} (from : A -> B) (da : dec A) : dec B := fun t =>
  match da t with None => None | Some (a, r) => Some (from a, r) end.

Lemma codec_iso {A B} (to : B -> A) (from : A -> B) ea da :
  (forall b, from (to b) = b) -> codec_ok ea da -> codec_ok (enc_iso to ea) (dec_iso from da).
Proof.
  intros Hft Ha b rest. unfold enc_iso, dec_iso. rewrite Ha, Hft. reflexivity.
Qed.

(* ---- options ---- *)
Definition enc_opt {A} (ea : A -> list Z) (o : option A) : list Z :=
  match o with None => [0] | Some a => 1 :: ea a end.
Definition dec_opt {A} (da : dec A) : dec (option A) := fun t =>
  match t with
  | z :: r => if z =? 0 then Some (None, r)
              else if z =? 1 then match da r with None => None | Some (a, r') => Some (Some a, r') end
              else None
  | [] => None
  end.

Lemma codec_opt {A} (ea : A -> list Z) da : codec_ok ea da -> codec_ok (enc_opt ea) (dec_opt da).
Proof.
  intros Ha [a|] rest; cbn; [rewrite Ha|]; reflexivity.
Qed.

(* ---- lists: length prefix ---- *)
Definition enc_list {A} (ea : A -> list Z) (l : list A) : list Z :=
  Z.of_nat (length l) :: flat_map ea l.

Fixpoint dec_n {A} (da : dec A) (n : nat) (t : list Z) : option (list A * list Z) :=
  match n with
  | O => Some ([], t)
  | S n' => match da t with
            | None => None
            | Some (x, t1) => match dec_n da n' t1 with
                              | None => None
                              | Some (xs, t2) => Some (x :: xs, t2)
                              end
            end
  end.

Definition dec_list {A} (da : dec A) : dec (list A) := fun t =>
  match t with
  | n :: r => if n <? 0 then None else dec_n da (Z.to_nat n) r
  | [] => None
  end.

Lemma dec_n_flat_map {A} (ea : A -> list Z) da : codec_ok ea da ->
  forall l rest, dec_n da (length l) (flat_map ea l ++ rest) = Some (l, rest).
Proof.
  intros Ha l; induction l as [|x l IH]; intro rest; cbn; [reflexivity|].
  rewrite <- app_assoc, Ha, IH. reflexivity.
Qed.

Lemma codec_list {A} (ea : A -> list Z) da : codec_ok ea da -> codec_ok (enc_list ea) (dec_list da).
Proof.
  intros Ha l rest. unfold enc_list, dec_list. cbn [app].
  destruct (Z.of_nat (length l) <? 0) eqn:E; [apply Z.ltb_lt in E; lia|].
  rewrite Nat2Z.id. apply dec_n_flat_map, Ha.
Qed.

(* ---- whole-input parsing ---- *)
Definition parse_all {A} (d : dec A) (t : list Z) : option A :=
  match d t with Some (x, []) => Some x | _ => None end.

Lemma parse_all_ok {A} (e : A -> list Z) d : codec_ok e d -> forall x, parse_all d (e x) = Some x.
Proof.
  intros H x. unfold parse_all. rewrite <- (app_nil_r (e x)), H. reflexivity.
Qed.

Lemma codec_injective {A} (e : A -> list Z) d : codec_ok e d -> forall x y, e x = e y -> x = y.
Proof.
  intros H x y E. pose proof (parse_all_ok e d H x) as Hx. pose proof (parse_all_ok e d H y) as Hy.
  rewrite E in Hx. congruence.
Qed.
