(* C14 — executable model of deap/cma.py: StrategyOnePlusLambda, StrategyActiveOnePlusLambda
   (after the fix of the inverse-factor update), StrategyMultiObjective.

   One transcription, generic in the scalar type through a record of operations [Ops]:
     - instantiated with PrimFloat in Corr/C14.v and evaluated by vm_compute against the
       implementation (correspondence, regime N3: tolerance),
     - instantiated with a real closed field in Proofs/C14_*.v for the theorems.
   Vectors are lists, matrices lists of rows.  Every numpy.random call site is an explicit
   argument (draw); numpy.linalg.inv / the hypervolume indicator are oracle arguments whose
   contracts are checked by the correspondence runner.  No proofs in this file. *)
From Coq Require Import List ZArith Bool.
Import ListNotations.

Record Ops (T : Type) := mkOps {
  oadd : T -> T -> T; osub : T -> T -> T; omul : T -> T -> T; odiv : T -> T -> T;
  osqrt : T -> T; oexp : T -> T; oabs : T -> T;
  oltb : T -> T -> bool; oleb : T -> T -> bool;
  oofZ : Z -> T;
  oround : T -> T          (* numpy.around: nearest integer, halves to even *)
}.
Arguments oadd {T}. Arguments osub {T}. Arguments omul {T}. Arguments odiv {T}.
Arguments osqrt {T}. Arguments oexp {T}. Arguments oabs {T}. Arguments oltb {T}.
Arguments oleb {T}. Arguments oofZ {T}. Arguments oround {T}.

Fixpoint map2 {A B C} (f : A -> B -> C) (l1 : list A) (l2 : list B) : list C :=
  match l1, l2 with
  | a :: l1', b :: l2' => f a b :: map2 f l1' l2'
  | _, _ => []
  end.

Fixpoint set_nth {A} (l : list A) (i : nat) (x : A) : list A :=
  match l, i with
  | [], _ => []
  | _ :: r, O => x :: r
  | a :: r, S i' => a :: set_nth r i' x
  end.

Fixpoint count_if {A} (f : A -> bool) (l : list A) : nat :=
  match l with [] => O | a :: r => (if f a then 1 else 0) + count_if f r end.

(* list.pop(i) for 0 <= i < len *)
Fixpoint remove_nth {A} (l : list A) (i : nat) : list A :=
  match l, i with
  | [], _ => []
  | _ :: r, O => r
  | a :: r, S i' => a :: remove_nth r i'
  end.

(* list.sort(reverse=True) with a strict order lt: stable, descending.  An element is placed
   before the first later element that is not strictly greater. *)
Fixpoint insert_desc {A} (lt : A -> A -> bool) (x : A) (s : list A) : list A :=
  match s with
  | [] => [x]
  | y :: s' => if lt x y then y :: insert_desc lt x s' else x :: s
  end.
Definition sort_desc {A} (lt : A -> A -> bool) (l : list A) : list A :=
  fold_right (insert_desc lt) [] l.

Section Generic.
Context {T : Type} (Op : Ops T).

Local Notation "x + y" := (oadd Op x y).
Local Notation "x - y" := (osub Op x y).
Local Notation "x * y" := (omul Op x y).
Local Notation "x / y" := (odiv Op x y).
Local Notation "x <? y" := (oltb Op x y).
Local Notation "x <=? y" := (oleb Op x y).
Definition kz (z : Z) : T := oofZ Op z.
Definition ofnat (n : nat) : T := kz (Z.of_nat n).
Definition c0 : T := kz 0.
Definition c1 : T := kz 1.
Definition c2 : T := kz 2.

Definition vec := list T.
Definition mat := list (list T).

Definition vadd (u v : vec) : vec := map2 (oadd Op) u v.
Definition vsub (u v : vec) : vec := map2 (osub Op) u v.
Definition vmul (u v : vec) : vec := map2 (omul Op) u v.
Definition vscale (c : T) (v : vec) : vec := map (fun x => c * x) v.
Definition vdivs (v : vec) (c : T) : vec := map (fun x => x / c) v.
Definition dot (u v : vec) : T := fold_left (fun acc p => acc + fst p * snd p) (combine u v) c0.
Definition mv (A : mat) (v : vec) : vec := map (fun row => dot row v) A.
Definition outer (u v : vec) : mat := map (fun ui => map (fun vj => ui * vj) v) u.
Definition madd (A B : mat) : mat := map2 vadd A B.
Definition msub (A B : mat) : mat := map2 vsub A B.
Definition mscale (c : T) (A : mat) : mat := map (vscale c) A.
Definition mdivs (A : mat) (c : T) : mat := map (fun r => vdivs r c) A.
Fixpoint transpose (A : mat) : mat :=
  match A with
  | [] => []
  | [r] => map (fun x => [x]) r
  | r :: A' => map2 cons r (transpose A')
  end.
Definition vm (v : vec) (A : mat) : vec := mv (transpose A) v.       (* numpy.dot(v, A) *)
Definition mm (A B : mat) : mat := map (fun row => vm row B) A.
Definition zeros (n : nat) : vec := repeat c0 n.
Fixpoint identity_from (n k : nat) : mat :=    (* rows k.. of the n x n identity, n-k rows *)
  match k with
  | O => []
  | S k' => (repeat c0 (n - k)%nat ++ c1 :: repeat c0 k') :: identity_from n k'
  end.
Definition identity (n : nat) : mat := identity_from n n.
Definition vmax (d : T) (v : vec) : T := fold_left (fun m x => if m <? x then x else m) v d.
Definition maxabs (v : vec) : T := fold_left (fun m x => if m <? oabs Op x then oabs Op x else m) v c0.

(* Python tuple comparison of weighted values (no NaN) *)
Fixpoint lex_lt (a b : list T) : bool :=
  match a, b with
  | _, [] => false
  | [], _ :: _ => true
  | x :: a', y :: b' => if x <? y then true else if y <? x then false else lex_lt a' b'
  end.
Fixpoint lex_le (a b : list T) : bool :=
  match a, b with
  | [], _ => true
  | _ :: _, [] => false
  | x :: a', y :: b' => if x <? y then true else if y <? x then false else lex_le a' b'
  end.

(* numpy.linalg.cholesky as a function (Cholesky-Banachiewicz, row by row); rows are kept as
   their lower part while building and padded with zeros at the end *)
Fixpoint chol_row (prev : list vec) (ci : vec) (acc : vec) : vec :=
  match prev, ci with
  | lj :: prev', cij :: ci' =>
      let lij := (cij - dot acc lj) / last lj c1 in
      chol_row prev' ci' (acc ++ [lij])
  | [], cii :: _ => acc ++ [osqrt Op (cii - dot acc acc)]
  | _, [] => acc
  end.
Fixpoint chol_rows (C : mat) (prev : list vec) : list vec :=
  match C with
  | [] => prev
  | ci :: C' => chol_rows C' (prev ++ [chol_row prev ci []])
  end.
Definition cholesky (C : mat) : mat :=
  let n := length C in map (fun r => r ++ repeat c0 (n - length r)) (chol_rows C []).

(* ======================================================================================== *)
(* StrategyOnePlusLambda                                                                     *)
(* ======================================================================================== *)
Record pparams := mkPP { pp_lambda : nat; pp_d : T; pp_ptarg : T; pp_cp : T; pp_cc : T;
                         pp_ccov : T; pp_pthresh : T }.

(* computeParams with no user-supplied value *)
Definition plain_defaults (dim lambda : nat) : pparams :=
  let ptarg := c1 / (kz 5 + osqrt Op (ofnat lambda) / c2) in
  mkPP lambda
       (c1 + ofnat dim / (c2 * ofnat lambda))
       ptarg
       (ptarg * ofnat lambda / (c2 + ptarg * ofnat lambda))
       (c2 / (ofnat dim + c2))
       (c2 / (ofnat (dim * dim) + kz 6))
       (kz 44 / kz 100).

Record pstate := mkPS { ps_parent : vec; ps_pfit : list T; ps_sigma : T; ps_psucc : T;
                        ps_pc : vec; ps_C : mat; ps_A : mat }.

Definition plain_init (dim : nat) (P : pparams) (parent : vec) (pfit : list T) (sigma : T) : pstate :=
  mkPS parent pfit sigma (pp_ptarg P) (zeros dim) (identity dim) (identity dim).

(* generate: arz = standard_normal((lambda, dim)); row k of parent + sigma * dot(arz, A.T) *)
Definition plain_generate (st : pstate) (arz : list vec) : list vec :=
  map (fun z => vadd (ps_parent st) (vscale (ps_sigma st) (mv (ps_A st) z))) arz.

Definition pind := (vec * list T)%type.     (* genotype, fitness.wvalues *)

Definition sigma_step (d ptarg psucc sigma : T) : T :=
  sigma * oexp Op (c1 / d * (psucc - ptarg) / (c1 - ptarg)).
Definition psucc_step (cp psucc p_succ : T) : T := (c1 - cp) * psucc + cp * p_succ.

(* update: returns the new state and the (in place sorted) population; None = IndexError on
   an empty population *)
Definition plain_update (P : pparams) (st : pstate) (pop : list pind) : option (pstate * list pind) :=
  let sorted := sort_desc (fun a b => lex_lt (snd a) (snd b)) pop in
  let lambda_succ := count_if (fun ind => lex_le (ps_pfit st) (snd ind)) sorted in
  let p_succ := ofnat lambda_succ / ofnat (pp_lambda P) in
  let psucc := psucc_step (pp_cp P) (ps_psucc st) p_succ in
  match sorted with
  | [] => None
  | best :: _ =>
      let cc := pp_cc P in let ccov := pp_ccov P in
      let '(parent, pfit, pc, C) :=
        if lex_le (ps_pfit st) (snd best) then
          let x_step := vdivs (vsub (fst best) (ps_parent st)) (ps_sigma st) in
          if psucc <? pp_pthresh P then
            let pc := vadd (vscale (c1 - cc) (ps_pc st)) (vscale (osqrt Op (cc * (c2 - cc))) x_step) in
            (fst best, snd best, pc,
             madd (mscale (c1 - ccov) (ps_C st)) (mscale ccov (outer pc pc)))
          else
            let pc := vscale (c1 - cc) (ps_pc st) in
            (fst best, snd best, pc,
             madd (mscale (c1 - ccov) (ps_C st))
                  (mscale ccov (madd (outer pc pc) (mscale (cc * (c2 - cc)) (ps_C st)))))
        else (ps_parent st, ps_pfit st, ps_pc st, ps_C st) in
      let sigma := sigma_step (pp_d P) (pp_ptarg P) psucc (ps_sigma st) in
      Some (mkPS parent pfit sigma psucc pc C (cholesky C), sorted)
  end.

(* one generate / evaluate / update round and a history of rounds; evalf is the (arbitrary)
   evaluation function genotype -> weighted fitness values; the log collects every fitness
   evaluated so far *)
Definition plain_round (P : pparams) (evalf : vec -> list T) (st : pstate) (arz : list vec)
  : option (pstate * list pind) :=
  plain_update P st (map (fun x => (x, evalf x)) (plain_generate st arz)).

Fixpoint plain_run (P : pparams) (evalf : vec -> list T) (st : pstate) (draws : list (list vec))
                   (log : list (list T)) : option (pstate * list (list T)) :=
  match draws with
  | [] => Some (st, log)
  | arz :: rest =>
      match plain_round P evalf st arz with
      | None => None
      | Some (st', _) => plain_run P evalf st' rest (log ++ map evalf (plain_generate st arz))
      end
  end.

(* ======================================================================================== *)
(* StrategyActiveOnePlusLambda                                                               *)
(* ======================================================================================== *)
Record fitness := mkFit { f_wv : list T; f_cv : option (list bool) }.
Definition f_valid (f : fitness) : bool := match f_wv f with [] => false | _ => true end.
(* base._violates_constraint *)
Definition violates (f : fitness) : bool :=
  negb (f_valid f) && match f_cv f with None => false | Some cv => existsb (fun b => b) cv end.
(* ConstrainedFitness.__le__ / __lt__ ; for a plain Fitness (f_cv = None) they reduce to the
   tuple comparison *)
Definition c_le (a b : fitness) : bool :=
  if violates a && violates b then true else if violates a then true
  else if violates b then false else lex_le (f_wv a) (f_wv b).
Definition c_lt (a b : fitness) : bool :=
  if violates a && violates b then false else if violates a then true
  else if violates b then false else lex_lt (f_wv a) (f_wv b).

Record aind := mkAI { ai_x : vec; ai_y : vec; ai_z : vec; ai_fit : fitness }.

Record aparams := mkAP { ap_lambda : nat; ap_d : T; ap_ptarg : T; ap_cp : T; ap_cc : T;
                         ap_ccovp : T; ap_ccovn : T; ap_cconst : T; ap_beta : T;
                         ap_pthresh : T; ap_S_int : vec }.

(* defaults of __init__/_compute_lambda_parameters except ccovn (it uses a float power:
   oracle value supplied by the caller) *)
Definition active_defaults (dim lambda : nat) (ccovn : T) (S_int : vec) : aparams :=
  let ptarg := c1 / (kz 5 + osqrt Op (ofnat lambda) / c2) in
  mkAP lambda
       (c1 + ofnat dim / (c2 * ofnat lambda))
       ptarg
       (ptarg * ofnat lambda / (c2 + ptarg * ofnat lambda))
       (c2 / (ofnat dim + c2))
       (c2 / (ofnat (dim * dim) + kz 6))
       ccovn
       (c1 / (ofnat dim + c2))
       (c1 / kz 10 / (ofnat lambda * (ofnat dim + c2)))
       (kz 44 / kz 100)
       S_int.

Record astate := mkAS { as_parent : vec; as_pfit : option fitness;   (* None: parent without .fitness *)
                        as_sigma : T; as_psucc : T; as_pc : vec; as_A : mat; as_invA : mat;
                        as_cvecs : option mat; as_anc : list fitness; as_iIR : list nat }.

(* numpy.flatnonzero(2 * sigma * diag ** 0.5 < S_int) *)
Fixpoint flatnonzero_from (i : nat) (sigma : T) (diag S_int : vec) : list nat :=
  match diag, S_int with
  | dg :: diag', s :: S' =>
      let r := flatnonzero_from (S i) sigma diag' S' in
      if c2 * sigma * osqrt Op dg <? s then i :: r else r
  | _, _ => []
  end.
Definition diag_AAT (A : mat) : vec := map (fun row => dot row row) A.

Definition flatten_iIR (sigma : T) (A : mat) (S_int : vec) : list nat :=
  flatnonzero_from 0 sigma (diag_AAT A) S_int.

Definition active_init (dim : nat) (P : aparams) (parent : vec) (pfit : option fitness) (sigma : T) : astate :=
  mkAS parent pfit sigma (ap_ptarg P) (zeros dim) (identity dim) (identity dim) None []
       (flatnonzero_from 0 sigma (repeat c1 dim) (ap_S_int P)).

(* _integer_mutation.  Draws: us = the numpy.random.rand() values (one per loop iteration),
   gs = the numpy.random.geometric results in the order drawn, pm = randint(0, 2, (lambda, dim)).
   Returns None when the draw lists do not have the shape the code consumes. *)
Definition cycle_nth (l : list nat) (i : nat) : nat := nth (Nat.modulo i (length l)) l O.

Fixpoint int_rows (dim : nat) (p : T) (iIR : list nat) (i : nat) (fuel : nat) (us gs : list T)
  : option (list vec) :=
  match fuel with
  | O => match us, gs with [], [] => Some [] | _, _ => None end
  | S fuel' =>
      match us with
      | [] => None
      | u :: us' =>
          let j := cycle_nth iIR i in
          if u <? p then
            match gs with
            | [] => None
            | g :: gs' =>
                match int_rows dim p iIR (S i) fuel' us' gs' with
                | None => None
                | Some rows => Some (set_nth (zeros dim) j (c1 + (g - c1)) :: rows)
                end
            end
          else
            match int_rows dim p iIR (S i) fuel' us' gs with
            | None => None
            | Some rows => Some (zeros dim :: rows)
            end
      end
  end.

Definition pm_sign (z : Z) : T := if Z.eqb z 0 then c1 else c0 - c1.     (* (-1) ** z, z in {0,1} *)

Definition integer_mutation (dim lambda : nat) (iIR : list nat) (us gs : list T) (pm : list (list Z))
  : option (list vec) :=
  let n_I_R := length iIR in
  match n_I_R with
  | O => match us, gs, pm with [], [], [] => Some (repeat (zeros dim) lambda) | _, _, _ => None end
  | _ =>
      let p := if Nat.eqb n_I_R dim then ofnat lambda / c2 / ofnat lambda
               else let a := ofnat lambda / c2 in
                    let b := ofnat lambda / kz 10 + ofnat n_I_R / ofnat dim in
                    (if b <? a then b else a) / ofnat lambda in
      match int_rows dim p iIR 0 lambda us gs with
      | None => None
      | Some rows =>
          if Nat.eqb (length pm) lambda then
            Some (map2 (fun sgn row => vmul (map pm_sign sgn) row) pm rows)
          else None
      end
  end.

(* generate: z = standard_normal((lambda, dim)); returns the individuals (x, y, z) *)
Definition active_generate (P : aparams) (st : astate) (z : list vec) (R_int : list vec)
  : list (vec * vec * vec) :=
  map2 (fun zk rk =>
          let y := mv (as_A st) zk in
          let x := vadd (vadd (as_parent st) (vscale (as_sigma st) y)) (vmul (ap_S_int P) rk) in
          let x := if existsb (fun s => c0 <? s) (ap_S_int P)
                   then map2 (fun s xi => if c0 <? s then s * oround Op (xi / s) else xi) (ap_S_int P) x
                   else x in
          (x, y, zk)) z R_int.

Definition allclose0 (v : vec) : bool := forallb (fun x => oabs Op x <=? (c1 / kz 100000000)) v.
Definition norm_sqrd (w : vec) : T := let nr := osqrt Op (dot w w) in nr * nr.   (* numpy.linalg.norm(w) ** 2 *)

Definition has_fitness (st : astate) : bool := match as_pfit st with None => false | Some _ => true end.
Definition parent_le (st : astate) (f : fitness) : bool :=
  match as_pfit st with None => true | Some pf => c_le pf f end.

(* _rank1update (repaired inverse update) *)
Definition rank1update (P : aparams) (st : astate) (ind : aind) (p_succ : T) : astate :=
  let psucc := psucc_step (ap_cp P) (as_psucc st) p_succ in
  let cc := ap_cc P in let ccovp := ap_ccovp P in
  let '(parent, pfit, anc, pc, upd) :=
    if parent_le st (ai_fit ind) then
      let anc := as_anc st ++ [ai_fit ind] in
      let anc := if Nat.ltb 5 (length anc) then removelast anc else anc in
      if (psucc <? ap_pthresh P) || allclose0 (as_pc st) then
        let pc := vadd (vscale (c1 - cc) (as_pc st)) (vscale (osqrt Op (cc * (c2 - cc))) (ai_y ind)) in
        let a := osqrt Op (c1 - ccovp) in
        let w := mv (as_invA st) pc in
        let nw := norm_sqrd w in
        let b := osqrt Op (c1 - ccovp) / nw * (osqrt Op (c1 + ccovp / (c1 - ccovp) * nw) - c1) in
        (ai_x ind, Some (ai_fit ind), anc, pc, Some (a, b, w, nw))
      else
        let pc := vscale (c1 - cc) (as_pc st) in
        let d := ccovp * (c1 + cc * (c2 - cc)) in
        let a := osqrt Op (c1 - d) in
        let w := mv (as_invA st) pc in
        let nw := norm_sqrd w in
        let b := osqrt Op (c1 - d) * (osqrt Op (c1 + ccovp * nw / (c1 - d)) - c1) / nw in
        (ai_x ind, Some (ai_fit ind), anc, pc, Some (a, b, w, nw))
    else if Nat.leb 5 (length (as_anc st)) && c_lt (ai_fit ind) (hd (mkFit [] None) (as_anc st))
            && (psucc <? ap_pthresh P) then
      let w := ai_z ind in
      let nw := norm_sqrd w in
      let ccovn := if c1 <? ap_ccovn P * (c2 * nw - c1) then c1 / (c2 * nw - c1) else ap_ccovn P in
      let a := osqrt Op (c1 + ccovn) in
      let b := osqrt Op (c1 + ccovn) / nw * (osqrt Op (c1 - ccovn / (c1 + ccovn) * nw) - c1) in
      (as_parent st, as_pfit st, as_anc st, as_pc st, Some (a, b, w, nw))
    else (as_parent st, as_pfit st, as_anc st, as_pc st, None) in
  let '(A, invA) :=
    match upd with
    | Some (a, b, w, nw) =>
        (madd (mscale a (as_A st)) (mscale b (outer (mv (as_A st) w) w)),
         msub (mscale (c1 / a) (as_invA st))
              (mscale (b / (a * a + a * b * nw)) (outer w (vm w (as_invA st)))))
    | None => (as_A st, as_invA st)
    end in
  let sigma := as_sigma st * oexp Op (c1 / ap_d P * ((psucc - ap_ptarg P) / (c1 - ap_ptarg P))) in
  mkAS parent pfit sigma psucc pc A invA (as_cvecs st) anc (as_iIR st).

(* _infeasible_update; inv = what numpy.linalg.inv(A_prime) returned (None: LinAlgError).
   Also returns A_prime so that the runner can check the contract of inv. *)
Definition cv_list (f : fitness) : list bool := match f_cv f with None => [] | Some l => l end.
Definition count_true (l : list bool) : nat := count_if (fun b => b) l.

Definition infeasible_update (dim : nat) (P : aparams) (st : astate) (ind : aind) (inv : option mat)
  : astate * option mat :=
  match f_cv (ai_fit ind) with
  | None => (st, None)
  | Some cv =>
      let cvecs0 := match as_cvecs st with None => repeat (zeros dim) (length cv) | Some m => m end in
      let cconst := ap_cconst P in
      let cvecs := map2 (fun (b : bool) v =>
                           if b then vadd (vscale (c1 - cconst) v) (vscale cconst (ai_y ind)) else v)
                        (cv ++ repeat false (length cvecs0 - length cv)) cvecs0 in
      let W := map (fun v => mv (as_invA st) v) cvecs in
      let ncv := ofnat (count_true cv) in
      let terms := map2 (fun bw v => mdivs (outer v (snd bw)) (dot (snd bw) (snd bw)))
                        (filter (fun bw => fst bw) (combine cv W))
                        (map snd (filter (fun bv => fst bv) (combine cv cvecs))) in
      let S := fold_left madd terms (repeat (zeros dim) dim) in
      let A_prime := msub (as_A st) (mscale (ap_beta P / ncv) S) in
      match inv with
      | Some iA => (mkAS (as_parent st) (as_pfit st) (as_sigma st) (as_psucc st) (as_pc st)
                         A_prime iA (Some cvecs) (as_anc st) (as_iIR st), Some A_prime)
      | None => (mkAS (as_parent st) (as_pfit st) (as_sigma st) (as_psucc st) (as_pc st)
                      (as_A st) (as_invA st) (Some cvecs) (as_anc st) (as_iIR st), Some A_prime)
      end
  end.

Fixpoint infeasible_all (dim : nat) (P : aparams) (st : astate) (inds : list aind) (invs : list (option mat))
  : astate * list (option mat) :=
  match inds with
  | [] => (st, [])
  | ind :: inds' =>
      let inv := hd None invs in
      let '(st1, ap) := infeasible_update dim P st ind inv in
      let '(st2, aps) := infeasible_all dim P st1 inds' (tl invs) in
      (st2, ap :: aps)
  end.

(* first half of update: the rank-one step with the best evaluated offspring (if any) *)
Definition active_update_rank1 (P : aparams) (st : astate) (pop : list aind) : astate :=
  let valid_pop := filter (fun i => f_valid (ai_fit i)) pop in
  match sort_desc (fun a b => c_lt (ai_fit a) (ai_fit b)) valid_pop with
  | [] => st
  | (best :: _) as sorted =>
      let lambda_succ := if has_fitness st
                         then count_if (fun i => parent_le st (ai_fit i)) sorted
                         else length sorted in
      rank1update P st best (ofnat lambda_succ / ofnat (length sorted))
  end.

(* update; returns the state and the A_prime matrices of the constraint updates *)
Definition active_update (dim : nat) (P : aparams) (st : astate) (pop : list aind) (invs : list (option mat))
  : astate * list (option mat) :=
  let invalid_pop := filter (fun i => negb (f_valid (ai_fit i))) pop in
  let st1 := active_update_rank1 P st pop in
  let '(st2, aps) := infeasible_all dim P st1 invalid_pop invs in
  (mkAS (as_parent st2) (as_pfit st2) (as_sigma st2) (as_psucc st2) (as_pc st2) (as_A st2)
        (as_invA st2) (as_cvecs st2) (as_anc st2)
        (flatten_iIR (as_sigma st2) (as_A st2) (ap_S_int P)), aps).

(* one round: draws (z, us, gs, pm), oracle values invs; evalfit : genotype -> fitness *)
Record adraws := mkAD { ad_z : list vec; ad_us : list T; ad_gs : list T; ad_pm : list (list Z);
                        ad_invs : list (option mat) }.

Definition active_population (dim : nat) (P : aparams) (evalfit : vec -> fitness) (st : astate) (d : adraws)
  : option (list aind) :=
  match integer_mutation dim (ap_lambda P) (as_iIR st) (ad_us d) (ad_gs d) (ad_pm d) with
  | None => None
  | Some R_int =>
      Some (map (fun xyz : vec * vec * vec => let '(x, y, z) := xyz in mkAI x y z (evalfit x))
                (active_generate P st (ad_z d) R_int))
  end.

Definition active_round (dim : nat) (P : aparams) (evalfit : vec -> fitness) (st : astate) (d : adraws)
  : option astate :=
  match active_population dim P evalfit st d with
  | None => None
  | Some pop => Some (fst (active_update dim P st pop (ad_invs d)))
  end.

Fixpoint active_run (dim : nat) (P : aparams) (evalfit : vec -> fitness) (st : astate) (draws : list adraws)
                    (log : list fitness) : option (astate * list fitness) :=
  match draws with
  | [] => Some (st, log)
  | d :: rest =>
      match active_population dim P evalfit st d with
      | None => None
      | Some pop =>
          active_run dim P evalfit (fst (active_update dim P st pop (ad_invs d))) rest
                     (log ++ map ai_fit pop)
      end
  end.

(* ======================================================================================== *)
(* StrategyMultiObjective                                                                    *)
(* ======================================================================================== *)
Record mparams := mkMP { mp_mu : nat; mp_lambda : nat; mp_d : T; mp_ptarg : T; mp_cp : T;
                         mp_cc : T; mp_ccov : T; mp_pthresh : T }.
Definition mo_defaults (dim mu lambda : nat) : mparams :=
  let ptarg := c1 / (kz 5 + c1 / c2) in
  mkMP mu lambda (c1 + ofnat dim / c2) ptarg (ptarg / (c2 + ptarg))
       (c2 / (ofnat dim + c2)) (c2 / (ofnat (dim * dim) + kz 6)) (kz 44 / kz 100).

Record mstate := mkMS { ms_parents : list vec; ms_pfits : list (list T); ms_sigmas : list T;
                        ms_A : list mat; ms_invC : list mat; ms_pc : list vec; ms_psucc : list T }.

(* __init__: population = the initial parents (genotype, wvalues) *)
Definition mo_init (dim : nat) (P : mparams) (population : list (vec * list T)) (sigma : T) : mstate :=
  let m := length population in
  mkMS (map fst population) (map snd population) (repeat sigma m)
       (repeat (identity dim) m) (repeat (identity dim) m) (repeat (zeros dim) m) (repeat (mp_ptarg P) m).

(* an individual seen by update: genotype, wvalues, tag ("o" = true / "p" = false, index) *)
Record mind := mkMI { mi_x : vec; mi_wv : list T; mi_off : bool; mi_pidx : nat }.

(* Pareto dominance on weighted values (maximisation): emo.isDominated (b, a) *)
Fixpoint dominates (a b : list T) (strict : bool) : bool :=
  match a, b with
  | x :: a', y :: b' => if x <? y then false else dominates a' b' (strict || (y <? x))
  | _, _ => strict
  end.

(* non-dominated sorting: peel ranks; inside a front the order produced by sortLogNondominated
   (weighted values in decreasing lexicographic order, equal ones in order of appearance) *)
Definition undominated (wvs : list (nat * list T)) (x : nat * list T) : bool :=
  forallb (fun y => negb (dominates (snd y) (snd x) false)) wvs.
Fixpoint peel (fuel : nat) (rest : list (nat * list T)) : list (list (nat * list T)) :=
  match fuel with
  | O => []
  | S fuel' =>
      match rest with
      | [] => []
      | _ =>
          let front := filter (undominated rest) rest in
          let rest' := filter (fun x => negb (undominated rest x)) rest in
          sort_desc (fun a b => lex_lt (snd a) (snd b)) front :: peel fuel' rest'
      end
  end.
Definition index_list {A} (l : list A) : list (nat * A) := combine (seq 0 (length l)) l.
Definition nd_fronts (wvs : list (list T)) : list (list nat) :=
  map (map fst) (peel (length wvs) (index_list wvs)).

(* generate.  arz = randn(lambda, dim); js = the randint(0, len(ndom)) draws (lambda != mu) *)
Definition mo_generate (P : mparams) (st : mstate) (arz : list vec) (js : list nat) : list (vec * nat) :=
  let pidx :=
    if Nat.eqb (mp_lambda P) (mp_mu P) then seq 0 (mp_lambda P)
    else let ndom := hd [] (nd_fronts (ms_pfits st)) in map (fun j => nth j ndom O) js in
  map2 (fun z p =>
          (vadd (nth p (ms_parents st) []) (vscale (nth p (ms_sigmas st) c0) (mv (nth p (ms_A st) []) z)), p))
       arz pidx.

(* _select.  cands = candidates (population + parents); hv = the successive return values of
   self.indicator(mid_front, ref=ref).  Works on candidate indices.  Returns
   (chosen, not_chosen, mid fronts seen by the indicator). *)
Fixpoint fill_fronts (mu : nat) (fronts : list (list nat)) (chosen : list nat) (mid : option (list nat))
                     (not_chosen : list nat) (full : bool)
  : list nat * option (list nat) * list nat :=
  match fronts with
  | [] => (chosen, mid, not_chosen)
  | front :: rest =>
      if Nat.leb (length chosen + length front) mu && negb full then
        fill_fronts mu rest (chosen ++ front) mid not_chosen full
      else match mid with
           | None => if Nat.ltb (length chosen) mu
                     then fill_fronts mu rest chosen (Some front) not_chosen true
                     else fill_fronts mu rest chosen mid (not_chosen ++ front) full
           | Some _ => fill_fronts mu rest chosen mid (not_chosen ++ front) full
           end
  end.

Fixpoint hv_removals (n : nat) (mid : list nat) (hv : list nat) (removed : list nat) (seen : list (list nat))
  : list nat * list nat * list (list nat) :=
  match n with
  | O => (mid, removed, seen)
  | S n' =>
      let idx := hd O hv in
      hv_removals n' (remove_nth mid idx) (tl hv) (removed ++ [nth idx mid O]) (seen ++ [mid])
  end.

Definition mo_select (mu : nat) (wvs : list (list T)) (hv : list nat)
  : list nat * list nat * list (list nat) :=
  let n := length wvs in
  if Nat.leb n mu then (seq 0 n, [], [])
  else
    let '(chosen, mid, not_chosen) := fill_fronts mu (nd_fronts wvs) [] None [] false in
    let k := (mu - length chosen)%nat in
    match k, mid with
    | S _, Some midf =>
        let '(midf', removed, seen) := hv_removals (length midf - k) midf hv [] [] in
        (chosen ++ midf', not_chosen ++ removed, seen)
    | _, _ => (chosen, not_chosen, [])
    end.

(* reference point of _select: max over all candidates of -wvalues, plus 1 *)
Definition neg_wv (wv : list T) : list T := map (fun x => x * (c0 - c1)) wv.
Definition ref_point (wvs : list (list T)) : list T :=
  match map neg_wv wvs with
  | [] => []
  | r :: rs => map (fun x => x + c1)
                   (fold_left (fun m v => map2 (fun a b => if a <? b then b else a) m v) rs r)
  end.

(* _rankOneUpdate *)
Definition mo_rank_one (invC A : mat) (alpha beta : T) (v : vec) : mat * mat :=
  let w := mv invC v in
  match w with
  | [] => (invC, A)           (* w.max() of an empty array raises; dimension 0 is out of scope *)
  | w0 :: _ =>
      if (c1 / (kz 10000000000 * kz 10000000000)) <? vmax w0 w then
        let w_inv := vm w invC in
        let norm_w2 := fold_left (fun acc x => acc + x * x) w c0 in
        let a := osqrt Op alpha in
        let root := osqrt Op (c1 + beta / alpha * norm_w2) in
        let b := a / norm_w2 * (root - c1) in
        (msub (mscale (c1 / a) invC) (mscale (b / (a * a + a * b * norm_w2)) (outer w w_inv)),
         madd (mscale a A) (mscale b (outer v w)))
      else (invC, A)
  end.

(* the per-parent record copied for a chosen offspring *)
Record mrec := mkMR { mr_sigma : T; mr_invC : mat; mr_A : mat; mr_pc : vec; mr_psucc : T }.

Definition mo_sig_factor (P : mparams) (psucc : T) : T :=
  oexp Op ((psucc - mp_ptarg P) / (mp_d P * (c1 - mp_ptarg P))).

(* first loop of update: over the chosen individuals; self.psucc / self.sigmas are updated in
   place (psL, sgL), the copies of the chosen offspring are updated and collected *)
Fixpoint mo_loop_chosen (P : mparams) (st : mstate) (chosen : list mind) (psL sgL : list T)
  : list (option mrec) * list T * list T :=
  match chosen with
  | [] => ([], psL, sgL)
  | ind :: rest =>
      if mi_off ind then
        let p := mi_pidx ind in
        let cp := mp_cp P in let cc := mp_cc P in let ccov := mp_ccov P in
        let last_step := nth p (ms_sigmas st) c0 in
        let psucc := (c1 - cp) * nth p (ms_psucc st) c0 + cp in
        let sigma := nth p (ms_sigmas st) c0 * mo_sig_factor P psucc in
        let pc0 := nth p (ms_pc st) [] in
        let '(pc, (invC, A)) :=
          if psucc <? mp_pthresh P then
            let pc := vadd (vscale (c1 - cc) pc0)
                           (vdivs (vscale (osqrt Op (cc * (c2 - cc))) (vsub (mi_x ind) (nth p (ms_parents st) [])))
                                  last_step) in
            (pc, mo_rank_one (nth p (ms_invC st) []) (nth p (ms_A st) []) (c1 - ccov) ccov pc)
          else
            let pc := vscale (c1 - cc) pc0 in
            let pc_weight := cc * (c2 - cc) in
            (pc, mo_rank_one (nth p (ms_invC st) []) (nth p (ms_A st) []) (c1 - ccov + pc_weight) ccov pc) in
        let ps' := (c1 - cp) * nth p psL c0 + cp in
        let psL1 := set_nth psL p ps' in
        let sgL1 := set_nth sgL p (nth p sgL c0 * mo_sig_factor P ps') in
        let '(recs, psL2, sgL2) := mo_loop_chosen P st rest psL1 sgL1 in
        (Some (mkMR sigma invC A pc psucc) :: recs, psL2, sgL2)
      else
        let '(recs, psL2, sgL2) := mo_loop_chosen P st rest psL sgL in
        (None :: recs, psL2, sgL2)
  end.

Fixpoint mo_loop_not_chosen (P : mparams) (not_chosen : list mind) (psL sgL : list T) : list T * list T :=
  match not_chosen with
  | [] => (psL, sgL)
  | ind :: rest =>
      if mi_off ind then
        let p := mi_pidx ind in
        let ps' := (c1 - mp_cp P) * nth p psL c0 in
        mo_loop_not_chosen P rest (set_nth psL p ps') (set_nth sgL p (nth p sgL c0 * mo_sig_factor P ps'))
      else mo_loop_not_chosen P rest psL sgL
  end.

Definition dummy_ind : mind := mkMI [] [] false O.

(* [x_new[i] if tag == "o" else self.x[p_idx] for i, ind in enumerate(chosen)] *)
Definition pick {X} (chosen : list mind) (recs : list (option mrec)) (f : mrec -> X) (old : list X) (d : X) : list X :=
  map2 (fun ind r => match r with Some r => f r | None => nth (mi_pidx ind) old d end) chosen recs.

(* second half of update: the parameter loops and the realignment of the per-parent lists, given
   the chosen and not chosen individuals *)
Definition mo_update_core (P : mparams) (st : mstate) (chosen not_chosen : list mind) : mstate :=
  let '(recs, psL, sgL) := mo_loop_chosen P st chosen (ms_psucc st) (ms_sigmas st) in
  let '(psL, sgL) := mo_loop_not_chosen P not_chosen psL sgL in
  mkMS (map mi_x chosen) (map mi_wv chosen)
       (pick chosen recs mr_sigma sgL c0) (pick chosen recs mr_A (ms_A st) [])
       (pick chosen recs mr_invC (ms_invC st) [])
       (pick chosen recs mr_pc (ms_pc st) []) (pick chosen recs mr_psucc psL c0).

(* the candidates of update: population + self.parents, the parents tagged ("p", i) *)
Definition mo_candidates (st : mstate) (population : list mind) : list mind :=
  population ++ map2 (fun i xw => mkMI (fst xw) (snd xw) false i)
                     (seq 0 (length (ms_parents st))) (combine (ms_parents st) (ms_pfits st)).

(* update.  population = the offspring (tagged "o"); hv = indicator results.  Returns the new
   state, the indices of chosen / not chosen candidates, and the mid fronts given to the indicator *)
Definition mo_update (P : mparams) (st : mstate) (population : list mind) (hv : list nat)
  : mstate * list nat * list nat * list (list nat) :=
  let cands := mo_candidates st population in
  let '(chosen_i, not_chosen_i, seen) := mo_select (mp_mu P) (map mi_wv cands) hv in
  let chosen := map (fun i => nth i cands dummy_ind) chosen_i in
  let not_chosen := map (fun i => nth i cands dummy_ind) not_chosen_i in
  (mo_update_core P st chosen not_chosen, chosen_i, not_chosen_i, seen).

(* one round and a history; evalf : genotype -> weighted values *)
Definition mo_round (P : mparams) (evalf : vec -> list T) (st : mstate) (arz : list vec) (js hv : list nat)
  : mstate :=
  let pop := map (fun xp : vec * nat => mkMI (fst xp) (evalf (fst xp)) true (snd xp)) (mo_generate P st arz js) in
  let '(st', _, _, _) := mo_update P st pop hv in st'.

Fixpoint mo_run (P : mparams) (evalf : vec -> list T) (st : mstate) (draws : list (list vec * list nat * list nat))
  : mstate :=
  match draws with
  | [] => st
  | (arz, js, hv) :: rest => mo_run P evalf (mo_round P evalf st arz js hv) rest
  end.

End Generic.
