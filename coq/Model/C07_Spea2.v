(* C07 — executable model of deap/tools/emo.py: selSPEA2 (repaired: loop variables no longer
   clobber k), _randomizedSelect, _randomizedPartition, _partition.
   Generic in the numeric operations (Base/C07_Num.v): the exact instance qx_ops is what the
   theorems of Props/C07.v are instantiated with where order facts are needed; the float
   instance (Model/C07_FloatInst.v) replays the implementation bit for bit.
   Individuals are identified with their index in the input list; the model returns the list
   chosen_indices (the implementation returns [individuals[i] for i in chosen_indices]).
   No proofs here. *)
From Coq Require Import List ZArith Bool.
From DV Require Import Base.PyList Base.C07_Num.
Import ListNotations.

Section Spea2.
Context {T : Type} (Op : numops T).

Local Notation ltb := (n_ltb Op).
Local Notation zero := (n_ofZ Op 0%Z).

(* ---- Fitness.dominates on weighted values (base.py:209-224) ---- *)
Fixpoint dom_aux (a b : list T) (ne : bool) : bool :=
  match a, b with
  | x :: a', y :: b' =>
      if ltb y x then dom_aux a' b' true          (* self_wvalue > other_wvalue *)
      else if ltb x y then false                  (* self_wvalue < other_wvalue: return False *)
      else dom_aux a' b' ne
  | _, _ => ne
  end.
Definition dominates (a b : list T) : bool := dom_aux a b false.

(* ---- lines 728-739: strengths and dominators ---- *)
Definition incr (l : list nat) (i : nat) : list nat := set_nth l i (S (nth i l 0%nat)).
Definition push (l : list (list nat)) (i x : nat) : list (list nat) := set_nth l i (nth i l [] ++ [x]).

Definition pair_step (w : list (list T)) (st : list nat * list (list nat)) (p : nat * nat) :=
  let '(i, j) := p in
  let '(S_, D) := st in
  if dominates (nth i w []) (nth j w []) then (incr S_ i, push D j i)
  else if dominates (nth j w []) (nth i w []) then (incr S_ j, push D i j)
  else st.

(* for i in range(N): for j in range(i+1, N) *)
Definition pairs (N : nat) : list (nat * nat) :=
  flat_map (fun i => map (pair i) (seq (S i) (N - S i))) (seq 0 N).

Definition phase1 (w : list (list T)) (N : nat) : list nat * list (list nat) :=
  fold_left (pair_step w) (pairs N) (repeat 0%nat N, repeat [] N).

(* fits[i] += strength_fits[j] for j in dominating_inds[i] *)
Definition raw_fits (S_ : list nat) (D : list (list nat)) : list nat :=
  map (fun dl => fold_left (fun acc j => (acc + nth j S_ 0)%nat) dl 0%nat) D.

(* chosen_indices = [i for i in range(N) if fits[i] < 1] *)
Definition nd_indices (fits : list nat) : list nat :=
  filter (fun i => Nat.ltb (nth i fits 0%nat) 1) (seq 0 (length fits)).

(* ---- squared euclidean distance on fitness.values: dist += val * val, l = 0..L-1 ---- *)
Definition sqdist (a b : list T) : T :=
  fold_left (fun acc p => let v := n_sub Op (fst p) (snd p) in n_add Op acc (n_mul Op v v)) (zip a b) zero.

(* ---- _partition / _randomizedPartition / _randomizedSelect (lines 824-858), Z indices ---- *)
Definition getz (arr : list T) (i : Z) : T := nth (Z.to_nat i) arr zero.
Definition swapz (arr : list T) (i j : Z) : list T :=
  let a := getz arr i in let b := getz arr j in
  set_nth (set_nth arr (Z.to_nat i) b) (Z.to_nat j) a.

(* while array[j] > x: j -= 1 *)
Fixpoint scan_down (fuel : nat) (arr : list T) (x : T) (j : Z) : Z :=
  match fuel with
  | O => j
  | S f => if ltb x (getz arr j) then scan_down f arr x (j - 1) else j
  end.
(* while array[i] < x: i += 1 *)
Fixpoint scan_up (fuel : nat) (arr : list T) (x : T) (i : Z) : Z :=
  match fuel with
  | O => i
  | S f => if ltb (getz arr i) x then scan_up f arr x (i + 1) else i
  end.

Fixpoint part_loop (fuel : nat) (arr : list T) (x : T) (i j : Z) : list T * Z :=
  match fuel with
  | O => (arr, j)
  | S f =>
      let j1 := scan_down (S (length arr)) arr x (j - 1) in
      let i1 := scan_up (S (length arr)) arr x (i + 1) in
      if (i1 <? j1)%Z then part_loop f (swapz arr i1 j1) x i1 j1 else (arr, j1)
  end.

Definition partition (arr : list T) (b e : Z) : list T * Z :=
  part_loop (S (length arr)) arr (getz arr b) (b - 1)%Z (e + 1)%Z.

(* i = random.randint(begin, end); array[begin], array[i] = array[i], array[begin] *)
Definition rand_partition (arr : list T) (b e r : Z) : list T * Z :=
  partition (swapz arr b r) b e.

(* draws: the successive values returned by random.randint; an exhausted list reads as begin *)
Fixpoint rand_select (fuel : nat) (arr : list T) (b e i : Z) (draws : list Z) : T * list Z :=
  match fuel with
  | O => (getz arr b, draws)
  | S f =>
      if (b =? e)%Z then (getz arr b, draws)
      else
        let '(r, draws') := match draws with r :: d => (r, d) | [] => (b, []) end in
        let '(arr', q) := rand_partition arr b e r in
        let k := (q - b + 1)%Z in
        if (i <? k)%Z then rand_select f arr' b q i draws'
        else rand_select f arr' (q + 1)%Z e (i - k)%Z draws'
  end.

(* K = math.sqrt(N) is only ever compared with / reduced by integers: i < k  <->  floor(i) < k,
   floor(i - k) = floor(i) - k, and floor(fl(sqrt N)) = isqrt N for N < 2^50 (design_notes/C07.md) *)
Definition rank_of (N : nat) : Z := Z.sqrt (Z.of_nat N).

(* ---- the "archive too small" branch, lines 745-762 ---- *)
Definition dist_row (vals : list (list T)) (N i : nat) : list T :=
  tab N (fun j => if Nat.ltb i j then sqdist (nth i vals []) (nth j vals []) else zero).

Definition density (kth : T) : T := n_div Op (n_ofZ Op 1) (n_add Op kth (n_ofZ Op 2)).

(* for i in range(N): ... kth_dist = _randomizedSelect(distances, 0, N-1, K); fits[i] += density *)
Fixpoint fill_keys (vals : list (list T)) (N : nat) (is_ : list nat) (fits : list nat) (draws : list Z)
  : list T * list Z :=
  match is_ with
  | [] => ([], draws)
  | i :: r =>
      let '(kth, d1) := rand_select (S N) (dist_row vals N i) 0%Z (Z.of_nat N - 1)%Z (rank_of N) draws in
      let key := n_add Op (n_ofZ Op (Z.of_nat (nth i fits 0%nat))) (density kth) in
      let '(ks, d2) := fill_keys vals N r fits d1 in
      (key :: ks, d2)
  end.

(* (fits[i], i) < (fits[j], j) as Python compares tuples *)
Definition pair_lt (a b : T * nat) : bool :=
  if n_eqb Op (fst a) (fst b) then Nat.ltb (snd a) (snd b) else ltb (fst a) (fst b).

Fixpoint ins_sorted (x : T * nat) (l : list (T * nat)) : list (T * nat) :=
  match l with
  | [] => [x]
  | y :: r => if pair_lt x y then x :: l else y :: ins_sorted x r
  end.
Definition sort_pairs (l : list (T * nat)) : list (T * nat) := fold_right ins_sorted [] l.

Definition memb (i : nat) (l : list nat) : bool := existsb (Nat.eqb i) l.

Definition fill_branch (vals : list (list T)) (N k : nat) (fits chosen : list nat) (draws : list Z)
  : list nat * list Z :=
  let '(keys, d) := fill_keys vals N (seq 0 N) fits draws in
  let next := sort_pairs (filter (fun p => negb (memb (snd p) chosen)) (zip keys (seq 0 N))) in
  (chosen ++ map snd (firstn (k - length chosen) next), d).

(* ---- the "archive too large" branch, lines 764-819 ---- *)
Definition get2 (D : list (list T)) (i j : nat) : T := nth j (nth i D []) zero.

(* distances[i][j] = distances[j][i] = dist (i < j);  distances[i][i] = -1 *)
Definition dist_matrix (vals : list (list T)) (chosen : list nat) (N : nat) : list (list T) :=
  tab N (fun i => tab N (fun j =>
    if Nat.eqb i j then n_ofZ Op (-1)
    else if Nat.ltb i j then sqdist (nth (nth i chosen 0%nat) vals []) (nth (nth j chosen 0%nat) vals [])
    else sqdist (nth (nth j chosen 0%nat) vals []) (nth (nth i chosen 0%nat) vals []))).

(* one pass of the insertion sort on row i, on the reversed prefix:
   m = j; while m > 0 and d[i][j] < d[i][sorted[m-1]]: shift; sorted[m] = j *)
Fixpoint ins_rev (row : list T) (j : nat) (rl : list nat) : list nat :=
  match rl with
  | [] => [j]
  | e :: rl' => if ltb (nth j row zero) (nth e row zero) then e :: ins_rev row j rl' else j :: rl
  end.
Definition sorted_row (row : list T) (N : nat) : list nat :=
  rev (fold_left (fun rl j => ins_rev row j rl) (seq 1 (N - 1)) [0%nat]).

(* for j in range(1, size): compare d[i][sorted[i][j]] with d[min_pos][sorted[min_pos][j]];
   true = "min_pos = i; break", false = break on > or loop exhausted *)
Fixpoint row_less (js : list nat) (ri rm : nat -> T) : bool :=
  match js with
  | [] => false
  | j :: r => if ltb (ri j) (rm j) then true else if ltb (rm j) (ri j) then false else row_less r ri rm
  end.

Definition find_min (D : list (list T)) (SI : list (list nat)) (N size : nat) : nat :=
  fold_left (fun min_pos i =>
    if row_less (seq 1 (size - 1))
                (fun j => get2 D i (nth j (nth i SI []) 0%nat))
                (fun j => get2 D min_pos (nth j (nth min_pos SI []) 0%nat))
    then i else min_pos) (seq 1 (N - 1)) 0%nat.

(* for j in range(1, size-1): if sorted[i][j] == min_pos: swap(sorted[i][j], sorted[i][j+1]);
   a = current element at position j, r = the rest *)
Fixpoint bubble (mp size : nat) (a : nat) (r : list nat) (j : nat) : list nat :=
  match r with
  | [] => [a]
  | b :: r' =>
      if Nat.leb 1 j && Nat.ltb j (size - 1) && Nat.eqb a mp
      then b :: bubble mp size a r' (S j)
      else a :: bubble mp size b r' (S j)
  end.
Definition bubble_row (mp size : nat) (row : list nat) : list nat :=
  match row with [] => [] | a :: r => bubble mp size a r 0 end.

Record tstate := mkts { ts_D : list (list T); ts_SI : list (list nat); ts_size : nat; ts_rem : list nat }.

Definition trunc_step (N : nat) (s : tstate) : tstate :=
  let mp := find_min (ts_D s) (ts_SI s) N (ts_size s) in
  let D' := tab N (fun i => tab N (fun x =>
              if Nat.eqb i mp || Nat.eqb x mp then n_inf Op else get2 (ts_D s) i x)) in
  let SI' := tab N (fun i => bubble_row mp (ts_size s) (nth i (ts_SI s) [])) in
  mkts D' SI' (ts_size s - 1) (ts_rem s ++ [mp]).

(* while size > k *)
Fixpoint trunc_loop (n : nat) (N : nat) (s : tstate) : tstate :=
  match n with O => s | S n' => trunc_loop n' N (trunc_step N s) end.

(* sorted(to_remove), then deletion from the highest index down *)
Fixpoint ins_nat (x : nat) (l : list nat) : list nat :=
  match l with [] => [x] | y :: r => if Nat.leb x y then x :: l else y :: ins_nat x r end.
Definition sort_nat (l : list nat) : list nat := fold_right ins_nat [] l.

Definition trunc_init (vals : list (list T)) (chosen : list nat) : tstate :=
  let N := length chosen in
  let D := dist_matrix vals chosen N in
  mkts D (tab N (fun i => sorted_row (nth i D []) N)) N [].

Definition trunc_branch (vals : list (list T)) (k : nat) (chosen : list nat) : list nat :=
  let N := length chosen in
  let s := trunc_loop (N - k) N (trunc_init vals chosen) in
  fold_left (fun c idx => remove_nth idx c) (rev (sort_nat (ts_rem s))) chosen.

(* ---- selSPEA2 ---- *)
Definition spea2 (vals wvals : list (list T)) (k : nat) (draws : list Z) : list nat * list Z :=
  let N := length wvals in
  let '(S_, D) := phase1 wvals N in
  let fits := raw_fits S_ D in
  let chosen := nd_indices fits in
  if Nat.ltb (length chosen) k then fill_branch vals N k fits chosen draws
  else if Nat.ltb k (length chosen) then (trunc_branch vals k chosen, draws)
  else (chosen, draws).

(* reference semantics of _randomizedSelect: the element of 0-based rank i in sorted order *)
Fixpoint ins_t (x : T) (l : list T) : list T :=
  match l with [] => [x] | y :: r => if ltb x y then x :: l else y :: ins_t x r end.
Definition sort_t (l : list T) : list T := fold_right ins_t [] l.
Definition kth_smallest (arr : list T) (i : Z) : T := nth (Z.to_nat i) (sort_t arr) zero.

End Spea2.

(* fitness.wvalues = values * weights (base.py: tuple(map(mul, values, self.weights))) *)
Definition wvalues_of {T} (Op : numops T) (weights : list T) (vals : list (list T)) : list (list T) :=
  map (fun v => map2 (n_mul Op) v weights) vals.

(* fitness.values read back = wvalues / weights (base.py getValues: tuple(map(truediv, self.wvalues, self.weights)));
   in binary64 this is not always the assigned value when a weight is not +-1: the distances of selSPEA2 are taken
   on what the getter returns *)
Definition values_of {T} (Op : numops T) (weights : list T) (wvals : list (list T)) : list (list T) :=
  map (fun wv => map2 (n_div Op) wv weights) wvals.
