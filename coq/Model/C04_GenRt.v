(* Statement vocabulary of the regenerated definitions coq/Gen/C04_gen.v (written by
   harness/c04_py2coq.py from the current text of deap/tools/emo.py): loops with early exit,
   Python list primitives with the defaults the hand model uses for the raising cases
   (IndexError / ValueError -> a default value, exactly as in Model/C04_LogSort.v).
   No proofs here (Proofs/C04_GenRtFacts.v). *)
From Coq Require Import List ZArith Bool.
From DV Require Import Base.PyTuple Base.PyList Model.C04_NDSort Model.C04_LogSort.
Import ListNotations.
Local Open Scope Z_scope.

(* ---- loops ---- *)
(* one pass of a loop body: `return v` / `break` / fall through (or `continue`) *)
Inductive ctl (R S : Type) := Ret (r : R) | Brk (s : S) | Nxt (s : S).
Arguments Ret {R S} r.
Arguments Brk {R S} s.
Arguments Nxt {R S} s.

Fixpoint for_loop {A R S} (l : list A) (body : A -> S -> ctl R S) (s : S) : R + S :=
  match l with
  | [] => inr s
  | x :: r => match body x s with
              | Ret v => inl v
              | Brk s' => inr s'
              | Nxt s' => for_loop r body s'
              end
  end.

(* a loop whose body never returns from the function *)
Definition for_brk {A S} (l : list A) (body : A -> S -> ctl Empty_set S) (s : S) : S :=
  match for_loop l body s with inl e => match e with end | inr s' => s' end.

(* ---- sequences ---- *)
(* l[i] on a list, negative indices allowed; d = the value standing for IndexError *)
Definition py_nth {A} (d : A) (l : list A) (i : Z) : A := match py_get l i with Some x => x | None => d end.

(* l[:stop] , l[start:] *)
Definition slice_to {A} (l : list A) (stop : Z) : list A :=
  let n := zlen l in
  let e := if stop <? 0 then Z.max (stop + n) 0 else Z.min stop n in
  firstn (Z.to_nat e) l.
Definition slice_from {A} (l : list A) (start : Z) : list A :=
  let n := zlen l in
  let s := if start <? 0 then Z.max (start + n) 0 else Z.min start n in
  skipn (Z.to_nat s) l.

(* enumerate(l, start) *)
Fixpoint enum_from {A} (start : Z) (l : list A) : list (Z * A) :=
  match l with [] => [] | x :: r => (start, x) :: enum_from (start + 1) r end.

(* l.insert(i, x) ; del l[i]  (Python clamps insert positions; del raises outside the range: no-op default) *)
Definition py_insert {A} (l : list A) (i : Z) (x : A) : list A :=
  let n := zlen l in
  let j := if i <? 0 then Z.max (i + n) 0 else Z.min i n in
  insert_at (Z.to_nat j) x l.
Definition py_del {A} (l : list A) (i : Z) : list A :=
  let n := zlen l in
  let j := if i <? 0 then i + n else i in
  if (j <? 0) || (n <=? j) then l else remove_at (Z.to_nat j) l.

(* sorted(l, key=key): stable, ascending, only `<` on the keys is used *)
Fixpoint ins_key {A} (key : A -> Z) (x : A) (l : list A) : list A :=
  match l with [] => [x] | y :: r => if key x <? key y then x :: l else y :: ins_key key x r end.
Definition sorted_key {A} (key : A -> Z) (l : list A) : list A := fold_left (fun acc x => ins_key key x acc) l [].

(* min(l) / max(l) on numbers (ValueError on the empty list -> 0) *)
Definition zmin_list (l : list Z) : Z := match l with [] => 0 | x :: r => fold_left Z.min r x end.
Definition zmax_list0 (l : list Z) : Z := match l with [] => 0 | x :: r => fold_left Z.max r x end.

(* ---- recursion depth: the regenerated recursive procedures thread explicit fuel like the model ---- *)
Definition obind {A B} (x : option A) (k : A -> option B) : option B :=
  match x with Some a => k a | None => None end.

(* ---- dictionaries keyed by fitness ---- *)
(* dict.fromkeys(l, v): keys in order of first occurrence *)
Definition fromkeys (l : list wvals) (v : Z) : fmap := fold_left (fun m k => kset m k v) l [].

(* l[i].extend(x) on a list of lists (IndexError -> unchanged) *)
Definition py_extend_at {A} (l : list (list A)) (i : Z) (x : list A) : list (list A) :=
  let n := zlen l in
  let j := if i <? 0 then i + n else i in
  if (j <? 0) || (n <=? j) then l else app_at l (Z.to_nat j) x.

(* ---- while loops and loops containing one: explicit bound on the iterations, None = out of fuel ---- *)
Fixpoint while_loop {S} (fuel : nat) (cond : S -> bool) (body : S -> S) (s : S) : option S :=
  match fuel with
  | O => None
  | S fu => if cond s then while_loop fu cond body (body s) else Some s
  end.

Fixpoint fold_opt {A S} (f : S -> A -> option S) (l : list A) (s : S) : option S :=
  match l with
  | [] => Some s
  | x :: r => obind (f s x) (fold_opt f r)
  end.
