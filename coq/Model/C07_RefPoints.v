(* C07 — executable model of deap/tools/emo.py: uniform_reference_points (lines 677-698).
   gen_refs_recursive(ref, nobj, left, total, depth): the recursion is on rem = nobj-1-depth;
   `ref` (a zero vector whose first `depth` entries are assigned) is the list of assigned entries.
   Coordinates are i/total; the model keeps the numerators (gen_num) and divides at the end,
   generically in the numeric operations (exact Q for the theorems, floats for the bit-exact
   replay).  No proofs here. *)
From Coq Require Import List ZArith QArith Bool.
From DV Require Import Base.PyList Base.C07_Num.
Import ListNotations.

(* numerators: depth == nobj-1 -> ref[depth] = left;  else for i in range(left+1): ref[depth] = i; recurse *)
Fixpoint gen_num (rem : nat) (left : nat) (ref : list nat) : list (list nat) :=
  match rem with
  | O => [ref ++ [left]]
  | S rem' => flat_map (fun i => gen_num rem' (left - i) (ref ++ [i])) (seq 0 (S left))
  end.

Definition ref_num (nobj p : nat) : list (list nat) := gen_num (nobj - 1) p [].

Section Refs.
Context {T : Type} (Op : numops T).

(* ref[depth] = i / total *)
Definition ref_points_raw (nobj p : nat) : list (list T) :=
  map (map (fun i => n_div Op (n_ofZ Op (Z.of_nat i)) (n_ofZ Op (Z.of_nat p)))) (ref_num nobj p).

(* ref_points *= scaling; ref_points += (1 - scaling) / nobj *)
Definition scale_points (nobj : nat) (s : T) (pts : list (list T)) : list (list T) :=
  let shift := n_div Op (n_sub Op (n_ofZ Op 1) s) (n_ofZ Op (Z.of_nat nobj)) in
  map (map (fun x => n_add Op (n_mul Op x s) shift)) pts.

Definition ref_points (nobj p : nat) (scaling : option T) : list (list T) :=
  match scaling with
  | None => ref_points_raw nobj p
  | Some s => scale_points nobj s (ref_points_raw nobj p)
  end.
End Refs.

(* the exact instance over plain Q used by the theorems *)
(* results are kept in lowest terms (Qred x == x) so that evaluation stays fast *)
Definition q_ops : numops Q :=
  mkops Q inject_Z (fun x y => Qred (x + y)) (fun x y => Qred (x - y)) (fun x y => Qred (x * y))
        (fun x y => Qred (x / y)) q_ltb Qeq_bool 0%Q (* no infinity in Q: n_inf is unused by these models *).

Definition ref_points_q (nobj p : nat) (scaling : option Q) : list (list Q) := ref_points q_ops nobj p scaling.

(* Pascal's triangle *)
Fixpoint binom (n k : nat) : nat :=
  match k, n with
  | O, _ => 1
  | S _, O => 0
  | S k', S n' => binom n' k' + binom n' k
  end.
