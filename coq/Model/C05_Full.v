(* End-to-end model of deap/tools/emo.py selNSGA2(individuals, k, nd): the dispatch on `nd`, the
   non-dominated sort (property C04's executable models of sortNondominated and
   sortLogNondominated, Model/C04_NDSort.v and Model/C04_LogSort.v, called as the source calls
   them: `(individuals, k)`, first_front_only left at its default False), then the crowding
   assignment and the cut of Model/C05_Nsga2.v on the fronts the sort produced.

       if nd == 'standard':  pareto_fronts = sortNondominated(individuals, k)
       elif nd == 'log':     pareto_fronts = sortLogNondominated(individuals, k)
       else:                 raise Exception('selNSGA2: The choice of non-dominated sorting method ... is invalid.')
       ... (sel_nsga2)

   Bridge between the two representations.  C04's sorters read only `ind.fitness` (the weighted
   values) and move references around: an individual is `(uid, wvalues)` there.  C05's individual
   additionally carries `fitness.values` (what the crowding distance reads).  `to4` forgets the
   values; `back` turns a front returned by the sort into the list of the population's individuals
   with those identities, in the order returned (`select`: uid = position in the input list).
   No proofs here (Proofs/C05_Compose.v). *)
From Coq Require Import List ZArith Bool.
From DV Require Import Base.PyList Model.C05_Nsga2 Model.C05_Spec.
From DV Require Model.C04_NDSort Model.C04_LogSort.
Import ListNotations.

(* the `nd` argument: 'standard', 'log', any other value *)
Inductive nd_choice := NdStandard | NdLog | NdOther.

Section Full.
  Context {A : Type}.
  Notation indA := (ind A).

  Definition to4 (x : indA) : C04_NDSort.ind := (uid x, wv x).
  Definition pop4 (pop : list indA) : list C04_NDSort.ind := map to4 pop.

  Definition back (pop : list indA) (F : list C04_NDSort.ind) : list indA :=
    select pop (map C04_NDSort.uid F).

  (* pareto_fronts; None = an exception (the `else: raise Exception(...)` branch, the IndexError of
     sortLogNondominated on an empty population, exhausted fuel of a sorter -- proved impossible) *)
  Definition nd_fronts (nd : nd_choice) (pop : list indA) (k : nat) : option (list (list indA)) :=
    match nd with
    | NdStandard =>
        match C04_NDSort.sort_nd (pop4 pop) (Z.of_nat k) false with
        | Some fs => Some (map (back pop) fs)
        | None => None
        end
    | NdLog =>
        match C04_LogSort.sort_log (pop4 pop) (Z.of_nat k) false with
        | Some r => Some (map (back pop) (C04_LogSort.log_fronts r))
        | None => None
        end
    | NdOther => None
    end.
End Full.

(* selNSGA2(individuals, k, nd) *)
Definition sel_nsga2_full (o : numops) (nd : nd_choice) (pop : list (ind (V o))) (k : nat)
  : option (list (ind (V o))) :=
  match nd_fronts nd pop k with
  | None => None
  | Some fronts => sel_nsga2 o fronts k
  end.

(* ---- the preconditions under which the theorems about sel_nsga2_full are stated ---- *)
Section Pre.
  Context {A : Type}.
  (* evaluated individuals numbered by position, at least one, all with the same number of objectives *)
  Definition pop_ok (pop : list (ind A)) : Prop :=
    wf_pop pop /\ pop <> [] /\ (forall x y, In x pop -> In y pop -> length (wv x) = length (wv y)).

  (* a valid back-end name; the divide-and-conquer variant needs at least two objectives *)
  Definition nd_ok (nd : nd_choice) (pop : list (ind A)) : Prop :=
    match nd with
    | NdStandard => True
    | NdLog => forall x, In x pop -> 2 <= length (wv x)
    | NdOther => False
    end.

  (* the front in which the cut falls, by sizes of the peeling layers only: the fronts before index m
     hold fewer than min(k, n) individuals, those up to and including m at least that many (k > 0) *)
  Definition cut_at (pop : list (ind A)) (k m : nat) : Prop :=
    total (firstn m (layers pop)) < Nat.min k (length pop) /\
    Nat.min k (length pop) <= total (firstn (S m) (layers pop)).

  Definition pop_ok_b (pop : list (ind A)) : bool :=
    wf_pop_b pop && negb (Nat.eqb (length pop) 0) &&
    match pop with
    | [] => true
    | x0 :: _ => forallb (fun x => Nat.eqb (length (wv x)) (length (wv x0))) pop
    end.

  Definition nd_ok_b (nd : nd_choice) (pop : list (ind A)) : bool :=
    match nd with
    | NdStandard => true
    | NdLog => forallb (fun x => 2 <=? length (wv x)) pop
    | NdOther => false
    end.
End Pre.
