(* Run-time library for the definitions that harness/c09_py2coq.py regenerates from
   deap/tools/crossover.py and deap/tools/mutation.py (coq/Gen/C09_gen.v).  Definitions only.
   Everything the translator emits is either a definition of Model/C09_SeqOps.v (the draw monad,
   getI/setI, for_each, qltb, the typed draw sites), of Base/PyList.v (py_slice, py_slice_assign,
   py_range, py_range3, zip, zlen) or one of the few below. *)
From Coq Require Import List ZArith QArith Bool.
From DV Require Import Base.PyList Model.C09_SeqOps.
Import ListNotations.
Local Open Scope Z_scope.

(* behaviour outside what is modelled (a TypeError of len()/iter() on a number, repeat() of a
   non-number ...): never equal to an observation, and `always` says nothing about it *)
Definition unmodelled {R} : M R := fun _ => Mismatch.

(* the dynamically typed values that the `low` / `up` arguments of mutUniformInt go through:
   an int, a sequence of ints, or the object made by itertools.repeat(int, n) *)
Inductive pyval :=
| VInt (z : Z)
| VSeq (l : list Z)
| VRep (z : Z) (n : Z).

Definition val_of_bound (b : bound) : pyval :=
  match b with BScalar z => VInt z | BSeq l => VSeq l end.

(* isinstance(v, Sequence) *)
Definition is_sequence (v : pyval) : bool :=
  match v with VSeq _ => true | _ => false end.

(* itertools.repeat(v, n) *)
Definition py_repeat (v : pyval) (n : Z) : M pyval :=
  match v with VInt z => ret (VRep z n) | _ => unmodelled end.

(* len(v) *)
Definition py_len (v : pyval) : M Z :=
  match v with VSeq l => ret (zlen l) | _ => unmodelled end.

(* the items iter(v) yields (a repeat object is iterated at most once: checked by the translator) *)
Definition py_iter (v : pyval) : M (list Z) :=
  match v with
  | VSeq l => ret l
  | VRep z n => ret (repeat z (Z.to_nat n))
  | VInt _ => unmodelled
  end.

(* zip(a, b, c), enumerate(l) *)
Definition zip3 {A B C} (a : list A) (b : list B) (c : list C) : list (A * B * C) :=
  map (fun p : A * (B * C) => let '(x, (y, z)) := p in (x, y, z)) (zip a (zip b c)).
Definition py_enumerate {A} (l : list A) : list (Z * A) := zip (py_range (zlen l)) l.

(* type(g)(b) for a bool b: int(b), bool(b), float(b) *)
Definition py_type_call (g : gene) (b : bool) : gene :=
  match g with
  | GInt _ => GInt (if b then 1 else 0)
  | GBool _ => GBool b
  | GFloat _ => GFloat (if b then 1 else 0)
  end.
