(* Executable transcription of deap/tools/emo.py sortNondominated (first_front_only=False), so that
   for nd='standard' the model covers selNSGA2 end to end:  sel_nsga2_std o pop k.
   No theorem about this sorter is proved here (that is property C04's subject); the correspondence
   checks that it returns exactly the fronts (members and order) the implementation returned, and
   fronts_correct is decided on them in every case. *)
From Coq Require Import List ZArith Bool Lia.
From DV Require Import Base.Corr Base.PyList Model.C05_Nsga2 Model.C05_Spec.
Import ListNotations.

Definition zl_eqb := list_eqb Z.eqb.

Section SortStd.
  Context {A : Type}.
  Notation indA := (ind A).

  (* map_fit_ind: keys = distinct fitnesses in first-occurrence order (dict insertion order; Fitness
     hashes and compares by wvalues), values = the individuals carrying them, in input order *)
  Fixpoint fit_keys (pop : list indA) (seen : list (list Z)) : list (list Z) :=
    match pop with
    | [] => seen
    | x :: r => if existsb (zl_eqb (wv x)) seen then fit_keys r seen else fit_keys r (seen ++ [wv x])
    end.

  Definition group_of (pop : list indA) (f : list Z) : list indA := filter (fun x => zl_eqb (wv x) f) pop.

  Definition upd {B} (l : list B) (i : nat) (f : B -> B) (d : B) : list B := set_nth l i (f (nth i l d)).

  (* state of the first double loop: dominating_fits (counts), dominated_fits (lists of fit indices) *)
  Definition p1_inner (i : nat) (fi : list Z) (st : list Z * list (list nat)) (jf : nat * list Z)
    : list Z * list (list nat) :=
    let '(j, fj) := jf in
    let '(cnt, dm) := st in
    if dom fi fj then (upd cnt j Z.succ 0%Z, upd dm i (fun l => l ++ [j]) [])
    else if dom fj fi then (upd cnt i Z.succ 0%Z, upd dm j (fun l => l ++ [i]) [])
    else st.

  Definition p1_outer (fits : list (list Z)) (st : list Z * list (list nat) * list nat) (ifi : nat * list Z)
    : list Z * list (list nat) * list nat :=
    let '(i, fi) := ifi in
    let '(cnt, dm, cur) := st in
    let later := skipn (S i) (combine (seq 0 (length fits)) fits) in      (* fits[i+1:] *)
    let '(cnt', dm') := fold_left (p1_inner i fi) later (cnt, dm) in
    (cnt', dm', if (nth i cnt' 0 =? 0)%Z then cur ++ [i] else cur).

  (* one round of the while loop: for fit_p in current_front: for fit_d in dominated_fits[fit_p]: ... *)
  Definition p2_d (groups : list (list indA)) (st : list Z * list nat * nat * list indA) (d : nat) :=
    let '(cnt, next, sorted, front) := st in
    let cnt' := upd cnt d Z.pred 0%Z in
    if (nth d cnt' 0 =? 0)%Z
    then (cnt', next ++ [d], sorted + length (nth d groups []), front ++ nth d groups [])
    else (cnt', next, sorted, front).

  Fixpoint p2_loop (fuel : nat) (groups : list (list indA)) (dm : list (list nat)) (N : nat)
           (cnt : list Z) (cur : list nat) (sorted : nat) (fronts : list (list indA)) : option (list (list indA)) :=
    if sorted <? N then
      match fuel with
      | O => None
      | S f =>
          let '(cnt', next, sorted', front) :=
            fold_left (fun st p => fold_left (p2_d groups) (nth p dm []) st) cur (cnt, [], sorted, []) in
          p2_loop f groups dm N cnt' next sorted' (fronts ++ [front])
      end
    else Some fronts.

  Definition sort_nd (pop : list indA) (k : nat) : option (list (list indA)) :=
    match k with
    | O => Some []
    | _ =>
        let fits := fit_keys pop [] in
        let nf := length fits in
        let groups := map (group_of pop) fits in
        let '(cnt, dm, cur) :=
          fold_left (p1_outer fits) (combine (seq 0 nf) fits) (repeat 0%Z nf, repeat [] nf, []) in
        let front0 := flat_map (fun i => nth i groups []) cur in
        p2_loop (S nf) groups dm (Nat.min (length pop) k) cnt cur (length front0) [front0]
    end.
End SortStd.

Definition sel_nsga2_std (o : numops) (pop : list (ind (V o))) (k : nat) : option (list (ind (V o))) :=
  match sort_nd pop k with
  | None => None
  | Some fronts => sel_nsga2 o fronts k
  end.
