(* Model for C15 — hypervolume (deap/tools/_hypervolume/{_hv.c,hv.cpp,pyhv.py}),
   deap/tools/indicator.py (least contributor), deap/benchmarks/tools.py (population hypervolume).

   Executable definitions only (no proofs): this file still evaluates when a proof breaks.

   Numbers are rationals (QArith).  Minimisation convention, as in the routines: a point p spans
   the box [p, ref) = { x | p_i <= x_i < ref_i for every i }.

   What is modelled
   ----------------
   * [hv ref pts]            HSO ("hypervolume by slicing objectives"): slice on one coordinate, recurse on
                             the projections of the points below the slice.  The dimension-sweep data
                             structures of _hv.c / pyhv.py (multi-list, AVL tree, area/volume caches, ignore
                             flags, bounds) are NOT modelled; their input/output behaviour is tied to [hv]
                             by the correspondence run.
   * [grid_measure ref pts]  the Lebesgue measure of the union of the boxes written as a finite sum over the
                             cells of the grid induced by all coordinates (no measure-theory library is
                             installed: the step "measure of a disjoint union of boxes = sum of the volumes"
                             is the mathematical reading of this definition, not a Coq theorem).
   * [wobj], [default_ref], [pop_hv]   benchmarks/tools.py hypervolume(front, ref=None)
   * [least_contributor], [indicator]  tools/indicator.py hypervolume(front, ref=...)

   The slicing coordinate is the FIRST one (head of the list) because that makes the recursion
   structural; [hv_last] slices on the last coordinate as the HSO description does.  Both are the same
   function of the point set (Proofs/C15_HV.v: both equal a grid measure). *)
From Coq Require Import List QArith Bool.
Import ListNotations.
Local Open Scope Q_scope.

Definition point := list Q.

(* first coordinate; the default only matters for points shorter than the reference *)
Definition hd0 (p : point) : Q := match p with [] => 0 | x :: _ => x end.

Definition Qltb (x y : Q) : bool := match x ?= y with Lt => true | _ => false end.

(* projections (first coordinate dropped) of the points whose first coordinate is <= z *)
Definition slice (z : Q) (pts : list point) : list point :=
  map (@tl Q) (filter (fun p => Qle_bool (hd0 p) z) pts).

(* insertion into a strictly increasing list, dropping duplicates (w.r.t. ==) *)
Fixpoint insq (x : Q) (l : list Q) : list Q :=
  match l with
  | [] => [x]
  | y :: l' => match x ?= y with
               | Lt => x :: l
               | Eq => l
               | Gt => y :: insq x l'
               end
  end.

(* the distinct first coordinates below r, increasing *)
Definition breaks (r : Q) (pts : list point) : list Q :=
  fold_right insq [] (filter (fun z => Qltb z r) (map hd0 pts)).

Fixpoint pairs_from (lo : Q) (bs : list Q) : list (Q * Q) :=
  match bs with
  | [] => []
  | b :: bs' => (lo, b) :: pairs_from b bs'
  end.

(* consecutive pairs (b_j, b_{j+1}) *)
Definition intervals (bs : list Q) : list (Q * Q) :=
  match bs with
  | [] => []
  | b :: bs' => pairs_from b bs'
  end.

Definition Qsum (l : list Q) : Q := fold_right Qplus 0 l.

(* sum over the intervals of (length * F(left end)) *)
Definition integrate (F : Q -> Q) (bs : list Q) : Q :=
  Qsum (map (fun iv => (snd iv - fst iv) * F (fst iv)) (intervals bs)).

(* HSO.  Dimension 0: the one-point space has measure 1 iff some box is present.
   Qred only keeps the numbers small during evaluation. *)
Fixpoint hv (ref : list Q) (pts : list point) : Q :=
  match ref with
  | [] => match pts with [] => 0 | _ :: _ => 1 end
  | r :: ref' =>
      Qred (integrate (fun z => hv ref' (slice z pts)) (breaks r pts ++ [r]))
  end.

(* slicing on the last coordinate *)
Definition hv_last (ref : list Q) (pts : list point) : Q :=
  hv (rev ref) (map (@rev Q) pts).

(* ---- the measure as a finite sum over grid cells ---- *)
Definition cell := list (Q * Q).

Fixpoint cells (axes : list (list Q)) : list cell :=
  match axes with
  | [] => [[]]
  | ax :: axes' => flat_map (fun iv => map (cons iv) (cells axes')) (intervals ax)
  end.

Definition cell_vol (c : cell) : Q :=
  fold_right (fun iv acc => (snd iv - fst iv) * acc) 1 c.

(* p_i <= (lower corner of c)_i for every i, i.e. the cell lies in the box of p (see
   Proofs: cell_homogeneous) *)
Fixpoint corner_dominated (p : point) (c : cell) : bool :=
  match c with
  | [] => true
  | iv :: c' => Qle_bool (hd0 p) (fst iv) && corner_dominated (tl p) c'
  end.

Definition covered (pts : list point) (c : cell) : bool :=
  existsb (fun p => corner_dominated p c) pts.

Definition gmeasure (axes : list (list Q)) (pts : list point) : Q :=
  Qsum (map (fun c => if covered pts c then cell_vol c else 0) (cells axes)).

(* axis i: the distinct i-th coordinates below ref_i, then ref_i *)
Fixpoint induced_axes (ref : list Q) (pts : list point) : list (list Q) :=
  match ref with
  | [] => []
  | r :: ref' => (breaks r pts ++ [r]) :: induced_axes ref' (map (@tl Q) pts)
  end.

Definition grid_measure (ref : list Q) (pts : list point) : Q :=
  gmeasure (induced_axes ref pts) pts.

(* ---- wrappers ---- *)
Fixpoint map2 {A B C} (f : A -> B -> C) (a : list A) (b : list B) : list C :=
  match a, b with
  | x :: a', y :: b' => f x y :: map2 f a' b'
  | _, _ => []
  end.

(* numpy.array([ind.fitness.wvalues for ind in front]) * -1, wvalues = values * weights *)
Definition wobj (w : list Q) (vals : list (list Q)) : list point :=
  map (fun v => map2 (fun x wi => - (x * wi)) v w) vals.

Definition Qmax (a b : Q) : Q := if Qle_bool a b then b else a.

(* numpy.max(wobj, axis=0) *)
Definition colmax (pts : list point) : list Q :=
  match pts with
  | [] => []
  | p :: rest => fold_left (map2 Qmax) rest p
  end.

(* ref = numpy.max(wobj, axis=0) + 1 *)
Definition default_ref (pts : list point) : list Q := map (fun c => c + 1) (colmax pts).

Definition the_ref (refo : option (list Q)) (pts : list point) : list Q :=
  match refo with Some r => r | None => default_ref pts end.

(* benchmarks.tools.hypervolume(front, ref) *)
Definition pop_hv (w : list Q) (vals : list (list Q)) (refo : option (list Q)) : Q :=
  let P := wobj w vals in hv (the_ref refo P) P.

Fixpoint remove_nth {A} (i : nat) (l : list A) : list A :=
  match l, i with
  | [], _ => []
  | _ :: t, O => t
  | h :: t, S i' => h :: remove_nth i' t
  end.

(* contrib_values = [hv(wobj without i, ref) for i in range(len(front))] *)
Definition loo (ref : list Q) (pts : list point) : list Q :=
  map (fun i => hv ref (remove_nth i pts)) (seq 0 (length pts)).

(* numpy.argmax: index of the FIRST maximum *)
Fixpoint argmax_from (best : Q) (bi i : nat) (l : list Q) : nat :=
  match l with
  | [] => bi
  | x :: l' => if Qltb best x then argmax_from x i (S i) l' else argmax_from best bi (S i) l'
  end.

Definition argmax (l : list Q) : nat :=
  match l with
  | [] => O
  | x :: l' => argmax_from x O 1%nat l'
  end.

Definition least_contributor (ref : list Q) (pts : list point) : nat := argmax (loo ref pts).

(* tools.indicator.hypervolume(front, ref=...) *)
Definition indicator (w : list Q) (vals : list (list Q)) (refo : option (list Q)) : nat :=
  let P := wobj w vals in least_contributor (the_ref refo P) P.
