(* Model of the tree part of deap/gp.py (executable definitions only, no proofs):
   PrimitiveTree.searchSubtree / height / __setitem__, generate (genFull, genGrow,
   genHalfAndHalf), cxOnePoint, cxOnePointLeafBiased, mutUniform, mutNodeReplacement,
   mutEphemeral, mutInsert, mutShrink, staticLimit.

   Conventions
   * a tree is a Python list of nodes in prefix order = `list node`;
   * Python types are small numbers (`ty`), `tobj` is `object` (gp.__type__);
   * the primitive set is the pair of type-indexed tables pset.primitives / pset.terminals
     (defaultdict(list): a missing key reads as []) plus pset.ret and the float value of
     pset.terminalRatio as an exact fraction;  Model/C11_PSet.v models how `_add` fills the tables;
   * every `random.*` call site consumes one recorded draw; a draw of the wrong kind, with other
     arguments than the call site computes, or outside the range `random` guarantees is `EDraw`;
   * Python exceptions are error values: EEmpty = IndexError of random.choice([]) (the set offers
     nothing at a requested type), EIndex = any other IndexError, EValue = ValueError,
     EFuel = loop fuel exhausted (proved impossible). *)
From Coq Require Import List ZArith NArith Bool.
Import ListNotations.
Local Open Scope Z_scope.

Definition ty := N.
Definition tobj : ty := 0%N.

Record node := mknode { nname : N; nargs : list ty; nret : ty; neph : bool; nval : Z }.

Definition arity (n : node) : nat := length (nargs n).
Definition zarity (n : node) : Z := Z.of_nat (arity n).
Definition set_val (n : node) (v : Z) : node := mknode (nname n) (nargs n) (nret n) (neph n) v.

Fixpoint tys_eqb (a b : list ty) : bool :=
  match a, b with
  | [], [] => true
  | x :: a', y :: b' => N.eqb x y && tys_eqb a' b'
  | _, _ => false
  end.
Definition mem_ty (t : ty) (l : list ty) : bool := existsb (N.eqb t) l.
Definition node_eqb (a b : node) : bool :=
  N.eqb (nname a) (nname b) && tys_eqb (nargs a) (nargs b) && N.eqb (nret a) (nret b) &&
  Bool.eqb (neph a) (neph b) && Z.eqb (nval a) (nval b).

Definition zlen {A} (l : list A) : Z := Z.of_nat (length l).

(* ---------------------------------------------------------------- results, draws *)
Inductive err := EDraw | EEmpty | EIndex | EValue | EFuel.
Inductive res (A : Type) := Ok (a : A) | Err (e : err).
Arguments Ok {A} a.
Arguments Err {A} e.

Inductive draw :=
| DRandom (num : Z) (den : positive)        (* random.random() = num/den *)
| DRandint (lo hi r : Z)                    (* random.randint(lo, hi) = r *)
| DRandrange (lo hi r : Z)                  (* random.randrange(lo, hi) = r *)
| DChoice (n i : Z)                         (* random.choice(seq), len(seq) = n, element seq[i] *)
| DEph (name : N) (v : Z).                  (* ephemeral generator call: value v *)

Definition M (A : Type) := list draw -> res (A * list draw).
Definition ret {A} (a : A) : M A := fun ds => Ok (a, ds).
Definition fail {A} (e : err) : M A := fun _ => Err e.
Definition bind {A B} (m : M A) (f : A -> M B) : M B :=
  fun ds => match m ds with Ok (a, ds') => f a ds' | Err e => Err e end.
Definition lift {A} (r : res A) : M A :=
  fun ds => match r with Ok a => Ok (a, ds) | Err e => Err e end.
Notation "x <- m ;; f" := (bind m (fun x => f)) (at level 61, m at next level, right associativity).

Definition d_random : M (Z * positive) := fun ds =>
  match ds with
  | DRandom n d :: r => if (0 <=? n) && (n <? Zpos d) then Ok ((n, d), r) else Err EDraw
  | _ => Err EDraw
  end.
Definition d_randint (lo hi : Z) : M Z := fun ds =>
  if hi <? lo then Err EValue else
  match ds with
  | DRandint lo' hi' r :: rest =>
      if (lo =? lo') && (hi =? hi') && (lo <=? r) && (r <=? hi) then Ok (r, rest) else Err EDraw
  | _ => Err EDraw
  end.
Definition d_randrange (lo hi : Z) : M Z := fun ds =>
  if hi <=? lo then Err EValue else
  match ds with
  | DRandrange lo' hi' r :: rest =>
      if (lo =? lo') && (hi =? hi') && (lo <=? r) && (r <? hi) then Ok (r, rest) else Err EDraw
  | _ => Err EDraw
  end.
Definition d_choice {A} (l : list A) : M A := fun ds =>
  match l with
  | [] => Err EEmpty
  | _ =>
    match ds with
    | DChoice n i :: rest =>
        if (n =? zlen l) && (0 <=? i) then
          match nth_error l (Z.to_nat i) with Some x => Ok (x, rest) | None => Err EDraw end
        else Err EDraw
    | _ => Err EDraw
    end
  end.
Definition d_eph (name : N) : M Z := fun ds =>
  match ds with
  | DEph nm v :: rest => if N.eqb nm name then Ok (v, rest) else Err EDraw
  | _ => Err EDraw
  end.

(* num/den < pn/pd *)
Definition lt_frac (u : Z * positive) (pn : Z) (pd : positive) : bool :=
  fst u * Zpos pd <? pn * Zpos (snd u).

(* ---------------------------------------------------------------- PrimitiveTree *)
(* searchSubtree: end = begin + 1; total = self[begin].arity;
   while total > 0: total += self[end].arity - 1; end += 1 *)
Fixpoint span_loop (suffix : list node) (total : Z) (e : nat) : res nat :=
  if 0 <? total then
    match suffix with
    | [] => Err EIndex
    | n :: r => span_loop r (total + zarity n - 1) (S e)
    end
  else Ok e.

Definition search_subtree (l : list node) (b : nat) : res (nat * nat) :=
  match nth_error l b with
  | None => Err EIndex
  | Some n => match span_loop (skipn (S b) l) (zarity n) (S b) with
              | Ok e => Ok (b, e)
              | Err x => Err x
              end
  end.

(* searchSubtree(begin) as called from Python: a negative index counts from the end
   (repo commit 992a71c "fix: PrimitiveTree.searchSubtree accepts a negative index") *)
Definition search_subtree_py (l : list node) (begin : Z) : res (nat * nat) :=
  let b := if begin <? 0 then begin + zlen l else begin in
  if b <? 0 then Err EIndex else search_subtree l (Z.to_nat b).

(* height: stack = [0]; for elem: depth = stack.pop(); max_depth = max(max_depth, depth);
   stack.extend([depth + 1] * elem.arity).   head of the Coq list = end of the Python list *)
Fixpoint height_loop (l : list node) (stack : list Z) (maxd : Z) : res Z :=
  match l with
  | [] => Ok maxd
  | n :: r => match stack with
              | [] => Err EIndex
              | d :: st => height_loop r (repeat (d + 1) (arity n) ++ st) (Z.max maxd d)
              end
  end.
Definition height (l : list node) : res Z := height_loop l [0] 0.

Definition get_slice {A} (l : list A) (b e : nat) : list A := firstn (e - b) (skipn b l).

(* __setitem__ with a slice key: start >= len -> IndexError; val[0] -> IndexError when empty;
   arity total <> 0 -> ValueError; then list slice assignment (0 <= b <= e) *)
Definition set_slice (l : list node) (b e : nat) (val : list node) : res (list node) :=
  if (length l <=? b)%nat then Err EIndex else
  match val with
  | [] => Err EIndex
  | v0 :: vr =>
      let total := fold_left (fun t n => t + zarity n - 1) vr (zarity v0) in
      if total =? 0 then Ok (firstn b l ++ val ++ skipn (Nat.max b e) l) else Err EValue
  end.

Fixpoint set_nth {A} (l : list A) (k : nat) (v : A) : list A :=
  match l, k with
  | [], _ => []
  | _ :: r, O => v :: r
  | x :: r, S k' => x :: set_nth r k' v
  end.

(* __setitem__ with an integer key *)
Definition set_item (l : list node) (i : nat) (v : node) : res (list node) :=
  match nth_error l i with
  | None => Err EIndex
  | Some old => if Nat.eqb (arity v) (arity old) then Ok (set_nth l i v) else Err EValue
  end.

(* tree[i] = v with a Python index (self[key] resolves negative keys) *)
Definition set_item_py (l : list node) (i : Z) (v : node) : res (list node) :=
  let n := zlen l in
  let j := if i <? 0 then i + n else i in
  if (j <? 0) || (n <=? j) then Err EIndex else set_item l (Z.to_nat j) v.

(* ---------------------------------------------------------------- primitive set *)
Record pset := mkpset {
  p_prims : list (ty * list node);
  p_terms : list (ty * list node);
  p_ret : ty;
  p_rnum : Z; p_rden : positive      (* float value of pset.terminalRatio *)
}.

Fixpoint lookup (tbl : list (ty * list node)) (t : ty) : list node :=
  match tbl with
  | [] => []
  | (k, v) :: r => if N.eqb k t then v else lookup r t
  end.
Definition prims (ps : pset) (t : ty) := lookup (p_prims ps) t.
Definition terms (ps : pset) (t : ty) := lookup (p_terms ps) t.

(* `if type(term) is MetaEphemeral: term = term()` / `if isclass(term): term = term()` *)
Definition instantiate (n : node) : M node :=
  if neph n then v <- d_eph (nname n) ;; ret (set_val n v) else ret n.

(* ---------------------------------------------------------------- generate *)
Inductive gmode := GFull | GGrow.

Definition condition (ps : pset) (mode : gmode) (minh height depth : Z) : M bool :=
  match mode with
  | GFull => ret (depth =? height)
  | GGrow =>
      if depth =? height then ret true
      else if minh <=? depth then u <- d_random ;; ret (lt_frac u (p_rnum ps) (p_rden ps))
      else ret false
  end.

(* the `while len(stack) != 0` loop; `acc` is expr reversed; head of `stack` = Python's stack[-1] *)
Fixpoint gen_loop (fuel : nat) (ps : pset) (mode : gmode) (minh height : Z)
         (stack : list (Z * ty)) (acc : list node) : M (list node) :=
  match stack with
  | [] => ret (rev acc)
  | (depth, t) :: st =>
    match fuel with
    | O => fail EFuel
    | S f =>
      c <- condition ps mode minh height depth ;;
      if c then
        term <- d_choice (terms ps t) ;;
        term' <- instantiate term ;;
        gen_loop f ps mode minh height st (term' :: acc)
      else
        prim <- d_choice (prims ps t) ;;
        gen_loop f ps mode minh height
                 (map (fun a => (depth + 1, a)) (nargs prim) ++ st) (prim :: acc)
    end
  end.

(* every iteration consumes a draw, so the number of recorded draws bounds the iterations *)
Definition generate (ps : pset) (mode : gmode) (minh maxh : Z) (t : ty) : M (list node) :=
  fun ds =>
    (h <- d_randint minh maxh ;; gen_loop (S (length ds)) ps mode minh h [(0, t)] []) ds.

Inductive gkind := KFull | KGrow | KHalf.
Record gexpr := mkgexpr { g_kind : gkind; g_min : Z; g_max : Z }.

(* genFull / genGrow / genHalfAndHalf (pset, min_, max_, type_=None) *)
Definition gen_expr (ps : pset) (g : gexpr) (t : option ty) : M (list node) :=
  let t' := match t with Some x => x | None => p_ret ps end in
  match g_kind g with
  | KFull => generate ps GFull (g_min g) (g_max g) t'
  | KGrow => generate ps GGrow (g_min g) (g_max g) t'
  | KHalf => m <- d_choice [GGrow; GFull] ;; generate ps m (g_min g) (g_max g) t'
  end.

(* ---------------------------------------------------------------- crossover *)
Definition enumerate {A} (l : list A) : list (nat * A) := combine (seq 0 (length l)) l.

(* indices idx >= 1 with keep(node) and node.ret == t : types[t] of the defaultdict *)
Definition idx_of_type (keep : node -> bool) (l : list node) (t : ty) : list nat :=
  map fst (filter (fun p => keep (snd p) && N.eqb (nret (snd p)) t) (tl (enumerate l))).

Fixpoint dedup (l : list ty) : list ty :=
  match l with
  | [] => []
  | x :: r => x :: filter (fun y => negb (N.eqb x y)) (dedup r)
  end.
Definition type_keys (keep : node -> bool) (l : list node) : list ty :=
  dedup (map nret (filter keep (tl l))).
(* [type_ for type_ in types1 if type_ in types2]: keys of types1 in order of first appearance *)
Definition common_types (keep1 keep2 : node -> bool) (l1 l2 : list node) : list ty :=
  filter (fun t => mem_ty t (type_keys keep2 l2)) (type_keys keep1 l1).

(* ind1[slice1], ind2[slice2] = ind2[slice2], ind1[slice1] *)
Definition swap_subtrees (l1 l2 : list node) (i1 i2 : nat) : M (list node * list node) :=
  s1 <- lift (search_subtree l1 i1) ;;
  s2 <- lift (search_subtree l2 i2) ;;
  let sub1 := get_slice l1 (fst s1) (snd s1) in
  let sub2 := get_slice l2 (fst s2) (snd s2) in
  l1' <- lift (set_slice l1 (fst s1) (snd s1) sub2) ;;
  l2' <- lift (set_slice l2 (fst s2) (snd s2) sub1) ;;
  ret (l1', l2').

(* the same statement when ind1 and ind2 are ONE list object: both slices are computed first, the first
   assignment changes the list, the second uses the stale slice on the changed list *)
Definition swap_same (l _l : list node) (i1 i2 : nat) : M (list node * list node) :=
  s1 <- lift (search_subtree l i1) ;;
  s2 <- lift (search_subtree l i2) ;;
  let sub1 := get_slice l (fst s1) (snd s1) in
  let sub2 := get_slice l (fst s2) (snd s2) in
  l' <- lift (set_slice l (fst s1) (snd s1) sub2) ;;
  l'' <- lift (set_slice l' (fst s2) (snd s2) sub1) ;;
  ret (l'', l'').

Definition all_nodes (n : node) := true.

Definition swapper := list node -> list node -> nat -> nat -> M (list node * list node).

Definition cx_one_point_with (swap : swapper) (l1 l2 : list node) : M (list node * list node) :=
  if (length l1 <? 2)%nat || (length l2 <? 2)%nat then ret (l1, l2) else
  match l1 with
  | [] => ret (l1, l2)
  | root :: _ =>
    if N.eqb (nret root) tobj then
      (* "Not STGP optimization" *)
      t <- d_choice [tobj] ;;
      i1 <- d_choice (seq 1 (length l1 - 1)) ;;
      i2 <- d_choice (seq 1 (length l2 - 1)) ;;
      swap l1 l2 i1 i2
    else
      let commons := common_types all_nodes all_nodes l1 l2 in
      match commons with
      | [] => ret (l1, l2)
      | _ =>
        t <- d_choice commons ;;
        i1 <- d_choice (idx_of_type all_nodes l1 t) ;;
        i2 <- d_choice (idx_of_type all_nodes l2 t) ;;
        swap l1 l2 i1 i2
      end
  end.
(* two distinct tree objects / the same object passed twice *)
Definition cx_one_point := cx_one_point_with swap_subtrees.
Definition cx_one_point_same (l : list node) := cx_one_point_with swap_same l l.

Definition is_term (n : node) : bool := Nat.eqb (arity n) 0.     (* partial(eq, 0) *)
Definition is_prim (n : node) : bool := (0 <? arity n)%nat.       (* partial(lt, 0) *)

Definition cx_leaf_biased_with (swap : swapper) (pn : Z) (pd : positive) (l1 l2 : list node) : M (list node * list node) :=
  if (length l1 <? 2)%nat || (length l2 <? 2)%nat then ret (l1, l2) else
  u1 <- d_random ;;
  u2 <- d_random ;;
  let op1 := if lt_frac u1 pn pd then is_term else is_prim in
  let op2 := if lt_frac u2 pn pd then is_term else is_prim in
  let commons := common_types op1 op2 l1 l2 in
  match commons with
  | [] => ret (l1, l2)
  | _ =>
    t <- d_choice commons ;;
    i1 <- d_choice (idx_of_type op1 l1 t) ;;
    i2 <- d_choice (idx_of_type op2 l2 t) ;;
    swap l1 l2 i1 i2
  end.
Definition cx_leaf_biased := cx_leaf_biased_with swap_subtrees.
Definition cx_leaf_biased_same pn pd (l : list node) := cx_leaf_biased_with swap_same pn pd l l.

(* ---------------------------------------------------------------- mutations *)
Definition mut_uniform (ps : pset) (g : gexpr) (l : list node) : M (list node) :=
  zi <- d_randrange 0 (zlen l) ;;
  let index := Z.to_nat zi in
  s <- lift (search_subtree l index) ;;
  match nth_error l index with
  | None => fail EIndex
  | Some nd =>
    new <- gen_expr ps g (Some (nret nd)) ;;
    lift (set_slice l (fst s) (snd s) new)
  end.

Definition mut_node_replacement (ps : pset) (l : list node) : M (list node) :=
  if (length l <? 2)%nat then ret l else
  zi <- d_randrange 1 (zlen l) ;;
  let index := Z.to_nat zi in
  match nth_error l index with
  | None => fail EIndex
  | Some nd =>
    if Nat.eqb (arity nd) 0 then
      term <- d_choice (terms ps (nret nd)) ;;
      term' <- instantiate term ;;
      lift (set_item l index term')
    else
      p <- d_choice (filter (fun p => tys_eqb (nargs p) (nargs nd)) (prims ps (nret nd))) ;;
      lift (set_item l index p)
  end.

Inductive emode := EOne | EAll | EOther.

Fixpoint eph_fold (l : list node) (idxs : list nat) : M (list node) :=
  match idxs with
  | [] => ret l
  | i :: r =>
    match nth_error l i with
    | None => fail EIndex
    | Some n =>
      v <- d_eph (nname n) ;;
      l' <- lift (set_item l i (set_val n v)) ;;
      eph_fold l' r
    end
  end.

Definition mut_ephemeral (mode : emode) (l : list node) : M (list node) :=
  match mode with
  | EOther => fail EValue
  | _ =>
    let idxs := map fst (filter (fun p => neph (snd p)) (enumerate l)) in
    match idxs with
    | [] => ret l
    | _ =>
      idxs' <- (match mode with EOne => (i <- d_choice idxs ;; ret [i]) | _ => ret idxs end) ;;
      eph_fold l idxs'
    end
  end.

(* [i for i, a in enumerate(args) if a == t] *)
Definition positions (t : ty) (args : list ty) : list nat :=
  map fst (filter (fun p => N.eqb (snd p) t) (enumerate args)).

(* new_subtree without its root: one fresh terminal per argument except `position`, where the
   old subtree goes; draws happen left to right *)
Fixpoint insert_fill (ps : pset) (old : list node) (position i : nat) (args : list ty) : M (list node) :=
  match args with
  | [] => ret []
  | a :: r =>
    if Nat.eqb i position then
      rest <- insert_fill ps old position (S i) r ;; ret (old ++ rest)
    else
      term <- d_choice (terms ps a) ;;
      term' <- instantiate term ;;
      rest <- insert_fill ps old position (S i) r ;;
      ret (term' :: rest)
  end.

Definition mut_insert (ps : pset) (l : list node) : M (list node) :=
  zi <- d_randrange 0 (zlen l) ;;
  let index := Z.to_nat zi in
  match nth_error l index with
  | None => fail EIndex
  | Some nd =>
    s <- lift (search_subtree l index) ;;
    let cands := filter (fun p => mem_ty (nret nd) (nargs p)) (prims ps (nret nd)) in
    match cands with
    | [] => ret l
    | _ =>
      new_node <- d_choice cands ;;
      position <- d_choice (positions (nret nd) (nargs new_node)) ;;
      body <- insert_fill ps (get_slice l (fst s) (snd s)) position 0 (nargs new_node) ;;
      lift (set_slice l (fst s) (snd s) (new_node :: body))
    end
  end.

(* for _ in range(arg_idx + 1): rslice = searchSubtree(rindex); subtree = ind[rslice];
   rindex += len(subtree) *)
Fixpoint shrink_walk (l : list node) (rindex : nat) (k : nat) (subtree : list node) : res (list node) :=
  match k with
  | O => Ok subtree
  | S k' =>
    match search_subtree l rindex with
    | Err e => Err e
    | Ok (b, e) => let s := get_slice l b e in shrink_walk l (rindex + length s) k' s
    end
  end.

Definition mut_shrink (l : list node) : M (list node) :=
  if (length l <? 3)%nat then ret l else
  h <- lift (height l) ;;
  if h <=? 1 then ret l else
  let iprims := filter (fun p => mem_ty (nret (snd p)) (nargs (snd p))) (tl (enumerate l)) in
  match iprims with
  | [] => ret l
  | _ =>
    ip <- d_choice iprims ;;
    let index := fst ip in
    let prim := snd ip in
    arg_idx <- d_choice (positions (nret prim) (nargs prim)) ;;
    subtree <- lift (shrink_walk l (S index) (S arg_idx) []) ;;
    s <- lift (search_subtree l index) ;;
    lift (set_slice l (fst s) (snd s) subtree)
  end.

(* ---------------------------------------------------------------- operators as data, staticLimit *)
Inductive opcall :=
| OCx | OCxLB (pn : Z) (pd : positive)
| OCxSame | OCxLBSame (pn : Z) (pd : positive)      (* the same tree object passed twice *)
| OMutUniform (g : gexpr) | OMutNodeRepl | OMutEph (m : emode) | OMutInsert | OMutShrink.

Definition pair_list {A} (p : A * A) : list A := [fst p; snd p].

(* func( *args ): the individuals are the positional arguments, the result a tuple of trees *)
Definition run_op (ps : pset) (oc : opcall) (inputs : list (list node)) : M (list (list node)) :=
  match oc, inputs with
  | OCx, [a; b] => p <- cx_one_point a b ;; ret (pair_list p)
  | OCxLB pn pd, [a; b] => p <- cx_leaf_biased pn pd a b ;; ret (pair_list p)
  | OCxSame, [a] => p <- cx_one_point_same a ;; ret (pair_list p)
  | OCxLBSame pn pd, [a] => p <- cx_leaf_biased_same pn pd a ;; ret (pair_list p)
  | OMutUniform g, [a] => x <- mut_uniform ps g a ;; ret [x]
  | OMutNodeRepl, [a] => x <- mut_node_replacement ps a ;; ret [x]
  | OMutEph m, [a] => x <- mut_ephemeral m a ;; ret [x]
  | OMutInsert, [a] => x <- mut_insert ps a ;; ret [x]
  | OMutShrink, [a] => x <- mut_shrink a ;; ret [x]
  | _, _ => fail EValue
  end.

Inductive lkey := KHeight | KLen.     (* operator.attrgetter('height') | len *)
Definition measure (k : lkey) (l : list node) : res Z :=
  match k with KHeight => height l | KLen => Ok (zlen l) end.

(* keep_inds = copies of args; new_inds = list(func( *args ));
   for i, ind: if key(ind) > max_value: new_inds[i] = random.choice(keep_inds) *)
Fixpoint limit_fold (k : lkey) (maxv : Z) (keep outs : list (list node)) : M (list (list node)) :=
  match outs with
  | [] => ret []
  | o :: r =>
    m <- lift (measure k o) ;;
    o' <- (if maxv <? m then d_choice keep else ret o) ;;
    r' <- limit_fold k maxv keep r ;;
    ret (o' :: r')
  end.

Definition static_limit (k : lkey) (maxv : Z) (op : list (list node) -> M (list (list node)))
           (inputs : list (list node)) : M (list (list node)) :=
  outs <- op inputs ;; limit_fold k maxv inputs outs.
