(* Model of deap/tools/selection.py (all ten operators) and selTournamentDCD of deap/tools/emo.py.
   Executable definitions only.

   Individuals carry an object id (uid), the stored weighted values `fitness.wvalues`
   (rationals: every finite float is one), their length `len(ind)` and the attribute
   `fitness.crowding_dist` (None = +inf).  `fitness.values` is computed from wvalues and the
   class attribute `weights` exactly as base.py does (tuple(map(truediv, wvalues, weights))).

   Randomness: every call of random.choice / random.random / random.shuffle / random.sample
   consumes one recorded draw; random.uniform(a, b) is a + (b - a) * random.random() (CPython).
   A draw of the wrong kind, for a sequence of another length, or outside the range guaranteed by
   CPython's `random` yields Mismatch.  Exceptions of the implementation are Raise.

   Out of the model: negative k, individuals whose fitness tuple is shorter than that of
   individuals[0] (IndexError in the lexicase operators), zero weights (ZeroDivisionError in
   `values`), a missing crowding_dist attribute. *)
From Coq Require Import List Bool Arith QArith Qabs.
From DV Require Import Base.PyList Base.C06_Py.
Import ListNotations.

Record ind := mkind { uid : nat; wv : list Q; size : nat; cd : option Q }.

Inductive draw :=
| DChoice (n i : nat)            (* random.choice(seq) with len(seq) = n returned seq[i] *)
| DRandom (u : Q)                (* random.random() returned u *)
| DShuffle (p : list nat)        (* random.shuffle(x): new x[j] = old x[p[j]] *)
| DSample (n : nat) (idx : list nat). (* random.sample(pop, k) with len(pop) = n returned [pop[i] for i in idx] *)

(* OtherError is never produced by the model: it stands for any other exception observed on the
   implementation, so that such an observation is a disagreement *)
Inductive exn := IndexError | ZeroDivisionError | ValueError | AssertionError | OtherError.

Inductive res (A : Type) :=
| Ok (a : A) (rest : list draw)
| Raise (e : exn)
| Mismatch.
Arguments Ok {A} a rest.
Arguments Raise {A} e.
Arguments Mismatch {A}.

Definition M (A : Type) := list draw -> res A.
Definition ret {A} (a : A) : M A := fun ds => Ok a ds.
Definition raise {A} (e : exn) : M A := fun _ => Raise e.
Definition bind {A B} (m : M A) (f : A -> M B) : M B :=
  fun ds => match m ds with
            | Ok a ds1 => f a ds1
            | Raise e => Raise e
            | Mismatch => Mismatch
            end.
Notation "x <- m ;; f" := (bind m (fun x => f)) (at level 61, m at next level, right associativity).

(* `for i in range(k): chosen.append(body())` *)
Fixpoint repeatM {A} (k : nat) (body : M A) : M (list A) :=
  match k with
  | O => ret []
  | S k' => x <- body ;; r <- repeatM k' body ;; ret (x :: r)
  end.

(* `[f(p) for p in l]` where f may raise *)
Fixpoint mapM {A B} (f : A -> M B) (l : list A) : M (list B) :=
  match l with
  | [] => ret []
  | x :: r => y <- f x ;; ys <- mapM f r ;; ret (y :: ys)
  end.

(* ---- draw sites ---- *)
Definition choice {A} (l : list A) : M A := fun ds =>
  match l with
  | [] => Raise IndexError
  | _ => match ds with
         | DChoice n i :: r =>
             if Nat.eqb n (length l) then
               match nth_error l i with Some x => Ok x r | None => Mismatch end
             else Mismatch
         | _ => Mismatch
         end
  end.

Definition random01 : M Q := fun ds =>
  match ds with
  | DRandom u :: r => if Qle_bool 0 u && Qltb u 1 then Ok u r else Mismatch
  | _ => Mismatch
  end.

Definition shuffle {A} (l : list A) : M (list A) := fun ds =>
  match ds with
  | DShuffle p :: r => if is_perm p (length l) then Ok (pick l p) r else Mismatch
  | _ => Mismatch
  end.

Definition sample {A} (l : list A) (k : nat) : M (list A) := fun ds =>
  match ds with
  | DSample n idx :: r =>
      if Nat.eqb n (length l) && Nat.eqb (length idx) k && nodupb idx
         && forallb (fun i => Nat.ltb i n) idx
      then Ok (pick l idx) r else Mismatch
  | _ => Mismatch
  end.

(* ---- fitness (deap/base.py) ---- *)
Definition f_lt (a b : ind) : bool := qtup_lt (wv a) (wv b).     (* a.fitness <  b.fitness *)
Definition f_le (a b : ind) : bool := qtup_le (wv a) (wv b).     (* a.fitness <= b.fitness *)
Definition f_gt (a b : ind) : bool := negb (f_le a b).           (* __gt__ = not __le__ *)

Definition values (w : list Q) (x : ind) : list Q := map2 Qdiv (wv x) w.
Definition val (w : list Q) (x : ind) (c : nat) : Q := nth c (values w x) 0.
Definition has_val0 (w : list Q) (x : ind) : bool :=
  match values w x with [] => false | _ => true end.
Definition val0 (w : list Q) (x : ind) : Q := val w x 0.

(* Fitness.dominates with obj = slice(None) *)
Fixpoint dom_loop (ps : list (Q * Q)) (not_equal : bool) : bool :=
  match ps with
  | [] => not_equal
  | (s, o) :: r => if Qltb o s then dom_loop r true
                   else if Qltb s o then false else dom_loop r not_equal
  end.
Definition dominates (a b : ind) : bool := dom_loop (zip (wv a) (wv b)) false.

(* ---- selRandom / selBest / selWorst / selTournament ---- *)
Definition selRandom (inds : list ind) (k : nat) : M (list ind) := repeatM k (choice inds).

Definition selBest (inds : list ind) (k : nat) : list ind := firstn k (py_sorted_rev f_lt inds).
Definition selWorst (inds : list ind) (k : nat) : list ind := firstn k (py_sorted f_lt inds).

Definition best_of (aspirants : list ind) : M ind :=
  match py_max f_gt aspirants with Some x => ret x | None => raise ValueError end.

Definition selTournament (inds : list ind) (k tournsize : nat) : M (list ind) :=
  repeatM k (aspirants <- selRandom inds tournsize ;; best_of aspirants).

(* ---- selRoulette ---- *)
(* for ind in s_inds: sum_ += f(ind); if sum_ > u: chosen.append(ind); break *)
Fixpoint spin (w : list Q) (l : list ind) (acc u : Q) : option ind :=
  match l with
  | [] => None
  | x :: r => let acc' := acc + val0 w x in
              if Qltb u acc' then Some x else spin w r acc' u
  end.

Definition sum_fits (w : list Q) (inds : list ind) : Q := qsum (map (val0 w) inds).

Definition selRoulette (w : list Q) (inds : list ind) (k : nat) : M (list ind) :=
  let s_inds := py_sorted_rev f_lt inds in
  if negb (forallb (has_val0 w) inds) then raise IndexError else
  let S := sum_fits w inds in
  chosen <- repeatM k (u <- random01 ;; ret (spin w s_inds 0 (u * S))) ;;
  ret (flat_map opt_list chosen).

(* ---- selDoubleTournament ---- *)
Definition sizeTournament (psize : Q) (select : nat -> M (list ind)) (k : nat) : M (list ind) :=
  repeatM k
    (pr <- select 2%nat ;;
     match pr with
     | [i1; i2] =>
         let '(a, b, prob) :=
           if Nat.ltb (size i2) (size i1) then (i2, i1, psize / 2)
           else if Nat.eqb (size i1) (size i2) then (i1, i2, 1 # 2)
           else (i1, i2, psize / 2) in
         u <- random01 ;; ret (if Qltb u prob then a else b)
     | _ => raise ValueError
     end).

Definition fitTournament (fitness_size : nat) (select : nat -> M (list ind)) (k : nat) : M (list ind) :=
  repeatM k (aspirants <- select fitness_size ;; best_of aspirants).

Definition selDoubleTournament (inds : list ind) (k fitness_size : nat) (parsimony_size : Q)
           (fitness_first : bool) : M (list ind) :=
  if negb (Qle_bool 1 parsimony_size && Qle_bool parsimony_size 2) then raise AssertionError else
  if fitness_first
  then sizeTournament parsimony_size (fitTournament fitness_size (selRandom inds)) k
  else fitTournament fitness_size (sizeTournament parsimony_size (selRandom inds)) k.

(* ---- selStochasticUniversalSampling (after the k == 0 fix) ---- *)
(* i = 0; sum_ = f(s_inds[0]); while sum_ < p: i += 1; sum_ += f(s_inds[i]) ; None = IndexError *)
Fixpoint sus_walk (w : list Q) (r : list ind) (acc p : Q) (cur : ind) {struct r} : option ind :=
  if Qltb acc p then
    match r with
    | [] => None
    | x :: r' => sus_walk w r' (acc + val0 w x) p x
    end
  else Some cur.

Definition sus_pick (w : list Q) (s_inds : list ind) (p : Q) : M ind :=
  match s_inds with
  | [] => raise IndexError
  | x0 :: r => match sus_walk w r (val0 w x0) p x0 with
               | Some x => ret x
               | None => raise IndexError
               end
  end.

Definition sus_points (S : Q) (k : nat) (u : Q) : list Q :=
  let distance := S / inject_Z (Z.of_nat k) in
  let start := 0 + (distance - 0) * u in
  map (fun i => start + inject_Z (Z.of_nat i) * distance) (seq 0 k).

Definition selSUS (w : list Q) (inds : list ind) (k : nat) : M (list ind) :=
  let s_inds := py_sorted_rev f_lt inds in
  if negb (forallb (has_val0 w) inds) then raise IndexError else
  let S := sum_fits w inds in
  if Nat.eqb k 0 then ret [] else
  u <- random01 ;;
  mapM (sus_pick w s_inds) (sus_points S k u).

(* ---- lexicase family ---- *)
(* while len(cases) > 0 and len(candidates) > 1: candidates = step(cases[0], candidates); cases.pop(0) *)
Fixpoint lex_filter (step : nat -> list ind -> list ind) (cases : list nat) (cands : list ind) : list ind :=
  match cases with
  | [] => cands
  | c :: cs => if Nat.leb (length cands) 1 then cands else lex_filter step cs (step c cands)
  end.

Definition maximised (w : list Q) (c : nat) : bool := Qltb 0 (nth c w 0).  (* fit_weights[c] > 0 *)

Definition step_plain (w : list Q) (c : nat) (cands : list ind) : list ind :=
  let vals := map (fun x => val w x c) cands in
  let best := if maximised w c then qmax vals else qmin vals in
  filter (fun x => Qeq_bool (val w x c) best) cands.

Definition step_eps (eps : Q) (w : list Q) (c : nat) (cands : list ind) : list ind :=
  let vals := map (fun x => val w x c) cands in
  if maximised w c
  then let lo := qmax vals - eps in filter (fun x => Qle_bool lo (val w x c)) cands
  else let hi := qmin vals + eps in filter (fun x => Qle_bool (val w x c) hi) cands.

Definition mad (errs : list Q) : Q :=
  let med := median errs in median (map (fun e => Qabs (e - med)) errs).

Definition step_auto (w : list Q) (c : nat) (cands : list ind) : list ind :=
  let errs := map (fun x => val w x c) cands in
  step_eps (mad errs) w c cands.

Definition lexicase_gen (step : nat -> list ind -> list ind) (w : list Q) (inds : list ind) (k : nat)
  : M (list ind) :=
  repeatM k
    (match inds with
     | [] => raise IndexError
     | x0 :: _ =>
         cases <- shuffle (seq 0 (length (values w x0))) ;;
         choice (lex_filter step cases inds)
     end).

Definition selLexicase (w : list Q) := lexicase_gen (step_plain w) w.
Definition selEpsilonLexicase (w : list Q) (inds : list ind) (k : nat) (eps : Q) :=
  lexicase_gen (step_eps eps w) w inds k.
Definition selAutomaticEpsilonLexicase (w : list Q) := lexicase_gen (step_auto w) w.

(* ---- selTournamentDCD (deap/tools/emo.py) ---- *)
Definition cd_lt (a b : option Q) : bool :=
  match a, b with
  | Some x, Some y => Qltb x y
  | Some _, None => true
  | None, _ => false
  end.

Definition tourn (x y : ind) : M ind :=
  if dominates x y then ret x
  else if dominates y x then ret y
  else if cd_lt (cd x) (cd y) then ret y
  else if cd_lt (cd y) (cd x) then ret x
  else u <- random01 ;; ret (if Qle_bool u (1 # 2) then x else y).

Definition tourn_at (l : list ind) (i j : nat) : M ind :=
  match nth_error l i, nth_error l j with
  | Some x, Some y => tourn x y
  | _, _ => raise IndexError
  end.

(* for i in range(0, k, 4): four tournaments *)
Fixpoint dcd_loop (iters i : nat) (l1 l2 : list ind) : M (list ind) :=
  match iters with
  | O => ret []
  | S it =>
      a <- tourn_at l1 i (i + 1) ;;
      b <- tourn_at l1 (i + 2) (i + 3) ;;
      c <- tourn_at l2 i (i + 1) ;;
      d <- tourn_at l2 (i + 2) (i + 3) ;;
      r <- dcd_loop it (i + 4) l1 l2 ;;
      ret (a :: b :: c :: d :: r)
  end.

Definition selTournamentDCD (inds : list ind) (k : nat) : M (list ind) :=
  let n := length inds in
  if Nat.ltb n k then raise ValueError else
  if Nat.eqb k n && negb (Nat.eqb (k mod 4) 0) then raise ValueError else
  l1 <- sample inds n ;;
  l2 <- sample inds n ;;
  dcd_loop ((k + 3) / 4) 0 l1 l2.
