(* Small runtime library targeted by harness/c01_py2coq.py (the base.py translator). *)
From Coq Require Import List ZArith Bool.
From DV Require Import Base.PyList Model.C01_Fitness.
Import ListNotations.
Local Open Scope Z_scope.

(* early-exit for loop: the body either continues with a new loop-carried state or returns *)
Inductive lstep (S R : Type) := LContinue (s : S) | LReturn (r : R).
Arguments LContinue {S R} s.
Arguments LReturn {S R} r.

Fixpoint for_ret {A S R : Type} (l : list A) (s : S) (body : A -> S -> lstep S R) (after : S -> R) : R :=
  match l with
  | [] => after s
  | x :: r => match body x s with
              | LContinue s' => for_ret r s' body after
              | LReturn v => v
              end
  end.

Definition set_wv (f : fit) (v : list Z) : fit := mkfit v (cv f).
Definition set_cv (f : fit) (c : option (list bool)) : fit := mkfit (wv f) c.
Definition is_none {A} (o : option A) : bool := match o with None => true | Some _ => false end.
(* sum(constraint_violation) for a list of booleans; on None Python raises TypeError, which the
   source guards by `is not None and`; the value chosen here is never used *)
Definition sum_optbl (o : option (list bool)) : Z :=
  match o with None => 0 | Some l => Z.of_nat (length (filter (fun b => b) l)) end.
