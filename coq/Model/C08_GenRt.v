(* Run-time vocabulary of the definitions that harness/c08_py2coq.py regenerates from the source text of
   deap/tools/support.py (classes HallOfFame and ParetoFront) -- tie (T) of property C08.
   Executable definitions only; the equivalence with the hand models is in Proofs/C08_gen_equiv.v.

   The regenerated methods are ONE text, generic in a [World]: what an individual reference is, what a
   fitness object is, where the archive's two lists live and what  deepcopy  does.  Two instances:
     VW ind fitness similar : the value-level world of Model/C08_Archive.v (individuals are values,
                              item.fitness is a tuple of weighted values, deepcopy is the identity);
     HW sim                 : the heap-level world of Model/C08_Heap.v (individuals and their fitness objects
                              are locations of a store, every read goes through the store at the time of the
                              read, deepcopy allocates).
   A method is a state-and-exception computation  M X = st -> option (X * st)  (None = the call raised). *)
From Coq Require Import List ZArith Bool.
From DV Require Import Base.PyTuple Base.PyList Model.C01_Fitness Model.C08_Archive Model.C08_Heap.
Import ListNotations.
Local Open Scope Z_scope.

Record World : Type := mkWorld {
  ref : Type;                                   (* (a reference to) an individual *)
  fref : Type;                                  (* (a reference to) a fitness object *)
  st : Type;                                    (* the archive object, and the store if there is one *)
  w_items : st -> list ref;                     (* self.items *)
  w_keys : st -> list fref;                     (* self.keys *)
  w_set_items : st -> list ref -> st;           (* in-place change of the contents of self.items *)
  w_set_keys : st -> list fref -> st;
  w_fitness : ref -> fref;                      (* x.fitness  (the attribute is never rebound by the archive) *)
  w_val : st -> fref -> list Z;                 (* f.wvalues, now *)
  w_similar : st -> ref -> ref -> bool;         (* self.similar(a, b), now *)
  w_deepcopy : st -> ref -> ref * st            (* copy.deepcopy(x) *)
}.

Existing Class World.

Inductive ctl (S : Type) := Next (s : S) | Break (s : S) | Return.
Arguments Next {S} s.
Arguments Break {S} s.
Arguments Return {S}.

Section Rt.
  Context {W : World}.

  Definition M (X : Type) : Type := st W -> option (X * st W).
  Definition ret {X} (x : X) : M X := fun s => Some (x, s).
  Definition raise {X} : M X := fun _ => None.
  Definition bind {X Y} (m : M X) (f : X -> M Y) : M Y :=
    fun s => match m s with Some (x, s') => f x s' | None => None end.

  (* ---- the archive's two lists ---- *)
  Definition get_items : M (list (ref W)) := fun s => Some (w_items W s, s).
  Definition get_keys : M (list (fref W)) := fun s => Some (w_keys W s, s).
  Definition set_items (l : list (ref W)) : M unit := fun s => Some (tt, w_set_items W s l).
  Definition set_keys (l : list (fref W)) : M unit := fun s => Some (tt, w_set_keys W s l).

  (* ---- declared primitives ---- *)
  Definition fitness_of (x : ref W) : fref W := w_fitness W x.
  Definition valM (f : fref W) : M (list Z) := fun s => Some (w_val W s f, s).
  Definition similarM (a b : ref W) : M bool := fun s => Some (w_similar W s a b, s).
  Definition deepcopyM (x : ref W) : M (ref W) := fun s => Some (w_deepcopy W s x).
  (* bisect.bisect_right(keys, f) on fitness objects: compares their values at the time of the call *)
  Definition bisect_rightM (ks : list (fref W)) (f : fref W) : M Z :=
    fun s => Some (Z.of_nat (bisect_right (map (w_val W s) ks) (w_val W s f)), s).

  (* ---- Python operations that can raise ---- *)
  Definition indexM {A} (l : list A) (i : Z) : M A :=                 (* l[i] *)
    match py_get l i with Some x => ret x | None => raise end.
  Definition delM {A} (l : list A) (i : Z) : M (list A) :=            (* del l[i] : the list that remains *)
    match py_del l i with Some r => ret r | None => raise end.
  Definition modM (a b : Z) : M Z :=                                  (* a % b on ints *)
    if b =? 0 then raise else ret (a mod b).
  Definition floordivM (a b : Z) : M Z :=                             (* a // b on ints *)
    if b =? 0 then raise else ret (a / b).

  (* ---- loops ----
     for x in l: body  [else: ...]  with loop-carried locals s; the body says how it ended:
     Next = fell off the end / continue, Break = break, Return = return.  The loop's own result:
     Next = the iterable was exhausted (an else clause runs), Break, Return. *)
  Fixpoint for_ctl {A S : Type} (l : list A) (body : A -> S -> M (ctl S)) (s : S) : M (ctl S) :=
    match l with
    | [] => ret (Next s)
    | x :: r => bind (body x s) (fun c => match c with
                                          | Next s' => for_ctl r body s'
                                          | Break s' => ret (Break s')
                                          | Return => ret Return
                                          end)
    end.

  (* any(f(x) for x in l) / all(f(x) for x in l): stop at the first True / False *)
  Fixpoint anyM {A} (f : A -> M bool) (l : list A) : M bool :=
    match l with
    | [] => ret false
    | x :: r => bind (f x) (fun b => if b then ret true else anyM f r)
    end.
  Fixpoint allM {A} (f : A -> M bool) (l : list A) : M bool :=
    match l with
    | [] => ret true
    | x :: r => bind (f x) (fun b => if b then allM f r else ret false)
    end.
End Rt.

Declare Scope c08_scope.
Notation "x <- m ;; k" := (bind m (fun x => k)) (at level 61, m at next level, right associativity) : c08_scope.
Notation "' p <- m ;; k" := (bind m (fun p => k))
  (at level 61, p pattern, m at next level, right associativity) : c08_scope.
Notation "m ;;; k" := (bind m (fun _ => k)) (at level 61, right associativity) : c08_scope.

(* ---- pure list vocabulary ---- *)
Fixpoint enumerate_from {A} (i : Z) (l : list A) : list (Z * A) :=      (* enumerate(l, i) *)
  match l with
  | [] => []
  | x :: r => (i, x) :: enumerate_from (i + 1) r
  end.
Definition py_del_slice {A} (l : list A) (a b : option Z) : list A := py_slice_assign l a b [].   (* del l[a:b] *)
Definition is_empty {A} (l : list A) : bool := match l with [] => true | _ => false end.          (* not l *)
Definition fit_ge (a b : list Z) : bool := negb (fit_lt a b).            (* Fitness.__ge__ = not __lt__ *)
Definition fit_ne (a b : list Z) : bool := negb (fit_eq a b).            (* Fitness.__ne__ = not __eq__ *)

(* ---- the two worlds ---- *)
Definition VW (ind : Type) (fitness : ind -> list Z) (similar : ind -> ind -> bool) : World :=
  mkWorld ind (list Z) (hof ind)
          (@items ind) (@keys ind)
          (fun h l => mkhof (keys h) l) (fun h l => mkhof l (items h))
          fitness (fun _ f => f) (fun _ => similar) (fun h x => (x, h)).

Definition HW (sim : obj -> obj -> bool) : World :=
  mkWorld nat nat (heap * harch)
          (fun s => hitems (snd s)) (fun s => hkeys (snd s))
          (fun s l => (fst s, mkharch (hkeys (snd s)) l)) (fun s l => (fst s, mkharch l (hitems (snd s))))
          (fun x => x) (fun s f => hfit (fst s) f) (fun s => hsim sim (fst s))
          (fun s x => (length (fst s), (fst s ++ [deref (fst s) x], snd s))).

(* a method call seen from outside: the state it leaves (None = it raised) *)
Definition run_u {W : World} {X} (m : @M W X) (s : st W) : option (st W) :=
  match m s with Some (_, s') => Some s' | None => None end.
