(* Run-time library of the definitions that harness/c05_py2coq.py regenerates, on every run, from
   the source text of deap/tools/emo.py (tie (T) of property C05): assignCrowdingDist, selNSGA2,
   sortNondominated.  Executable definitions only; the characterising (inversion) lemmas are in
   Proofs/C05_GenRt.v.

   The regenerated definitions live in the monad
       M A := cdtab -> option (A * cdtab)
   `None` is "the statement raised" (IndexError of a subscript, AttributeError of a missing
   crowding_dist, the `raise Exception(...)` of selNSGA2, exhausted fuel of a `while`); the state
   `cdtab` is the only mutable state that outlives a call: the attribute `fitness.crowding_dist` of
   every individual, by object identity (uid).  Python locals are `let`s; a list the function
   mutates in place (a fresh local list, never aliased -- enforced by the translator) is rebound.
   Arithmetic stays generic in the record `numops` of the hand model. *)
From Coq Require Import List ZArith Bool Arith Lia.
From DV Require Import Base.PyList Base.C05_Sort Model.C05_Nsga2 Model.C05_Spec Model.C05_Full.
Import ListNotations.

Section Rt.
  Variable o : numops.

  (* ind.fitness.crowding_dist, by identity of ind; None = the attribute does not exist *)
  Definition cdtab := nat -> option (D o).
  Definition cd_upd (t : cdtab) (u : nat) (d : D o) : cdtab :=
    fun v => if Nat.eqb v u then Some d else t v.

  Definition M (A : Type) : Type := cdtab -> option (A * cdtab).
  Definition ret {A} (a : A) : M A := fun t => Some (a, t).
  Definition bind {A B} (m : M A) (k : A -> M B) : M B :=
    fun t => match m t with Some (a, t') => k a t' | None => None end.
  Definition raise {A} : M A := fun _ => None.
  Definition lift {A} (x : option A) : M A :=
    fun t => match x with Some a => Some (a, t) | None => None end.

  (* ind.fitness.crowding_dist = d      /     ind.fitness.crowding_dist *)
  Definition set_cd (x : ind (V o)) (d : D o) : M unit := fun t => Some (tt, cd_upd t (uid x) d).
  Definition get_cd (x : ind (V o)) : M (D o) :=
    fun t => match t (uid x) with Some d => Some (d, t) | None => None end.

  (* `for x in xs: body` ; s = the variables assigned in the body that exist before the loop *)
  Fixpoint for_list {X S : Type} (xs : list X) (body : X -> S -> M S) (s : S) : M S :=
    match xs with
    | [] => ret s
    | x :: r => bind (body x s) (for_list r body)
    end.

  (* `while cond: body` with explicit fuel; running out of fuel is an exception *)
  Fixpoint while_fuel {S : Type} (fuel : nat) (cond : S -> bool) (body : S -> M S) (s : S) : M S :=
    if cond s then
      match fuel with
      | O => raise
      | Datatypes.S f => bind (body s) (while_fuel f cond body)
      end
    else ret s.

  Fixpoint mapM {A B} (f : A -> M B) (l : list A) : M (list B) :=
    match l with
    | [] => ret []
    | x :: r => bind (f x) (fun y => bind (mapM f r) (fun ys => ret (y :: ys)))
    end.

  (* l.sort(key=f [, reverse=True]) / sorted(l, key=f [, reverse=True]): CPython computes every key
     first (in list order), then sorts the decorated list comparing keys with < only, stably;
     reverse=True is reverse, sort, reverse (Base/C05_Sort.v) *)
  Definition sort_keyM {A K} (lt : K -> K -> bool) (key : A -> M K) (rev : bool) (l : list A) : M (list A) :=
    bind (mapM key l) (fun ks =>
      ret (map fst ((if rev then sort_st_rev lt snd else sort_st lt snd) (combine l ks)))).
End Rt.

Arguments ret {o A} a.
Arguments bind {o A B} m k.
Arguments raise {o A}.
Arguments lift {o A} x.
Arguments for_list {o X S} xs body s.
Arguments while_fuel {o S} fuel cond body s.
Arguments mapM {o A B} f l.
Arguments sort_keyM {o A K} lt key rev l.
Arguments set_cd {o} x d.
Arguments get_cd {o} x.

Declare Scope c05m_scope.
Delimit Scope c05m_scope with c05m.
Notation "x <- m ;; k" := (bind m (fun x => k))
  (at level 61, m at next level, right associativity) : c05m_scope.

(* ---- operations that can raise ---- *)
Section Ops.
  Variable o : numops.
  Context {A : Type}.

  (* l[i], i a natural number *)
  Definition getitem (l : list A) (i : nat) : M o A := lift (nth_error l i).
  (* l[-j] for a literal j >= 1 *)
  Definition getitem_last (l : list A) (j : nat) : M o A :=
    if (1 <=? j) && (j <=? length l) then lift (nth_error l (length l - j)) else raise.
  (* l[i], i any integer (Python's negative indices) *)
  Definition getitem_z (l : list A) (i : Z) : M o A := lift (py_get l i).
  (* l[i] = v *)
  Definition setitem (l : list A) (i : nat) (v : A) : M o (list A) :=
    if i <? length l then ret (set_nth l i v) else raise.
  (* l[-j] = v for a literal j >= 1 *)
  Definition setitem_last (l : list A) (j : nat) (v : A) : M o (list A) :=
    if (1 <=? j) && (j <=? length l) then ret (set_nth l (length l - j) v) else raise.
End Ops.
Arguments setitem_last {o A} l j v.
Arguments getitem {o A} l i.
Arguments getitem_last {o A} l j.
Arguments getitem_z {o A} l i.
Arguments setitem {o A} l i v.

(* ---- pure vocabulary ---- *)
(* l[a:b] (step 1); bounds as Python has them: absent, or any integer (negative = from the end) *)
Definition sl {A} (l : list A) (a b : option Z) : list A :=
  let '(s, e) := slice_adjust a b 1 (zlen l) in
  firstn (Z.to_nat (e - s)) (skipn (Z.to_nat s) l).

(* enumerate(l) *)
Definition enumerate {A} (l : list A) : list (nat * A) := combine (seq 0 (length l)) l.

(* nd == 'standard' / nd == 'log' (any other value of nd is NdOther: equal to neither) *)
Definition nd_is (c nd : nd_choice) : bool :=
  match c, nd with
  | NdStandard, NdStandard => true
  | NdLog, NdLog => true
  | _, _ => false
  end.

(* ---- what the hand model says, in this vocabulary (also the placeholders the translator writes
        for a function it refuses) ---- *)
Section ModelM.
  Variable o : numops.
  Notation indV := (ind (V o)).

  (* for i, dist in enumerate(distances): individuals[i].fitness.crowding_dist = dist *)
  Definition write_cd (t : cdtab o) (inds : list indV) (ds : list (D o)) : cdtab o :=
    fold_left (fun t p => cd_upd o t (uid (fst p)) (snd p)) (combine inds ds) t.

  Definition model_assignCrowdingDist (inds : list indV) : M o unit :=
    fun t => Some (tt, write_cd t inds (assign_crowding o inds)).

  (* for front in pareto_fronts: assignCrowdingDist(front) *)
  Definition write_fronts (t : cdtab o) (fronts : list (list indV)) : cdtab o :=
    fold_left (fun t f => write_cd t f (assign_crowding o f)) fronts t.

  Definition sorter := list indV -> Z -> option (list (list indV)).

  Definition pick_sorter (s_std s_log : sorter) (nd : nd_choice) : sorter :=
    match nd with
    | NdStandard => s_std
    | NdLog => s_log
    | NdOther => fun _ _ => None
    end.

  Definition model_selNSGA2 (s_std s_log : sorter) (inds : list indV) (k : Z) (nd : nd_choice)
    : M o (list indV) :=
    fun t => match pick_sorter s_std s_log nd inds k with
             | None => None
             | Some fronts =>
                 match sel_nsga2 o fronts (Z.to_nat k) with
                 | Some r => if (k <? 0)%Z then None else Some (r, write_fronts t fronts)
                 | None => None
                 end
             end.
End ModelM.

(* ---- how the theorems about the regenerated selNSGA2 are stated ---- *)
Section Contract.
  Variable o : numops.
  Notation indV := (ind (V o)).

  (* the contract of a sorting back-end for this call: what it returns satisfies fronts_correct *)
  Definition sorters_ok (s_std s_log : sorter o) (nd : nd_choice) (pop : list indV) (k : nat) : Prop :=
    forall fronts, pick_sorter o s_std s_log nd pop (Z.of_nat k) = Some fronts -> fronts_correct pop k fronts.

  (* property C04's models of sortNondominated / sortLogNondominated as back-ends (Model/C05_Full.v) *)
  Definition model_sorter (nd : nd_choice) : sorter o := fun pop k => nd_fronts nd pop (Z.to_nat k).

  (* the back-ends compute what property C04's models compute (whenever they return) *)
  Definition backends_refine (s_std s_log : sorter o) (nd : nd_choice) (pop : list indV) (k : nat) : Prop :=
    forall fronts, pick_sorter o s_std s_log nd pop (Z.of_nat k) = Some fronts -> nd_fronts nd pop k = Some fronts.

  (* the attribute `fitness.crowding_dist` of the j-th individual of `front` *)
  Definition cd_of (t : cdtab o) (front : list indV) (j : nat) : option (D o) :=
    match nth_error front j with Some x => t (uid x) | None => None end.
End Contract.
