(* Statement vocabulary of the REGENERATED packaged loops eaSimple / eaMuPlusLambda / eaMuCommaLambda
   (deap/algorithms.py), tie (T) of the composed loop models of Model/C03_Full.v, registered under
   property C02 (harness/c02_py2coq.py writes coq/Gen/C02_gen_loops.v; Proofs/C02_gen_loops_equiv.v
   proves the regenerated loops equal to full_simple / full_plus / full_comma).

   The monad is the one of Model/C02_GenRt.v (generic in the state); the state here is the `fstate`
   of Model/C03_Full.v (one heap, one draw stream, one operator-call counter for the whole run, the
   caller's list object, evaluate call log, logbook, batches shown to the hall of fame, its best)
   together with the not yet consumed answers of toolbox.select.

   The regenerated text is the specialisation of the source to the calls the model describes:
   a Statistics object and a HallOfFame are given (`stats`, `halloffame is not None` are true),
   verbose is false (print is never reached), toolbox.map is the builtin (lazy) map. *)
From Coq Require Import List ZArith Bool Arith.
From DV Require Model.C02_Variation.
From DV Require Import Base.PyList Model.C02_GenRt Model.C03_Loops Model.C03_Full.
Import ListNotations.
Local Open Scope nat_scope.

Section LoopsRt.
Context {G F T : Type}.
Variable evaluate : G -> F.
Variable fle : F -> F -> bool.
Variable mate_o : nat -> G * option F -> G * option F -> V.mate_ans G F.
Variable mut_o : nat -> G * option F -> V.mut_ans G F.

Notation fstate := (@fstate G F T).
Notation heap := (V.heap G F).

Record lstate := mkl { l_fs : fstate; l_sels : list (list nat) }.
Notation LM := (M lstate).

Definition with_fs (s : lstate) (fs : fstate) : lstate := mkl fs (l_sels s).

(* what stats.compile returns *)
Definition srec := list (uid * option (@ind G F)).

(* the list object bound to `population`: its contents, and population[:] = l *)
Definition l_pop : LM (list uid) := fun s => (s, inr (f_pop (l_fs s))).
Definition l_setpop (l : list uid) : LM unit :=
  fun s => let fs := l_fs s in
           (with_fs s (mkfstate (f_hp fs) (f_dr fs) (f_kc fs) l (f_calls fs) (f_log fs) (f_shown fs) (f_best fs)), inr tt).

(* [ind for ind in l if not ind.fitness.valid] *)
Definition l_invalid (l : list uid) : LM (list uid) :=
  fun s => (s, inr (invalid_of (view (f_hp (l_fs s))) l)).

(* fitnesses = toolbox.map(toolbox.evaluate, l): nothing is evaluated yet (map is lazy); the value is
   the sequence of individuals still to be evaluated; the calls made while it is consumed form one
   entry of the evaluate call log *)
Definition l_map_evaluate (l : list uid) : LM (list uid) :=
  fun s => let fs := l_fs s in
           (with_fs s (mkfstate (f_hp fs) (f_dr fs) (f_kc fs) (f_pop fs) (f_calls fs ++ [[]]) (f_log fs) (f_shown fs) (f_best fs)),
            inr l).

Definition snoc_last {A} (ll : list (list A)) (x : A) : list (list A) :=
  match rev ll with
  | [] => [[x]]
  | last :: r => rev r ++ [last ++ [x]]
  end.

(* next(fitnesses): toolbox.evaluate(u) *)
Definition l_evaluate (u : uid) : LM F :=
  fun s => let fs := l_fs s in
           let g := V.geno (V.ind_at (f_hp fs) u) in
           (with_fs s (mkfstate (f_hp fs) (f_dr fs) (f_kc fs) (f_pop fs) (snoc_last (f_calls fs) (u, g)) (f_log fs)
                                (f_shown fs) (f_best fs)),
            inr (evaluate g)).

(* u.fitness.values = f *)
Definition l_setfit (u : uid) (f : F) : LM unit :=
  fun s => let fs := l_fs s in
           (with_fs s (mkfstate (set_fit (f_hp fs) u f) (f_dr fs) (f_kc fs) (f_pop fs) (f_calls fs) (f_log fs)
                                (f_shown fs) (f_best fs)), inr tt).

(* halloffame.update(l) *)
Definition l_hof_update (l : list uid) : LM unit :=
  fun s => let fs := l_fs s in
           (with_fs s (mkfstate (f_hp fs) (f_dr fs) (f_kc fs) (f_pop fs) (f_calls fs) (f_log fs) (f_shown fs ++ [l])
                                (hof_update fle (f_best fs) (view (f_hp fs)) l)), inr tt).

(* stats.compile(l) *)
Definition l_compile (l : list uid) : LM srec := fun s => (s, inr (snap (view (f_hp (l_fs s))) l)).

(* logbook = tools.Logbook() *)
Definition l_new_logbook : LM unit :=
  fun s => let fs := l_fs s in
           (with_fs s (mkfstate (f_hp fs) (f_dr fs) (f_kc fs) (f_pop fs) (f_calls fs) [] (f_shown fs) (f_best fs)), inr tt).

(* logbook.record(gen=g, nevals=n, **r); the record also notes the hall of fame's best at that moment *)
Definition l_record (g n : Z) (r : srec) : LM unit :=
  fun s => let fs := l_fs s in
           (with_fs s (mkfstate (f_hp fs) (f_dr fs) (f_kc fs) (f_pop fs) (f_calls fs)
                                (f_log fs ++ [mkrec (Z.to_nat g) (Z.to_nat n) r (f_best fs)]) (f_shown fs) (f_best fs)), inr tt).

(* toolbox.select(l, k): the next recorded answer, positions in l; an answer that does not consist of k
   positions does not fit the call (the selection contract of the loop theorems: sel_in n k sel) *)
Definition l_select (l : list uid) (k : Z) : LM (list uid) :=
  fun s => match l_sels s with
           | sel :: rest =>
               if (Z.of_nat (length sel) =? k)%Z then (mkl (l_fs s) rest, inr (select_by l sel))
               else (s, inl V.DrawMismatch)
           | [] => (s, inl V.DrawMismatch)
           end.

(* varAnd(...) / varOr(...) called from a loop: the variation step runs on the heap and the draw stream
   of the run with a fresh call log, the operators being the oracles shifted by the number of calls
   made so far *)
Definition l_call_var
    (f : (nat -> G * option F -> G * option F -> V.mate_ans G F) -> (nat -> G * option F -> V.mut_ans G F) ->
         V.st G F T -> V.st G F T * (V.exn + list nat)) : LM (list uid) :=
  fun s => let fs := l_fs s in
           match f (mate_at mate_o (f_kc fs)) (mut_at mut_o (f_kc fs)) (V.start (f_hp fs) (f_dr fs)) with
           | (s', inr off) =>
               (with_fs s (mkfstate (V.hp s') (V.dr s') (f_kc fs + V.kc s') (f_pop fs) (f_calls fs) (f_log fs)
                                    (f_shown fs) (f_best fs)), inr off)
           | (_, inl e) => (s, inl e)
           end.

(* the result of a loop as the model reports it *)
Definition to_fres {A} (r : lstate * (V.exn + A)) : @fres G F T :=
  match r with
  | (s, inr _) => FOk (l_fs s)
  | (_, inl e) => FRaise e
  end.

(* ---- placeholders for a loop the translator refuses: the hand model itself, run on the state ---- *)
Definition of_fres (s : lstate) (r : @fres G F T) : lstate * (V.exn + unit) :=
  match r with
  | FOk fs => (mkl fs [], inr tt)
  | FRaise e => (s, inl e)
  end.

Variables ltb leb : T -> T -> bool.
Variable add : T -> T -> T.
Variable one : T.

Definition model_simple (cxpb mutpb : T) (s : lstate) : lstate * (V.exn + unit) :=
  of_fres s (frun (fstep_simple evaluate fle ltb mate_o mut_o cxpb mutpb) 1 (fgen0 evaluate fle (l_fs s)) (l_sels s)).
Definition model_plus (lambda_ : Z) (cxpb mutpb : T) (s : lstate) : lstate * (V.exn + unit) :=
  of_fres s (frun (fstep_plus evaluate fle ltb leb add one mate_o mut_o lambda_ cxpb mutpb) 1
                  (fgen0 evaluate fle (l_fs s)) (l_sels s)).
Definition model_comma (mu lambda_ : Z) (cxpb mutpb : T) (s : lstate) : lstate * (V.exn + unit) :=
  if (mu <=? lambda_)%Z
  then of_fres s (frun (fstep_comma evaluate fle ltb leb add one mate_o mut_o lambda_ cxpb mutpb) 1
                       (fgen0 evaluate fle (l_fs s)) (l_sels s))
  else (s, inl V.AssertionError).

End LoopsRt.

Arguments lstate {G F T}.
Arguments mkl {G F T}.
Arguments srec {G F}.
