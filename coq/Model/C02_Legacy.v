(* The reproduction branch of varOr as it was before the repair (fix 80d9b4e in /repo):

       else:                           # Apply reproduction
           offspring.append(random.choice(population))

   i.e. the chosen parent object itself is appended.  Kept only to show (Props/C02.v,
   C02_varOr_unrepaired_refuted) that the independence theorem is false for that code; the
   implementation is no longer tied to this definition. *)
From Coq Require Import List ZArith Bool Arith.
From DV Require Import Model.C02_Variation.
Import ListNotations.

Section Legacy.
Variables G F T : Type.
Variables ltb leb : T -> T -> bool.
Variable add : T -> T -> T.
Variable one : T.
Variable mate_o : nat -> G * option F -> G * option F -> mate_ans G F.
Variable mut_o : nat -> G * option F -> mut_ans G F.
Notation st := (st G F T).

Definition var_or_step_legacy (cxpb mutpb : T) (pop : list nat) (s : st) : st * (exn + nat) :=
  match next_random s with
  | None => (s, inl DrawMismatch)
  | Some (u, s1) =>
      if ltb u cxpb then var_or_step ltb add mate_o mut_o cxpb mutpb pop s
      else if ltb u (add cxpb mutpb) then var_or_step ltb add mate_o mut_o cxpb mutpb pop s
      else
        if Nat.eqb (length pop) 0 then (s1, inl IndexError) else
        match dr s1 with
        | DChoice n i :: rest =>
            match Nat.eqb n (length pop), nth_error pop i with
            | true, Some p => (mkst (hp s1) rest (kc s1) (lg s1), inr p)      (* the parent itself *)
            | _, _ => (s1, inl DrawMismatch)
            end
        | _ => (s1, inl DrawMismatch)
        end
  end.

Fixpoint var_or_loop_legacy (cxpb mutpb : T) (pop : list nat) (n : nat) (s : st) : st * (exn + list nat) :=
  match n with
  | O => (s, inr [])
  | S n' =>
      match var_or_step_legacy cxpb mutpb pop s with
      | (s1, inl e) => (s1, inl e)
      | (s1, inr o) =>
          match var_or_loop_legacy cxpb mutpb pop n' s1 with
          | (s2, inr os) => (s2, inr (o :: os))
          | (s2, inl e) => (s2, inl e)
          end
      end
  end.

Definition var_or_legacy (lambda_ : Z) (cxpb mutpb : T) (s : st) (pop : list nat) : st * (exn + list nat) :=
  if leb (add cxpb mutpb) one then var_or_loop_legacy cxpb mutpb pop (Z.to_nat lambda_) s
  else (s, inl AssertionError).
End Legacy.

Arguments var_or_legacy {G F T}.
