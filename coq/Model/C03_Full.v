(* C03 — the packaged loops of deap/algorithms.py composed with C02's model of the variation step.

   Model/C03_Loops.v takes the result of varAnd / varOr as an oracle answer (the returned objects
   with their contents).  Here the three loops that call them -- eaSimple (varAnd), eaMuPlusLambda
   and eaMuCommaLambda (varOr) -- run over the object heap of Model/C02_Variation.v and CALL its
   var_and / var_or, exactly as algorithms.py does:

     eaSimple         offspring = toolbox.select(population, len(population))
                      offspring = varAnd(offspring, toolbox, cxpb, mutpb)
     eaMuPlusLambda   offspring = varOr(population, toolbox, lambda_, cxpb, mutpb)
                      ...  population[:] = toolbox.select(population + offspring, mu)
     eaMuCommaLambda  assert lambda_ >= mu
                      offspring = varOr(population, toolbox, lambda_, cxpb, mutpb)
                      ...  population[:] = toolbox.select(offspring, mu)

   State.  One heap for the whole run (individual objects with separate Fitness objects, explicit
   allocation counters), ONE stream of draws of the module-level `random` of deap.algorithms
   consumed across the generations, and one counter of toolbox.mate / toolbox.mutate calls across
   the generations (the operators are oracles indexed by the global call number, so stateful and
   randomised operators are covered).  `ind.fitness.values = fit` writes the Fitness object the
   individual points to.  Whatever the loops only READ (not ind.fitness.valid, the hall of fame's
   comparison, the Statistics snapshot) is computed by the functions of Model/C03_Loops.v on the
   read-only view of the heap (`view`).

   What remains an oracle: toolbox.select, answered by positions in the list it is called with
   (one answer per generation; ngen = number of answers), evaluate (a function of the genotype),
   and mate / mutate inside C02's frame (they write only to their argument objects and return
   arguments or new objects).  An exception raised by varAnd / varOr (ValueError of random.sample,
   IndexError of random.choice, the assertion of varOr, a draw stream that does not fit) leaves
   the loop: FRaise.

   No proofs here (Proofs/C03_Compose.v). *)
From Coq Require Import List ZArith Bool Arith.
From DV Require Model.C02_Variation.
From DV Require Import Model.C03_Loops.
Import ListNotations.
Local Open Scope nat_scope.

Module V := DV.Model.C02_Variation.

Section Full.
Context {G F T : Type}.
Variable evaluate : G -> F.
Variable fle : F -> F -> bool.
(* the comparisons / addition varAnd and varOr apply to cxpb, mutpb and the draws *)
Variables ltb leb : T -> T -> bool.
Variable add : T -> T -> T.
Variable one : T.
(* toolbox.mate / toolbox.mutate: oracles of the GLOBAL call number and the argument contents *)
Variable mate_o : nat -> G * option F -> G * option F -> V.mate_ans G F.
Variable mut_o : nat -> G * option F -> V.mut_ans G F.

Notation heap := (V.heap G F).
Notation store := (@store G F).
Notation state := (@state G F).
Notation rec := (@rec G F).

(* the heap as the loops read it: every allocated individual with its genotype and the values of
   the Fitness object it points to *)
Definition view (h : heap) : store :=
  fun u => if u <? V.ni h then Some (mkind (V.geno (V.ind_at h u)) (V.fit_of h u)) else None.

(* ind.fitness.values = f *)
Definition set_fit (h : heap) (u : nat) (f : F) : heap :=
  V.mkheap (V.ind_at h) (V.upd (V.fit_at h) (V.fitref (V.ind_at h u)) (Some f)) (V.ni h) (V.nf h).

(* fitnesses = toolbox.map(toolbox.evaluate, l); for ind, fit in zip(l, fitnesses): ind.fitness.values = fit *)
Fixpoint eval_heap (h : heap) (l : list uid) : heap * list (uid * G) :=
  match l with
  | [] => (h, [])
  | u :: r =>
      if u <? V.ni h then
        let g := V.geno (V.ind_at h u) in
        let '(h'', log) := eval_heap (set_fit h u (evaluate g)) r in (h'', (u, g) :: log)
      else eval_heap h r
  end.

Record fstate := mkfstate {
  f_hp : heap;                          (* all objects *)
  f_dr : list (V.draw T);               (* draws of deap.algorithms' `random` not yet consumed *)
  f_kc : nat;                           (* number of toolbox.mate / toolbox.mutate calls so far *)
  f_pop : list uid;                     (* contents of the caller's list object *)
  f_calls : list (list (uid * G));      (* evaluate call log, one entry per generation *)
  f_log : list rec;                     (* logbook *)
  f_shown : list (list uid);            (* batches passed to halloffame.update *)
  f_best : option F }.

(* the state of Model/C03_Loops.v this state is read as *)
Definition fview (s : fstate) : state :=
  mkstate (view (f_hp s)) (f_pop s) (f_calls s) (f_log s) (f_shown s) (f_best s).

Definition finit (h : heap) (d : list (V.draw T)) (pop : list uid) : fstate :=
  mkfstate h d 0 pop [] [] [] None.

(* the common tail of a generation (= finish_gen of Model/C03_Loops.v, on the heap):
   evaluate the individuals of `off` with an invalid fitness, halloffame.update(off),
   population[:] = newpop, stats.compile(population), logbook.record(gen, nevals=len(invalid_ind)) *)
Definition ffinish (gen : nat) (s : fstate) (h1 : heap) (d1 : list (V.draw T)) (k1 : nat)
                   (off newpop : list uid) : fstate :=
  let invalid_ind := invalid_of (view h1) off in
  let '(h2, log) := eval_heap h1 invalid_ind in
  let best := hof_update fle (f_best s) (view h2) off in
  mkfstate h2 d1 k1 newpop (f_calls s ++ [log])
           (f_log s ++ [mkrec gen (length invalid_ind) (snap (view h2) newpop) best])
           (f_shown s ++ [off]) best.

Definition fgen0 (s : fstate) : fstate :=
  ffinish 0 s (f_hp s) (f_dr s) (f_kc s) (f_pop s) (f_pop s).

Inductive fres := FOk (s : fstate) | FRaise (e : V.exn).

(* the operators as the k-th call of ONE call of varAnd / varOr sees them, k0 calls having been made before *)
Definition mate_at (k0 : nat) : nat -> G * option F -> G * option F -> V.mate_ans G F :=
  fun k => mate_o (k0 + k).
Definition mut_at (k0 : nat) : nat -> G * option F -> V.mut_ans G F :=
  fun k => mut_o (k0 + k).

(* varAnd(inp, toolbox, cxpb, mutpb) / varOr(inp, toolbox, lambda_, cxpb, mutpb) called in state s *)
Definition call_var_and (cxpb mutpb : T) (s : fstate) (inp : list uid) :=
  V.var_and ltb (mate_at (f_kc s)) (mut_at (f_kc s)) cxpb mutpb (V.start (f_hp s) (f_dr s)) inp.
Definition call_var_or (lambda_ : Z) (cxpb mutpb : T) (s : fstate) (inp : list uid) :=
  V.var_or ltb leb add one (mate_at (f_kc s)) (mut_at (f_kc s)) lambda_ cxpb mutpb
           (V.start (f_hp s) (f_dr s)) inp.

(* eaSimple, one generation; sel = positions answered by toolbox.select(population, len(population)) *)
Definition fstep_simple (cxpb mutpb : T) (gen : nat) (s : fstate) (sel : list nat) : fres :=
  let offspring := select_by (f_pop s) sel in
  match call_var_and cxpb mutpb s offspring with
  | (s', inr offspring) =>
      FOk (ffinish gen s (V.hp s') (V.dr s') (f_kc s + V.kc s') offspring offspring)
  | (_, inl e) => FRaise e
  end.

(* eaMuPlusLambda, one generation; sel answers toolbox.select(population + offspring, mu) *)
Definition fstep_plus (lambda_ : Z) (cxpb mutpb : T) (gen : nat) (s : fstate) (sel : list nat) : fres :=
  match call_var_or lambda_ cxpb mutpb s (f_pop s) with
  | (s', inr offspring) =>
      FOk (ffinish gen s (V.hp s') (V.dr s') (f_kc s + V.kc s') offspring
                   (select_by (f_pop s ++ offspring) sel))
  | (_, inl e) => FRaise e
  end.

(* eaMuCommaLambda, one generation; sel answers toolbox.select(offspring, mu) *)
Definition fstep_comma (lambda_ : Z) (cxpb mutpb : T) (gen : nat) (s : fstate) (sel : list nat) : fres :=
  match call_var_or lambda_ cxpb mutpb s (f_pop s) with
  | (s', inr offspring) =>
      FOk (ffinish gen s (V.hp s') (V.dr s') (f_kc s + V.kc s') offspring (select_by offspring sel))
  | (_, inl e) => FRaise e
  end.

(* eaMuPlusLambda with toolbox.select = tools.selBest (sel_best of Model/C03_Loops.v reads the
   fitnesses AFTER the evaluation of the generation) *)
Definition fstep_plus_best (mu : nat) (lambda_ : Z) (cxpb mutpb : T) (gen : nat) (s : fstate) (_ : unit) : fres :=
  match call_var_or lambda_ cxpb mutpb s (f_pop s) with
  | (s', inr offspring) =>
      let h1 := V.hp s' in
      let h2 := fst (eval_heap h1 (invalid_of (view h1) offspring)) in
      FOk (ffinish gen s h1 (V.dr s') (f_kc s + V.kc s') offspring
                   (sel_best fle (view h2) (f_pop s ++ offspring) mu))
  | (_, inl e) => FRaise e
  end.

(* for gen in range(first, first + len(answers)), leaving at the first exception *)
Fixpoint frun {A} (step : nat -> fstate -> A -> fres) (gen : nat) (s : fstate) (l : list A) : fres :=
  match l with
  | [] => FOk s
  | a :: r =>
      match step gen s a with
      | FOk s' => frun step (S gen) s' r
      | FRaise e => FRaise e
      end
  end.

Definition full_simple (cxpb mutpb : T) (h : heap) (d : list (V.draw T)) (pop : list uid)
                       (sels : list (list nat)) : fres :=
  frun (fstep_simple cxpb mutpb) 1 (fgen0 (finit h d pop)) sels.

Definition full_plus (lambda_ : Z) (cxpb mutpb : T) (h : heap) (d : list (V.draw T)) (pop : list uid)
                     (sels : list (list nat)) : fres :=
  frun (fstep_plus lambda_ cxpb mutpb) 1 (fgen0 (finit h d pop)) sels.

(* assert lambda_ >= mu comes first *)
Definition full_comma (mu : nat) (lambda_ : Z) (cxpb mutpb : T) (h : heap) (d : list (V.draw T))
                      (pop : list uid) (sels : list (list nat)) : fres :=
  if (Z.of_nat mu <=? lambda_)%Z then frun (fstep_comma lambda_ cxpb mutpb) 1 (fgen0 (finit h d pop)) sels
  else FRaise V.AssertionError.

(* eaMuPlusLambda with selBest, ngen generations *)
Definition full_plus_best (mu : nat) (lambda_ : Z) (cxpb mutpb : T) (h : heap) (d : list (V.draw T))
                          (pop : list uid) (ngen : nat) : fres :=
  frun (fstep_plus_best mu lambda_ cxpb mutpb) 1 (fgen0 (finit h d pop)) (repeat tt ngen).

End Full.

Arguments FOk {G F T} s.
Arguments FRaise {G F T} e.
