(* Specification side of C05: Pareto dominance on weighted values, the dominance-depth (peeling)
   partition of a population, and what selNSGA2 assumes about the fronts handed to it by the
   sorter (`fronts_correct`), with an executable decision procedure used by the correspondence
   check on the fronts the implementation's sorter actually returned. *)
From Coq Require Import List ZArith Bool Lia Permutation.
From DV Require Import Base.Corr Base.PyList Base.C05_Sort Model.C05_Nsga2.
Import ListNotations.

(* a dominates b (maximisation of weighted values): no worse everywhere, better somewhere *)
Definition dom (a b : list Z) : bool :=
  Nat.eqb (length a) (length b) &&
  forallb (fun p => (snd p <=? fst p)%Z) (zip a b) &&
  existsb (fun p => (snd p <? fst p)%Z) (zip a b).

Section Spec.
  Context {A : Type}.
  Notation indA := (ind A).

  Definition uids (l : list indA) : list nat := map uid l.

  Definition dominated_in (rem : list indA) (x : indA) : bool :=
    existsb (fun y => dom (wv y) (wv x)) rem.

  (* peeling: layer 0 = members dominated by nobody; layer i+1 = layer 0 of the remainder *)
  Fixpoint layers_fuel (fuel : nat) (rem : list indA) : list (list indA) :=
    match fuel with
    | O => []
    | S f =>
        match rem with
        | [] => []
        | _ => filter (fun x => negb (dominated_in rem x)) rem
               :: layers_fuel f (filter (dominated_in rem) rem)
        end
    end.

  Definition layers (pop : list indA) : list (list indA) := layers_fuel (length pop) pop.

  Definition mem_uid (u : nat) (l : list indA) : bool := existsb (Nat.eqb u) (uids l).

  (* index of the layer holding uid u (= number of layers if there is none) *)
  Fixpoint depth_in (ls : list (list indA)) (u : nat) : nat :=
    match ls with
    | [] => 0
    | l :: r => if mem_uid u l then 0 else S (depth_in r u)
    end.

  Definition depth (pop : list indA) (x : indA) : nat := depth_in (layers pop) (uid x).

  Definition total (ls : list (list indA)) : nat := length (concat ls).

  (* individuals are numbered by position: the harness's canonical object identity *)
  Definition wf_pop (pop : list indA) : Prop := uids pop = seq 0 (length pop).

  (* What selNSGA2 relies on: the sorter returns, as sets and in depth order, the peeling layers
     of the population, cut after the first prefix that holds at least min(k, n) individuals;
     nothing at all for k = 0. *)
  Definition fronts_correct (pop : list indA) (k : nat) (fronts : list (list indA)) : Prop :=
    (forall f x, In f fronts -> In x f -> In x pop) /\
    match k with
    | O => fronts = []
    | S _ =>
        exists m, length fronts = S m /\
          Forall2 (fun f l => Permutation (uids f) (uids l)) fronts (firstn (S m) (layers pop)) /\
          total (firstn m (layers pop)) < Nat.min k (length pop) /\
          Nat.min k (length pop) <= total (firstn (S m) (layers pop))
    end.

  (* ---- executable decision of the hypothesis, fronts given as lists of uids ---- *)
  Definition select (pop : list indA) (us : list nat) : list indA :=
    flat_map (fun u => match nth_error pop u with Some x => [x] | None => [] end) us.

  Definition sort_nat (l : list nat) : list nat := sort_st Nat.ltb (fun x => x) l.
  Definition perm_nat_b (a b : list nat) : bool := list_eqb Nat.eqb (sort_nat a) (sort_nat b).

  Fixpoint forall2b {X Y} (p : X -> Y -> bool) (a : list X) (b : list Y) : bool :=
    match a, b with
    | [], [] => true
    | x :: a', y :: b' => p x y && forall2b p a' b'
    | _, _ => false
    end.

  Definition wf_pop_b (pop : list indA) : bool := list_eqb Nat.eqb (uids pop) (seq 0 (length pop)).

  Definition fronts_correct_b (pop : list indA) (k : nat) (fu : list (list nat)) : bool :=
    forallb (forallb (fun u => u <? length pop)) fu &&
    match k with
    | O => match fu with [] => true | _ => false end
    | S _ =>
        match length fu with
        | O => false
        | S m =>
            let ls := layers pop in
            forall2b (fun f l => perm_nat_b f (uids l)) fu (firstn (S m) ls) &&
            (total (firstn m ls) <? Nat.min k (length pop)) &&
            (Nat.min k (length pop) <=? total (firstn (S m) ls))
        end
    end.
End Spec.
