(* C13 — algebraic model of deap/cma.py class Strategy over an arbitrary real closed field
   (mathcomp matrices).  Two things are defined here, no proofs:

   * the TRANSCRIPTION of computeParams / __init__ / generate / update, line by line from the code
     (module Code below: numpy 1-D arrays are row vectors, numpy.dot(M, v) = v *m M^T, broadcasts
     are explicit);
   * module Spec: the (mu/mu_w, lambda)-CMA-ES generation step written from the published form
     (Hansen & Ostermeier 2001; Hansen, "The CMA Evolution Strategy: A Tutorial", eqs for m, p_sigma,
     h_sigma, p_c, C, sigma) and the parameter table of the Strategy docstring.

   Oracles are section variables: exp, ln (elementary functions), eigh (numpy.linalg.eigh), argsort.
   Proofs/C13_CMAalg.v proves the theorems under exactly the hypotheses they need. *)
From mathcomp Require Import all_ssreflect fingroup perm all_algebra.
Set Implicit Arguments.
Unset Strict Implicit.
Unset Printing Implicit Defensive.
Import GRing.Theory Num.Theory Order.TTheory.
Local Open Scope ring_scope.

Inductive scheme := Superlinear | Linear | Equal.

Section CMA.
Variable R : rcfType.
Variables n mu : nat.                      (* problem dimension, number of parents *)
Variables exp ln : R -> R.                 (* numpy.exp / math.log, numpy.log *)
Variable eigh : 'M[R]_n -> ('rV[R]_n * 'M[R]_n)%type.   (* numpy.linalg.eigh: (eigenvalues, eigenvectors) *)
Variable argsort : 'rV[R]_n -> 'S_n.       (* numpy.argsort as a permutation of the indices *)

(* ---- numpy conventions ----------------------------------------------------------------- *)
Definition dotMv (M : 'M[R]_n) (v : 'rV[R]_n) : 'rV[R]_n := v *m M^T.      (* numpy.dot(M, v) *)
Definition emul (u v : 'rV[R]_n) : 'rV[R]_n := \row_j (u 0 j * v 0 j).     (* u * v *)
Definition einv (d : 'rV[R]_n) : 'rV[R]_n := \row_j (1 / d 0 j).           (* 1. / d *)
Definition outer (u v : 'rV[R]_n) : 'M[R]_n := u^T *m v.                   (* numpy.outer *)
Definition norm (v : 'rV[R]_n) : R := Num.sqrt ((v *m v^T) 0 0).           (* numpy.linalg.norm *)
Definition colscale (M : 'M[R]_n) (d : 'rV[R]_n) : 'M[R]_n :=              (* M * d *)
  \matrix_(i, j) (M i j * d 0 j).
Definition rowbcast (w : 'rV[R]_mu) (M : 'M[R]_(n, mu)) : 'M[R]_(n, mu) := (* w * M *)
  \matrix_(i, k) (w 0 k * M i k).
Definition subrow (X : 'M[R]_(mu, n)) (m : 'rV[R]_n) : 'M[R]_(mu, n) :=    (* X - m *)
  \matrix_(i, j) (X i j - m 0 j).

(* ---- parameters -------------------------------------------------------------------------- *)
Record params := mkParams {
  p_weights : 'rV[R]_mu; p_mueff : R;
  p_cc : R; p_cs : R; p_ccov1 : R; p_ccovmu : R; p_damps : R; p_chiN : R
}.

(* user-supplied entries of **kargs *)
Record kargs := mkKargs {
  k_weights : scheme;
  k_ccum : option R; k_cs : option R; k_ccov1 : option R; k_ccovmu : option R; k_damps : option R
}.
Definition getd (o : option R) (d : R) : R := if o is Some x then x else d.

Record state := mkState {
  s_centroid : 'rV[R]_n; s_sigma : R; s_pc : 'rV[R]_n; s_ps : 'rV[R]_n;
  s_C : 'M[R]_n; s_B : 'M[R]_n; s_diagD : 'rV[R]_n; s_BD : 'M[R]_n; s_count : nat
}.

Definition half : R := 1 / 2%:R.

(* weights before normalisation; index i : 'I_mu stands for arange(1, mu+1)[i] = i+1 *)
Definition raw_weight (s : scheme) (i : nat) : R :=
  match s with
  | Superlinear => ln (mu%:R + half) - ln (i.+1)%:R
  | Linear => mu%:R + half - (i.+1)%:R
  | Equal => 1
  end.

Definition chiN_of : R :=
  Num.sqrt n%:R * (1 - 1 / (4%:R * n%:R) + 1 / (21%:R * n%:R ^+ 2)).

Definition compute_params (chiN : R) (k : kargs) : params :=
  let rw := \row_(i < mu) raw_weight (k_weights k) i in
  let sw := \sum_(i < mu) rw 0 i in
  let weights := \row_(i < mu) (rw 0 i / sw) in
  let mueff := 1 / \sum_(i < mu) (weights 0 i) ^+ 2 in
  let cc := getd (k_ccum k) (4%:R / (n%:R + 4%:R)) in
  let cs := getd (k_cs k) ((mueff + 2%:R) / (n%:R + mueff + 3%:R)) in
  let ccov1 := getd (k_ccov1 k) (2%:R / ((n%:R + 13%:R / 10%:R) ^+ 2 + mueff)) in
  let ccovmu0 := getd (k_ccovmu k)
                   (2%:R * (mueff - 2%:R + 1 / mueff) / ((n%:R + 2%:R) ^+ 2 + mueff)) in
  let ccovmu := Num.min (1 - ccov1) ccovmu0 in
  let damps0 := 1 + 2%:R * Num.max 0 (Num.sqrt ((mueff - 1) / (n%:R + 1)) - 1) + cs in
  mkParams weights mueff cc cs ccov1 ccovmu (getd (k_damps k) damps0) chiN.

(* indx = argsort(w); diagD = w[indx] ** 0.5; B = V[:, indx]; BD = B * diagD *)
Definition decompose (e : 'rV[R]_n * 'M[R]_n) : ('rV[R]_n * 'M[R]_n * 'M[R]_n)%type :=
  let indx := argsort e.1 in
  let diagD := \row_j Num.sqrt (e.1 0 (indx j)) in
  let B := col_perm indx e.2 in
  (diagD, B, colscale B diagD).

Definition init (centroid : 'rV[R]_n) (sigma : R) (cmatrix : option 'M[R]_n) (k : kargs)
  : (params * state)%type :=
  let C := if cmatrix is Some C0 then C0 else 1%:M in
  let d := decompose (eigh C) in
  (compute_params chiN_of k, mkState centroid sigma 0 0 C d.1.2 d.1.1 d.2 0).

(* generate: arz = standard_normal((lambda_, dim)); centroid + sigma * dot(arz, BD.T) row-wise *)
Definition generate (lambda_ : nat) (st : state) (arz : 'M[R]_(lambda_, n)) : 'M[R]_(lambda_, n) :=
  \matrix_(i, j) (s_centroid st 0 j + s_sigma st * (arz *m (s_BD st)^T) i j).

(* population.sort(key=fitness, reverse=True) for keys in an ordered type, then population[0:mu] *)
Section Sorting.
Variables (disp : unit) (K : orderType disp).
Definition better : rel (K * 'rV[R]_n) := fun a b => (b.1 <= a.1)%O.
Definition sort_pop (pop : seq (K * 'rV[R]_n)) := sort better pop.
Definition best_mu (pop : seq (K * 'rV[R]_n)) : 'M[R]_(mu, n) :=
  \matrix_(i < mu) nth 0 [seq p.2 | p <- sort_pop pop] i.
End Sorting.

Definition hsig_lhs (P : params) (count : nat) (ps : 'rV[R]_n) : R :=
  norm ps / Num.sqrt (1 - (1 - p_cs P) ^+ (2 * (count + 1))) / p_chiN P.
Definition hsig_rhs : R := 14%:R / 10%:R + 2%:R / (n%:R + 1).
Definition hsig_of (P : params) (count : nat) (ps : 'rV[R]_n) : R :=
  if hsig_lhs P count ps < hsig_rhs then 1 else 0.

(* update on the already sorted and truncated population X = population[0:mu] *)
Definition update_sorted (P : params) (st : state) (X : 'M[R]_(mu, n)) : state :=
  let old_centroid := s_centroid st in
  let centroid := p_weights P *m X in
  let c_diff := centroid - old_centroid in
  let cs := p_cs P in
  let cc := p_cc P in
  let ps := (1 - cs) *: s_ps st
            + (Num.sqrt (cs * (2%:R - cs) * p_mueff P) / s_sigma st)
              *: dotMv (s_B st) (emul (einv (s_diagD st)) (dotMv (s_B st)^T c_diff)) in
  let hsig := hsig_of P (s_count st) ps in
  let pc := (1 - cc) *: s_pc st
            + (hsig * Num.sqrt (cc * (2%:R - cc) * p_mueff P) / s_sigma st) *: c_diff in
  let artmp := subrow X old_centroid in
  let C := (1 - p_ccov1 P - p_ccovmu P + (1 - hsig) * p_ccov1 P * cc * (2%:R - cc)) *: s_C st
           + p_ccov1 P *: outer pc pc
           + (s_sigma st ^+ 2)^-1 *: (p_ccovmu P *: (rowbcast (p_weights P) artmp^T *m artmp)) in
  let sigma := s_sigma st * exp ((norm ps / p_chiN P - 1) * cs / p_damps P) in
  let d := decompose (eigh C) in
  mkState centroid sigma pc ps C d.1.2 d.1.1 d.2 (s_count st).+1.

Definition update (disp : unit) (K : orderType disp) (P : params) (st : state)
                  (pop : seq (K * 'rV[R]_n)) : state :=
  update_sorted P st (best_mu pop).

End CMA.
