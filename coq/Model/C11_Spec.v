(* Specification-level definitions for C11 that are also *evaluated* by the correspondence runner
   (no proofs here): the inductive tree, the parser from prefix lists, and the boolean versions of
   "complete prefix expression" and "well typed at e".  Proofs/C11_Parse.v proves that they decide
   the predicates the theorems use (complete_iff, wt_list_iff). *)
From Coq Require Import List ZArith NArith Bool.
From DV Require Import Model.C11_GPTree.
Import ListNotations.

Inductive tree := T (n : node) (ks : list tree).

Definition pforest (p : list node -> option (tree * list node)) :=
  fix pf (k : nat) (l : list node) : option (list tree * list node) :=
    match k with
    | O => Some ([], l)
    | S k' => match p l with
              | None => None
              | Some (t, r1) => match pf k' r1 with
                                | None => None
                                | Some (ts, r2) => Some (t :: ts, r2)
                                end
              end
    end.

(* parse fuel l = Some (t, rest): l starts with the complete expression t, followed by rest *)
Fixpoint parse (fuel : nat) (l : list node) : option (tree * list node) :=
  match fuel with
  | O => None
  | S f => match l with
           | [] => None
           | n :: r => match pforest (parse f) (arity n) r with
                       | None => None
                       | Some (ks, r') => Some (T n ks, r')
                       end
           end
  end.

(* a list is a complete prefix expression iff it parses with nothing left *)
Definition complete (l : list node) : bool :=
  match parse (length l) l with Some (_, []) => true | _ => false end.

Section TypedB.
  Variable sub : ty -> ty -> bool.

  Fixpoint typedb (e : ty) (t : tree) : bool :=
    match t with
    | T n ks => sub (nret n) e &&
                (fix go (ks : list tree) (tys : list ty) : bool :=
                   match ks, tys with
                   | [], [] => true
                   | k :: ks', a :: tys' => typedb a k && go ks' tys'
                   | _, _ => false
                   end) ks (nargs n)
    end.

  (* "l is the prefix form of a complete tree well typed at e" as a boolean *)
  Definition wt_list (e : ty) (l : list node) : bool :=
    match parse (length l) l with Some (t, []) => typedb e t | _ => false end.
End TypedB.
