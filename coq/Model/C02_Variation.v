(* Model of deap/algorithms.py: varAnd and varOr (after the fix: the reproduction branch of varOr
   clones), over an explicit object heap.

   Heap.  An individual is an object  uid |-> {geno; fitref}  whose attribute `fitness` points to a
   separate mutable Fitness object  fid |-> option F  (None = no values = invalid).  Allocation is
   explicit: the next individual gets uid `ni`, the next fitness object fid `nf`.
   toolbox.clone = copy.deepcopy allocates a fresh individual AND a fresh fitness object with
   equal contents (assumption on deepcopy, see C16).

   Operators.  toolbox.mate / toolbox.mutate are oracles (section variables) that see the call
   number and the contents of their argument objects and answer with
     - the new contents (genotype and fitness values) of each ARGUMENT object, and
     - for every returned position: "the first argument", "the second argument" or "a new object
       with this content".
   The way the answer is applied (do_mate/do_mut below: writes go to the argument objects only,
   returned objects are arguments or fresh allocations) is the frame hypothesis
   "operators touch only their argument objects".

   Randomness.  Every random.* call site consumes one typed record from the draw list:
   random.random() -> DRandom u, random.sample(population,2) -> DSample len i j (positions),
   random.choice(population) -> DChoice len i.  A record of the wrong kind, a wrong length, an
   out-of-range position or an exhausted list gives DrawMismatch.

   Numbers (cxpb, mutpb, the draws) are an abstract type T with the comparison/addition the code
   uses; Corr instantiates it with binary64 floats (bit exact), the theorems hold for every T. *)
From Coq Require Import List ZArith Bool Arith.
Import ListNotations.

Section Variation.
Variables G F T : Type.
Variables ltb leb : T -> T -> bool.
Variable add : T -> T -> T.
Variable one : T.

(* ---------------------------------------------------------------- heap *)
Record ind := mkind { geno : G; fitref : nat }.
Record heap := mkheap { ind_at : nat -> ind; fit_at : nat -> option F; ni : nat; nf : nat }.

Definition upd {A} (f : nat -> A) (k : nat) (v : A) : nat -> A :=
  fun j => if Nat.eqb j k then v else f j.

(* ind.fitness.values (None when invalid) and the pair (genotype, fitness values) *)
Definition fit_of (h : heap) (u : nat) : option F := fit_at h (fitref (ind_at h u)).
Definition content (h : heap) (u : nat) : G * option F := (geno (ind_at h u), fit_of h u).

(* a new individual together with its own new fitness object *)
Definition alloc (h : heap) (g : G) (f : option F) : heap * nat :=
  (mkheap (upd (ind_at h) (ni h) (mkind g (nf h))) (upd (fit_at h) (nf h) f) (S (ni h)) (S (nf h)),
   ni h).

(* copy.deepcopy(individual) *)
Definition clone (h : heap) (u : nat) : heap * nat := alloc h (geno (ind_at h u)) (fit_of h u).

(* an operator rewrites the genotype and the fitness values of one of its argument objects *)
Definition write (h : heap) (u : nat) (c : G * option F) : heap :=
  let i := ind_at h u in
  mkheap (upd (ind_at h) u (mkind (fst c) (fitref i))) (upd (fit_at h) (fitref i) (snd c)) (ni h) (nf h).

(* del ind.fitness.values *)
Definition del_fit (h : heap) (u : nat) : heap :=
  mkheap (ind_at h) (upd (fit_at h) (fitref (ind_at h u)) None) (ni h) (nf h).

(* ---------------------------------------------------------------- oracles *)
Inductive ret := RArg1 | RArg2 | RNew (c : G * option F).
Record mate_ans := mkmate { ma_1 : G * option F; ma_2 : G * option F; ma_r1 : ret; ma_r2 : ret }.
Inductive ret1 := UArg | UNew (c : G * option F).
Record mut_ans := mkmut { mu_1 : G * option F; mu_r : ret1 }.

Variable mate_o : nat -> G * option F -> G * option F -> mate_ans.
Variable mut_o : nat -> G * option F -> mut_ans.

(* ---------------------------------------------------------------- draws, events, state *)
Inductive draw := DRandom (u : T) | DSample (n i j : nat) | DChoice (n i : nat).
Inductive event :=
| EClone (src new : nat)
| EMate (k a b r1 r2 : nat)          (* k-th operator call: mate(a, b) returned (r1, r2) *)
| EMut (k a r : nat).                (* k-th operator call: mutate(a) returned (r,) *)
Inductive exn := AssertionError | ValueError | IndexError | DrawMismatch.

(* hp heap, dr remaining draws, kc number of operator calls so far, lg call log (newest first) *)
Record st := mkst { hp : heap; dr : list draw; kc : nat; lg : list event }.

Definition next_random (s : st) : option (T * st) :=
  match dr s with
  | DRandom u :: r => Some (u, mkst (hp s) r (kc s) (lg s))
  | _ => None
  end.

Definition do_clone (s : st) (u : nat) : st * nat :=
  let '(h, c) := clone (hp s) u in (mkst h (dr s) (kc s) (EClone u c :: lg s), c).

Definition resolve (h : heap) (a b : nat) (r : ret) : heap * nat :=
  match r with RArg1 => (h, a) | RArg2 => (h, b) | RNew c => alloc h (fst c) (snd c) end.

(* r1, r2 = toolbox.mate(a, b) *)
Definition do_mate (s : st) (a b : nat) : st * (nat * nat) :=
  let h := hp s in
  let ans := mate_o (kc s) (content h a) (content h b) in
  let h1 := write h a (ma_1 ans) in
  let h2 := write h1 b (ma_2 ans) in
  let '(h3, r1) := resolve h2 a b (ma_r1 ans) in
  let '(h4, r2) := resolve h3 a b (ma_r2 ans) in
  (mkst h4 (dr s) (S (kc s)) (EMate (kc s) a b r1 r2 :: lg s), (r1, r2)).

(* r, = toolbox.mutate(a) *)
Definition do_mut (s : st) (a : nat) : st * nat :=
  let h := hp s in
  let ans := mut_o (kc s) (content h a) in
  let h1 := write h a (mu_1 ans) in
  let '(h2, r) := match mu_r ans with UArg => (h1, a) | UNew c => alloc h1 (fst c) (snd c) end in
  (mkst h2 (dr s) (S (kc s)) (EMut (kc s) a r :: lg s), r).

Definition do_del (s : st) (u : nat) : st := mkst (del_fit (hp s) u) (dr s) (kc s) (lg s).

(* ---------------------------------------------------------------- varAnd *)
(* offspring = [toolbox.clone(ind) for ind in population] *)
Fixpoint clone_all (s : st) (pop : list nat) : st * list nat :=
  match pop with
  | [] => (s, [])
  | p :: r => let '(s1, c) := do_clone s p in
              let '(s2, cs) := clone_all s1 r in (s2, c :: cs)
  end.

(* for i in range(1, len(offspring), 2): the pairs (0,1), (2,3), ...; a trailing odd element is skipped
     if random.random() < cxpb:
         offspring[i-1], offspring[i] = toolbox.mate(offspring[i-1], offspring[i])
         del offspring[i-1].fitness.values, offspring[i].fitness.values *)
Fixpoint mate_loop (cxpb : T) (s : st) (l : list nat) : st * (exn + list nat) :=
  match l with
  | a :: b :: r =>
      match next_random s with
      | None => (s, inl DrawMismatch)
      | Some (u, s1) =>
          if ltb u cxpb then
            let '(s2, (r1, r2)) := do_mate s1 a b in
            let s3 := do_del (do_del s2 r1) r2 in
            match mate_loop cxpb s3 r with
            | (s4, inr r') => (s4, inr (r1 :: r2 :: r'))
            | (s4, inl e) => (s4, inl e)
            end
          else
            match mate_loop cxpb s1 r with
            | (s4, inr r') => (s4, inr (a :: b :: r'))
            | (s4, inl e) => (s4, inl e)
            end
      end
  | _ => (s, inr l)
  end.

(* for i in range(len(offspring)):
     if random.random() < mutpb:
         offspring[i], = toolbox.mutate(offspring[i]); del offspring[i].fitness.values *)
Fixpoint mut_loop (mutpb : T) (s : st) (l : list nat) : st * (exn + list nat) :=
  match l with
  | [] => (s, inr [])
  | a :: r =>
      match next_random s with
      | None => (s, inl DrawMismatch)
      | Some (u, s1) =>
          if ltb u mutpb then
            let '(s2, r1) := do_mut s1 a in
            let s3 := do_del s2 r1 in
            match mut_loop mutpb s3 r with
            | (s4, inr r') => (s4, inr (r1 :: r'))
            | (s4, inl e) => (s4, inl e)
            end
          else
            match mut_loop mutpb s1 r with
            | (s4, inr r') => (s4, inr (a :: r'))
            | (s4, inl e) => (s4, inl e)
            end
      end
  end.

Definition var_and (cxpb mutpb : T) (s : st) (pop : list nat) : st * (exn + list nat) :=
  let '(s1, off) := clone_all s pop in
  match mate_loop cxpb s1 off with
  | (s2, inr off2) => mut_loop mutpb s2 off2
  | (s2, inl e) => (s2, inl e)
  end.

(* ---------------------------------------------------------------- varOr *)
(* one iteration of `for _ in range(lambda_)`; returns the appended individual *)
Definition var_or_step (cxpb mutpb : T) (pop : list nat) (s : st) : st * (exn + nat) :=
  match next_random s with
  | None => (s, inl DrawMismatch)
  | Some (u, s1) =>
      if ltb u cxpb then
        (* random.sample(population, 2): ValueError when the population is smaller than the sample *)
        if Nat.ltb (length pop) 2 then (s1, inl ValueError) else
        match dr s1 with
        | DSample n i j :: rest =>
            match Nat.eqb n (length pop), nth_error pop i, nth_error pop j with
            | true, Some p1, Some p2 =>
                let s2 := mkst (hp s1) rest (kc s1) (lg s1) in
                let '(s3, c1) := do_clone s2 p1 in
                let '(s4, c2) := do_clone s3 p2 in
                let '(s5, (r1, _)) := do_mate s4 c1 c2 in
                (do_del s5 r1, inr r1)
            | _, _, _ => (s1, inl DrawMismatch)
            end
        | _ => (s1, inl DrawMismatch)
        end
      else
        (* both remaining branches start with random.choice(population): IndexError when empty *)
        if Nat.eqb (length pop) 0 then (s1, inl IndexError) else
        match dr s1 with
        | DChoice n i :: rest =>
            match Nat.eqb n (length pop), nth_error pop i with
            | true, Some p =>
                let s2 := mkst (hp s1) rest (kc s1) (lg s1) in
                let '(s3, c) := do_clone s2 p in
                if ltb u (add cxpb mutpb) then
                  let '(s4, r) := do_mut s3 c in (do_del s4 r, inr r)
                else (s3, inr c)
            | _, _ => (s1, inl DrawMismatch)
            end
        | _ => (s1, inl DrawMismatch)
        end
  end.

Fixpoint var_or_loop (cxpb mutpb : T) (pop : list nat) (n : nat) (s : st) : st * (exn + list nat) :=
  match n with
  | O => (s, inr [])
  | S n' =>
      match var_or_step cxpb mutpb pop s with
      | (s1, inl e) => (s1, inl e)
      | (s1, inr o) =>
          match var_or_loop cxpb mutpb pop n' s1 with
          | (s2, inr os) => (s2, inr (o :: os))
          | (s2, inl e) => (s2, inl e)
          end
      end
  end.

(* assert (cxpb + mutpb) <= 1.0 ; range(lambda_) is empty for lambda_ <= 0 *)
Definition var_or (lambda_ : Z) (cxpb mutpb : T) (s : st) (pop : list nat) : st * (exn + list nat) :=
  if leb (add cxpb mutpb) one then var_or_loop cxpb mutpb pop (Z.to_nat lambda_) s
  else (s, inl AssertionError).

(* ---------------------------------------------------------------- vocabulary of the theorems *)
(* every individual of the heap has an allocated fitness object *)
Definition wf_heap (h : heap) : Prop := forall u, u < ni h -> fitref (ind_at h u) < nf h.
Definition pop_ok (h : heap) (pop : list nat) : Prop := Forall (fun u => u < ni h) pop.

(* mutable locations: the individual object (attributes + genotype buffer) and its Fitness object *)
Inductive loc := LInd (u : nat) | LFit (v : nat).
Definition reach (h : heap) (u : nat) : list loc := [LInd u; LFit (fitref (ind_at h u))].

(* o "went through a crossover or a mutation": it was an argument or a result of an operator call *)
Definition ev_involves (e : event) (o : nat) : Prop :=
  match e with
  | EClone _ _ => False
  | EMate _ a b r1 r2 => o = a \/ o = b \/ o = r1 \/ o = r2
  | EMut _ a r => o = a \/ o = r
  end.
Definition varied (l : list event) (o : nat) : Prop := exists e, In e l /\ ev_involves e o.

(* mate returns two different objects *)
Definition ret_distinct (r1 r2 : ret) : Prop :=
  match r1, r2 with RArg1, RArg1 => False | RArg2, RArg2 => False | _, _ => True end.

(* ---- the four post-conditions of the property; h0/pop = heap and population given to the call,
        h/l = heap and call log afterwards, off = the returned list ---- *)
(* no pre-existing object (in particular no individual of the population) was modified *)
Definition untouched (h0 : heap) (pop : list nat) (h : heap) : Prop :=
  (forall u, u < ni h0 -> ind_at h u = ind_at h0 u) /\
  (forall v, v < nf h0 -> fit_at h v = fit_at h0 v) /\
  (forall p, In p pop -> content h p = content h0 p).

(* the offspring are pairwise distinct objects allocated during the call, each with its own fitness
   object allocated during the call; no location reachable from an offspring is reachable from any
   pre-existing individual, nor from another offspring *)
Definition independent (h0 h : heap) (off : list nat) : Prop :=
  NoDup off /\
  (forall o, In o off -> ni h0 <= o < ni h /\ nf h0 <= fitref (ind_at h o) < nf h) /\
  (forall o u x, In o off -> u < ni h0 -> In x (reach h o) -> ~ In x (reach h u)) /\
  (forall o o' x, In o off -> In o' off -> o <> o' -> In x (reach h o) -> ~ In x (reach h o')).

Definition varied_invalid (h : heap) (l : list event) (off : list nat) : Prop :=
  forall o, In o off -> varied l o -> fit_of h o = None.

(* a valid offspring was never given to / returned by an operator, and is the clone of a member of
   the population whose genotype and fitness values it still carries *)
Definition valid_is_parent_copy (h0 : heap) (pop : list nat) (h : heap) (l : list event)
                                (off : list nat) : Prop :=
  forall o f, In o off -> fit_of h o = Some f ->
    ~ varied l o /\
    exists p, In p pop /\ In (EClone p o) l /\
              geno (ind_at h o) = geno (ind_at h0 p) /\ fit_of h0 p = Some f.

(* the draw list a run of varOr over a population of npop individuals consumes without raising:
   n iterations, each `random()` followed by sample positions (crossover draw, needs two individuals)
   or by a choice position (needs one) *)
Fixpoint or_draws_ok (cxpb : T) (npop n : nat) (d : list draw) : Prop :=
  match n with
  | O => True
  | S n' =>
      match d with
      | DRandom u :: DSample m i j :: rest =>
          ltb u cxpb = true /\ 2 <= npop /\ m = npop /\ i < npop /\ j < npop /\ or_draws_ok cxpb npop n' rest
      | DRandom u :: DChoice m i :: rest =>
          ltb u cxpb = false /\ m = npop /\ i < npop /\ or_draws_ok cxpb npop n' rest
      | _ => False
      end
  end.

Definition start (h : heap) (d : list draw) : st := mkst h d 0 [].

End Variation.

Arguments mkind {G}. Arguments mkheap {G F}. Arguments mkmate {G F}. Arguments mkmut {G F}.
Arguments or_draws_ok {T}. Arguments untouched {G F}. Arguments independent {G F}. Arguments varied_invalid {G F}.
Arguments valid_is_parent_copy {G F}. Arguments wf_heap {G F}. Arguments pop_ok {G F}. Arguments reach {G F}. Arguments ret_distinct {G F}.
Arguments geno {G}. Arguments fitref {G}.
Arguments ind_at {G F}. Arguments fit_at {G F}. Arguments ni {G F}. Arguments nf {G F}.
Arguments fit_of {G F}. Arguments content {G F}. Arguments alloc {G F}. Arguments clone {G F}.
Arguments write {G F}. Arguments del_fit {G F}.
Arguments RArg1 {G F}. Arguments RArg2 {G F}. Arguments RNew {G F}.
Arguments UArg {G F}. Arguments UNew {G F}.
Arguments ma_1 {G F}. Arguments ma_2 {G F}. Arguments ma_r1 {G F}. Arguments ma_r2 {G F}.
Arguments mu_1 {G F}. Arguments mu_r {G F}.
Arguments DRandom {T}. Arguments DSample {T}. Arguments DChoice {T}.
Arguments hp {G F T}. Arguments dr {G F T}. Arguments kc {G F T}. Arguments lg {G F T}.
Arguments mkst {G F T}.
Arguments next_random {G F T}. Arguments do_clone {G F T}. Arguments resolve {G F}.
Arguments do_mate {G F T}. Arguments do_mut {G F T}. Arguments do_del {G F T}.
Arguments clone_all {G F T}. Arguments mate_loop {G F T}. Arguments mut_loop {G F T}.
Arguments var_and {G F T}. Arguments var_or_step {G F T}. Arguments var_or_loop {G F T}.
Arguments var_or {G F T}. Arguments start {G F T}.
