(* Model of deap/base.py: Fitness and ConstrainedFitness.
   wvalues are integers (order-isomorphic image of the finite floats involved);
   constraint_violation is None or a list of booleans (sum(...) > 0 <-> some True). *)
From Coq Require Import List ZArith Bool Lia.
From DV Require Import Base.PyTuple Base.PyList.
Import ListNotations.
Local Open Scope Z_scope.

Record fit := mkfit { wv : list Z; cv : option (list bool) }.

(* ---- Fitness ---- *)
(* setValues: tuple(map(mul, values, weights)); the assert makes unequal lengths an error *)
Definition set_values (w : list Z) (f : fit) (v : list Z) : option fit :=
  if Nat.eqb (length v) (length w) then Some (mkfit (map2 Z.mul v w) (cv f)) else None.
(* getValues: tuple(map(truediv, wvalues, weights)); exact whenever wvalues came from set_values *)
Definition get_values (w : list Z) (f : fit) : list Z := map2 Z.div (wv f) w.
Definition del_values (f : fit) : fit := mkfit [] (cv f).
Definition valid (f : fit) : bool := negb (Nat.eqb (length (wv f)) 0).

Definition f_lt (a b : fit) : bool := tup_cmp OpLt (wv a) (wv b).
Definition f_le (a b : fit) : bool := tup_cmp OpLe (wv a) (wv b).
Definition f_eq (a b : fit) : bool := tup_cmp OpEq (wv a) (wv b).
Definition f_gt (a b : fit) : bool := negb (f_le a b).
Definition f_ge (a b : fit) : bool := negb (f_lt a b).
Definition f_ne (a b : fit) : bool := negb (f_eq a b).

(* the loop of Fitness.dominates over zip(self.wvalues[obj], other.wvalues[obj]) *)
Fixpoint dom_loop (ps : list (Z * Z)) (not_equal : bool) : bool :=
  match ps with
  | [] => not_equal
  | (s, o) :: r => if s >? o then dom_loop r true
                   else if s <? o then false else dom_loop r not_equal
  end.

Record pyslice := mkslice { sl_start : option Z; sl_stop : option Z; sl_step : Z }.
Definition slice_all := mkslice None None 1.
Definition apply_slice {A} (l : list A) (s : pyslice) : list A :=
  py_slice l (sl_start s) (sl_stop s) (sl_step s).

Definition dominates (a b : fit) (obj : pyslice) : bool :=
  dom_loop (zip (apply_slice (wv a) obj) (apply_slice (wv b) obj)) false.

(* Fitness.__deepcopy__: new object of the class, wvalues copied *)
Definition deepcopy (f : fit) : fit := mkfit (wv f) None.

(* ---- ConstrainedFitness ---- *)
Definition violates (f : fit) : bool :=
  negb (valid f) && match cv f with None => false | Some l => existsb (fun b => b) l end.

Definition c_del_values (f : fit) : fit := mkfit [] None.

Definition c_le (a b : fit) : bool :=
  if violates a && violates b then true
  else if violates a then true
  else if violates b then false
  else tup_cmp OpLe (wv a) (wv b).
Definition c_lt (a b : fit) : bool :=
  if violates a && violates b then false
  else if violates a then true
  else if violates b then false
  else tup_cmp OpLt (wv a) (wv b).
Definition c_eq (a b : fit) : bool :=
  if violates a && violates b then true
  else if violates a then false
  else if violates b then false
  else tup_cmp OpEq (wv a) (wv b).
Definition c_gt (a b : fit) : bool := negb (c_le a b).
Definition c_ge (a b : fit) : bool := negb (c_lt a b).
Definition c_ne (a b : fit) : bool := negb (c_eq a b).
Definition c_dominates (a b : fit) : bool :=
  if violates a && violates b then false
  else if violates a then false
  else if violates b then true
  else dominates a b slice_all.

(* ConstrainedFitness.__deepcopy__ (after the fix: commit "fix: ConstrainedFitness clone keeps
   constraint_violation"): wvalues and constraint_violation both copied *)
Definition c_deepcopy (f : fit) : fit := mkfit (wv f) (cv f).

(* histories of assignments/deletions on one fitness object *)
Inductive fop := OSet (v : list Z) | ODel.
Definition step (w : list Z) (f : fit) (o : fop) : fit :=
  match o with
  | OSet v => match set_values w f v with Some f' => f' | None => f end
  | ODel => del_values f
  end.
Definition run_ops (w : list Z) (f : fit) (ops : list fop) : fit := fold_left (step w) ops f.
