(* C07 — executable model of deap/tools/emo.py: niching, associate_to_niche (argmin of the
   perpendicular distance), selNSGA3's selection logic, the best/worst-point memory of
   selNSGA3WithMemory.  find_extreme_points / find_intercepts (ASF + numpy.linalg.solve) are NOT
   modelled: the intercepts are an input recorded from the implementation.
   Individuals are indices into the input population.  No proofs here. *)
From Coq Require Import List ZArith Bool.
From DV Require Import Base.PyList Base.C07_Num.
Import ListNotations.

(* ------------------------------------------------------------------ *)
(* numpy.random.shuffle(arr): one draw = a code (list of naturals); every code yields a
   permutation of arr and every permutation has a code (element i of arr is inserted at
   position code[i] mod (i+1) among the elements already placed).  A missing code reads as 0. *)
Fixpoint shuffle_ins {A} (l : list A) (code : list nat) (acc : list A) : list A :=
  match l with
  | [] => acc
  | x :: r => shuffle_ins r (tl code) (insert_at (Nat.modulo (hd 0%nat code) (S (length acc))) x acc)
  end.
Definition shuffle {A} (l : list A) (code : list nat) : list A := shuffle_ins l code [].

Definition next_draw (ds : list (list nat)) : list nat * list (list nat) := (hd [] ds, tl ds).

(* ------------------------------------------------------------------ *)
Section Niching.
Context {T : Type} (ltb : T -> T -> bool) (dflt : T).

(* numpy.argmin(distances[idx]) : first position of the minimum *)
Fixpoint argmin_from (dist : list T) (best : nat) (l : list nat) : nat :=
  match l with
  | [] => best
  | i :: r => if ltb (nth i dist dflt) (nth best dist dflt) then argmin_from dist i r
              else argmin_from dist best r
  end.
Definition argmin_first (dist : list T) (l : list nat) : option nat :=
  match l with [] => None | i :: r => Some (argmin_from dist i r) end.

Record nstate := mkns {
  ns_sel : list nat;          (* selected: indices into the last front, in order *)
  ns_avail : list bool;       (* available *)
  ns_counts : list nat;       (* niche_counts *)
  ns_draws : list (list nat);
  ns_err : bool               (* an index/empty-array error the implementation would raise *)
}.

(* available_niches[numpy.unique(niches[available])] = True *)
Definition avail_niche (niches : list nat) (avail : list bool) (c : nat) : bool :=
  existsb (fun i => nth i avail false && Nat.eqb (nth i niches 0%nat) c) (seq 0 (length niches)).

(* numpy.min(niche_counts[available_niches]) *)
Definition min_count (niches : list nat) (avail : list bool) (counts : list nat) : option nat :=
  fold_left (fun m c => if avail_niche niches avail c
                        then match m with None => Some (nth c counts 0%nat)
                                        | Some v => Some (Nat.min v (nth c counts 0%nat)) end
                        else m) (seq 0 (length counts)) None.

(* body of "for niche in selected_niches" *)
Definition pick_step (niches : list nat) (dist : list T) (s : nstate) (niche : nat) : nstate :=
  let inds := filter (fun i => Nat.eqb (nth i niches 0%nat) niche && nth i (ns_avail s) false)
                     (seq 0 (length niches)) in
  let '(code, ds) := next_draw (ns_draws s) in
  let sh := shuffle inds code in
  let pick := if Nat.eqb (nth niche (ns_counts s) 0%nat) 0 then argmin_first dist sh else hd_error sh in
  match pick with
  | None => mkns (ns_sel s) (ns_avail s) (ns_counts s) ds true
  | Some si => mkns (ns_sel s ++ [si]) (set_nth (ns_avail s) si false)
                    (set_nth (ns_counts s) niche (S (nth niche (ns_counts s) 0%nat))) ds (ns_err s)
  end.

(* the niches chosen in one round: minimal count among the available ones, shuffled, at most n *)
Definition round_niches (niches : list nat) (k : nat) (s : nstate) : option (list nat * list (list nat)) :=
  match min_count niches (ns_avail s) (ns_counts s) with
  | None => None
  | Some mc =>
      let sn := filter (fun c => avail_niche niches (ns_avail s) c && Nat.eqb (nth c (ns_counts s) 0%nat) mc)
                       (seq 0 (length (ns_counts s))) in
      let '(code, ds) := next_draw (ns_draws s) in
      Some (firstn (k - length (ns_sel s)) (shuffle sn code), ds)
  end.

(* body of "while len(selected) < k" *)
Definition round (niches : list nat) (dist : list T) (k : nat) (s : nstate) : nstate :=
  match round_niches niches k s with
  | None => mkns (ns_sel s) (ns_avail s) (ns_counts s) (ns_draws s) true
  | Some (sn, ds) =>
      fold_left (pick_step niches dist) sn (mkns (ns_sel s) (ns_avail s) (ns_counts s) ds (ns_err s))
  end.

Fixpoint niching_loop (fuel : nat) (niches : list nat) (dist : list T) (k : nat) (s : nstate) : nstate :=
  match fuel with
  | O => s
  | S f => if ns_err s then s
           else if Nat.ltb (length (ns_sel s)) k then niching_loop f niches dist k (round niches dist k s)
           else s
  end.

(* niching(individuals, k, niches, distances, niche_counts); individuals = positions 0..m-1 with
   m = len(niches).  Every round selects at least one individual, so k rounds suffice. *)
Definition niching (k : nat) (niches : list nat) (dist : list T) (counts : list nat)
                   (draws : list (list nat)) : nstate :=
  niching_loop k niches dist k (mkns [] (repeat true (length niches)) counts draws false).

Definition niching_ok (k : nat) (s : nstate) : bool := negb (ns_err s) && Nat.eqb (length (ns_sel s)) k.

(* ---- selNSGA3 after the association step (lines 558-574) ---- *)
Definition count_occ_nat (l : list nat) (c : nat) : nat := length (filter (Nat.eqb c) l).

Record nsga3_out := mkout { o_chosen : list nat; o_counts : list nat; o_draws : list (list nat); o_ok : bool }.

Definition nsga3_core (fronts : list (list nat)) (k R : nat) (niches : list nat) (dist : list T)
                      (draws : list (list nat)) : nsga3_out :=
  let lastf := last fronts [] in
  let chosen := concat (removelast fronts) in
  let sel_count := length chosen in
  (* niche_counts[index] = counts over niches[:-len(pareto_fronts[-1])] *)
  let counts0 := tab R (count_occ_nat (firstn sel_count niches)) in
  let n := k - sel_count in
  let s := niching n (skipn sel_count niches) (skipn sel_count dist) counts0 draws in
  mkout (chosen ++ map (fun i => nth i lastf 0%nat) (ns_sel s)) (ns_counts s) (ns_draws s)
        (niching_ok n s).

End Niching.

(* ------------------------------------------------------------------ *)
(* associate_to_niche (lines 620-637) *)
Section Associate.
Context {T : Type} (Op : numops T).
Local Notation zero := (n_ofZ Op 0%Z).

Definition dot (a b : list T) : T :=
  fold_left (fun acc p => n_add Op acc (n_mul Op (fst p) (snd p))) (zip a b) zero.

(* fn = (fitnesses - best_point) / (intercepts - best_point + eps) *)
Fixpoint normalise (eps : T) (f best icpt : list T) : list T :=
  match f, best, icpt with
  | x :: f', b :: best', c :: icpt' =>
      n_div Op (n_sub Op x b) (n_add Op (n_sub Op c b) eps) :: normalise eps f' best' icpt'
  | _, _, _ => []
  end.

(* squared norm of  (fn . r / |r|) * r / |r|  -  fn *)
Definition perp_d2 (fn r : list T) : T :=
  let t := n_div Op (dot fn r) (dot r r) in
  let diff := map2 (fun x y => n_sub Op (n_mul Op t y) x) fn r in
  dot diff diff.

(* numpy.argmin over the reference points: first minimum *)
Fixpoint argmin_vals (vals : list T) (i besti : nat) (best : T) : nat :=
  match vals with
  | [] => besti
  | v :: r => if n_ltb Op v best then argmin_vals r (S i) i v else argmin_vals r (S i) besti best
  end.
Definition argmin_list (vals : list T) : nat :=
  match vals with [] => 0%nat | v :: r => argmin_vals r 1%nat 0%nat v end.

Definition associate_one (refs : list (list T)) (fn : list T) : nat :=
  argmin_list (map (perp_d2 fn) refs).

Definition associate (eps : T) (fits refs : list (list T)) (best icpt : list T) : list nat :=
  map (fun f => associate_one refs (normalise eps f best icpt)) fits.

End Associate.

(* ------------------------------------------------------------------ *)
(* selNSGA3: fitnesses = -wvalues in front order; best/worst points with optional memory *)
Definition neg_rows (wv : list (list Z)) : list (list Z) := map (map Z.opp) wv.

Definition col_fold (f : Z -> Z -> Z) (rows : list (list Z)) : list Z :=
  match rows with
  | [] => []
  | r :: rest => fold_left (fun acc row => map2 f acc row) rest r
  end.

(* numpy.min(numpy.concatenate((fitnesses, best_point)), axis=0); None = no memory / +-inf row *)
Definition update_best (prev : option (list Z)) (fits : list (list Z)) : list Z :=
  col_fold Z.min (fits ++ match prev with Some b => [b] | None => [] end).
Definition update_worst (prev : option (list Z)) (fits : list (list Z)) : list Z :=
  col_fold Z.max (fits ++ match prev with Some b => [b] | None => [] end).

(* find_extreme_points (lines 577-593) on integer-valued fitnesses (exact in binary64: the products
   with 1e6 stay far below 2^53).  rows = fitnesses, followed by the previous extreme points if any;
   asf[i][n] = max_c (rows[n][c] - best[c]) * (1 if i = c else 1e6);  extreme[i] = rows[argmin_n asf[i][n]] *)
Definition list_max (l : list Z) : Z := match l with [] => 0%Z | x :: r => fold_left Z.max r x end.

Definition asf_weight (i c : nat) : Z := if Nat.eqb i c then 1%Z else 1000000%Z.

Definition asf_val (best : list Z) (i : nat) (row : list Z) : Z :=
  list_max (map (fun c => ((nth c row 0 - nth c best 0) * asf_weight i c)%Z) (seq 0 (length best))).

Fixpoint argmin_z_from (vals : list Z) (i besti : nat) (best : Z) : nat :=
  match vals with
  | [] => besti
  | v :: r => if (v <? best)%Z then argmin_z_from r (S i) i v else argmin_z_from r (S i) besti best
  end.
Definition argmin_z (vals : list Z) : nat :=
  match vals with [] => 0%nat | v :: r => argmin_z_from r 1%nat 0%nat v end.

Definition find_extreme_points (fits : list (list Z)) (best : list Z) (prev : option (list (list Z)))
  : list (list Z) :=
  let rows := fits ++ match prev with Some e => e | None => [] end in
  map (fun i => nth (argmin_z (map (asf_val best i) rows)) rows []) (seq 0 (length best)).

(* selNSGA3WithMemory.__call__ threaded over a sequence of calls; each call contributes the
   fitness rows (already multiplied by -1) of the fronts it sorted; the state is
   (best_point, worst_point, extreme_points), initially (+inf, -inf, None) *)
Fixpoint memory_trace (best worst : option (list Z)) (ext : option (list (list Z)))
                      (calls : list (list (list Z))) : list (list Z * list Z * list (list Z)) :=
  match calls with
  | [] => []
  | fits :: r =>
      let b := update_best best fits in
      let w := update_worst worst fits in
      let e := find_extreme_points fits b ext in
      (b, w, e) :: memory_trace (Some b) (Some w) (Some e) r
  end.

(* the whole selection, exact instance: association computed by the model *)
Definition nsga3 {T} (Op : numops T) (eps : T) (fits : list (list T)) (fronts : list (list nat))
                 (k : nat) (refs : list (list T)) (best icpt : list T) (dist : list T)
                 (draws : list (list nat)) : list nat * nsga3_out :=
  let niches := associate Op eps fits refs best icpt in
  (niches, nsga3_core (n_ltb Op) (n_ofZ Op 0%Z) fronts k (length refs) niches dist draws).
