(* Heap-level model of HallOfFame / ParetoFront: individuals are mutable objects in a store,
   populations and the archive's two lists hold references (locations), the user may overwrite
   the objects he holds in place at any time, and  item = deepcopy(item)  in insert allocates a
   fresh object with the same contents.  Reads of fitnesses / contents go through the store at
   the time of the read, so aliasing would be visible.  Executable; proofs in Proofs/C08_HeapSim.v.

   A location stands for an individual together with its fitness object (keys hold the fitness
   object of an archive member, i.e. the member's location). *)
From Coq Require Import List ZArith Bool Lia.
From DV Require Import Base.PyTuple Base.PyList Model.C01_Fitness Model.C08_Archive.
Import ListNotations.
Local Open Scope Z_scope.

Record obj := mkobj { o_geno : list Z; o_wv : list Z }.
Definition heap := list obj.
Definition null_obj := mkobj [] [].
Definition deref (hp : heap) (l : nat) : obj := nth l hp null_obj.

Record harch := mkharch { hkeys : list nat; hitems : list nat }.

Section Heap.
  Variable sim : obj -> obj -> bool.       (* the similarity operator, reading both objects *)

  Definition hfit (hp : heap) (l : nat) : list Z := o_wv (deref hp l).
  Definition hsim (hp : heap) (a b : nat) : bool := sim (deref hp a) (deref hp b).

  (* insert: item = deepcopy(item) allocates; then bisect on the keys' current fitnesses *)
  Definition h_insert (hp : heap) (a : harch) (x : nat) : heap * harch :=
    let item := length hp in
    let hp' := hp ++ [deref hp x] in
    let i := Z.of_nat (bisect_right (map (hfit hp') (hkeys a)) (hfit hp' item)) in
    let items' := py_insert (hitems a) (zlen (hitems a) - i) item in
    let keys' := py_insert (hkeys a) i item in
    (hp', mkharch keys' items').

  Definition h_remove (a : harch) (index : Z) : option harch :=
    let n := zlen (hitems a) in
    if n =? 0 then None
    else match py_del (hkeys a) (n - (index mod n + 1)) with
         | None => None
         | Some ks => match py_del (hitems a) index with
                      | None => None
                      | Some its => Some (mkharch ks its)
                      end
         end.

  Definition h_hof_step (maxsize : Z) (pop0 : option nat) (st : option (heap * harch)) (x : nat)
    : option (heap * harch) :=
    match st with
    | None => None
    | Some (hp, a) =>
        let n := zlen (hitems a) in
        if (n =? 0) && negb (maxsize =? 0) then
          match pop0 with Some p => Some (h_insert hp a p) | None => None end
        else
          match py_get (hitems a) (-1) with
          | None => None
          | Some worst =>
              if fit_gt (hfit hp x) (hfit hp worst) || (n <? maxsize) then
                if existsb (hsim hp x) (hitems a) then Some (hp, a)
                else
                  match (if n >=? maxsize then h_remove a (-1) else Some a) with
                  | None => None
                  | Some a1 => Some (h_insert hp a1 x)
                  end
              else Some (hp, a)
          end
    end.

  Definition h_hof_update (maxsize : Z) (hp : heap) (a : harch) (pop : list nat) : option (heap * harch) :=
    fold_left (h_hof_step maxsize (hd_error pop)) pop (Some (hp, a)).

  Definition h_remove_all (a : harch) (idx : list Z) : option harch :=
    fold_left (fun o i => match o with None => None | Some a' => h_remove a' i end) idx (Some a).

  Definition h_pf_step (st : option (heap * harch)) (x : nat) : option (heap * harch) :=
    match st with
    | None => None
    | Some (hp, a) =>
        let '(is_dominated, has_twin, to_remove) :=
          pf_scan nat (hfit hp) (hsim hp) x (hitems a) 0 false [] in
        match h_remove_all a (rev to_remove) with
        | None => None
        | Some a1 => if negb is_dominated && negb has_twin then Some (h_insert hp a1 x) else Some (hp, a1)
        end
    end.

  Definition h_pf_update (hp : heap) (a : harch) (pop : list nat) : option (heap * harch) :=
    fold_left h_pf_step pop (Some (hp, a)).

  (* what the user does: overwrite one of his objects in place, or call a method *)
  Inductive hop :=
  | HSet (l : nat) (o : obj)
  | HUpdate (pop : list nat)
  | HInsert (x : nat)
  | HRemove (i : Z)
  | HClear.

  Definition h_apply (kind : option Z) (st : heap * harch) (o : hop) : option (heap * harch) :=
    let '(hp, a) := st in
    match o with
    | HSet l ob => Some (set_nth hp l ob, a)
    | HUpdate p => match kind with Some m => h_hof_update m hp a p | None => h_pf_update hp a p end
    | HInsert x => Some (h_insert hp a x)
    | HRemove i => match h_remove a i with Some a' => Some (hp, a') | None => None end
    | HClear => Some (hp, mkharch [] [])
    end.

  Fixpoint h_trace (kind : option Z) (st : heap * harch) (hops : list hop) : list (option (heap * harch)) :=
    match hops with
    | [] => []
    | o :: r => match h_apply kind st o with
                | None => [None]
                | Some st' => Some st' :: h_trace kind st' r
                end
    end.

  (* what an observer sees of the archive: the fitness values behind the keys, the objects behind the items *)
  Definition view (st : heap * harch) : hof obj :=
    let '(hp, a) := st in mkhof (map (hfit hp) (hkeys a)) (map (deref hp) (hitems a)).

  (* ---- the same history seen from the value-level model: the user's objects are snapshotted at
     every call, in-place modification does not touch the archive ---- *)
  Definition abs_op (u : heap) (o : hop) : op obj :=
    match o with
    | HSet _ _ => OClear   (* unused *)
    | HUpdate p => OUpdate (map (deref u) p)
    | HInsert x => OInsert (deref u x)
    | HRemove i => ORemove i
    | HClear => OClear
    end.

  Fixpoint vtrace (kind : option Z) (u : heap) (h : hof obj) (hops : list hop) : list (option (hof obj)) :=
    match hops with
    | [] => []
    | HSet l ob :: r => Some h :: vtrace kind (set_nth u l ob) h r
    | o :: r => match apply_op obj o_wv sim kind h (abs_op u o) with
                | None => [None]
                | Some h' => Some h' :: vtrace kind u h' r
                end
    end.
End Heap.

Definition osimilar (k : simkind) (a b : obj) : bool :=
  csimilar k (mkind 0 (o_geno a) (o_wv a)) (mkind 0 (o_geno b) (o_wv b)).
