(* C07 — run-time library of the regenerated definitions (tie (T), harness/c07_py2coq.py -> coq/Gen/C07_gen.v).
   Only what the translator's output refers to: loops with explicit fuel, the early-exit loop of
   `while True: ... return`, list update at a Z index, the typed draw site random.randint.
   Conventions (the same as the hand model Model/C07_Spea2.v, part of the trusted base of the tie):
   * a `while` runs with the fuel the signature table gives; an exhausted fuel reads as loop exit
     (`while_`) / as the table's "exhausted" return value (`loop_ret`, recursive functions);
   * random.randint(a, b) consumes one element of the draw list; an exhausted list reads as a.
   No proofs about the C07 models here (those are in Proofs/C07_gen_equiv.v), only generic loop lemmas. *)
From Coq Require Import List ZArith Bool Lia.
From DV Require Import Base.PyList Base.C07_Num Model.C07_RefPoints Model.C07_Spea2.
Import ListNotations.

Inductive ctl (S R : Type) : Type := Next (s : S) | Ret (r : R).
Arguments Next {S R} s. Arguments Ret {S R} r.

(* while True: body   — the body either falls through (Next) or returns (Ret) *)
Fixpoint loop_ret {S R : Type} (fuel : nat) (body : S -> ctl S R) (dflt : S -> R) (s : S) : R :=
  match fuel with
  | O => dflt s
  | Datatypes.S f => match body s with Next s' => loop_ret f body dflt s' | Ret r => r end
  end.

(* while c: body *)
Fixpoint while_ {S : Type} (fuel : nat) (c : S -> bool) (b : S -> S) (s : S) : S :=
  match fuel with
  | O => s
  | Datatypes.S f => if c s then while_ f c b (b s) else s
  end.

(* for x in xs: body   (no break / return inside) *)
Definition for_ {A S : Type} (xs : list A) (body : A -> S -> S) (s : S) : S :=
  fold_left (fun st x => body x st) xs s.

(* for x in xs: body, where the body may `break` (Ret of the state at the break) *)
Fixpoint for_brk {A S : Type} (xs : list A) (body : A -> S -> ctl S S) (s : S) : S :=
  match xs with
  | [] => s
  | x :: r => match body x s with Next s' => for_brk r body s' | Ret s' => s' end
  end.

(* range(a, b) over Z *)
Definition zrange (a b : Z) : list Z := map (fun i => (a + Z.of_nat i)%Z) (seq 0 (Z.to_nat (b - a))).

Definition setz {T} (arr : list T) (i : Z) (v : T) : list T := set_nth arr (Z.to_nat i) v.

Definition randint (b e : Z) (ds : list Z) : Z * list Z :=
  match ds with r :: d => (r, d) | [] => (b, []) end.

(* ---- generic loop lemmas: two loops with pointwise equal guards / bodies are equal ---- *)
Lemma while_ext {S} fuel (c c' : S -> bool) (b b' : S -> S) s :
  (forall x, c x = c' x) -> (forall x, b x = b' x) -> while_ fuel c b s = while_ fuel c' b' s.
Proof.
  intros Hc Hb. revert s. induction fuel as [|f IH]; intro s; cbn; [reflexivity|].
  rewrite Hc. destruct (c' s); [|reflexivity]. rewrite Hb. apply IH.
Qed.

Lemma loop_ret_ext {S R} fuel (body body' : S -> ctl S R) (d d' : S -> R) s :
  (forall x, body x = body' x) -> (forall x, d x = d' x) -> loop_ret fuel body d s = loop_ret fuel body' d' s.
Proof.
  intros Hb Hd. revert s. induction fuel as [|f IH]; intro s; cbn; [apply Hd|].
  rewrite Hb. destruct (body' s); [apply IH|reflexivity].
Qed.

Lemma for_ext {A S} (xs : list A) (f g : A -> S -> S) s :
  (forall x st, In x xs -> f x st = g x st) -> for_ xs f s = for_ xs g s.
Proof.
  unfold for_. revert s. induction xs as [|x r IH]; intros s H; cbn; [reflexivity|].
  rewrite H by now left. apply IH. intros y st Hy. apply H. now right.
Qed.


(* enumerate(xs, s) *)
Definition enum {A} (s : nat) (xs : list A) : list (nat * A) := combine (seq s (length xs)) xs.

Lemma for_enum {A S} (d : A) (xs : list A) s (body : nat * A -> S -> S) st :
  for_ (enum s xs) body st = for_ (seq s (length xs)) (fun j => body (j, nth (j - s) xs d)) st.
Proof.
  revert s st. induction xs as [|x r IH]; intros s st; [reflexivity|].
  unfold enum, for_ in *. cbn [length seq combine fold_left].
  rewrite Nat.sub_diag. cbn [nth]. rewrite IH.
  apply (for_ext (seq (Datatypes.S s) (length r))). intros j st' Hj. apply in_seq in Hj.
  replace (j - s)%nat with (Datatypes.S (j - Datatypes.S s)) by lia. reflexivity.
Qed.

Lemma for_app {A S} (l1 l2 : list A) (f : A -> S -> S) s : for_ (l1 ++ l2) f s = for_ l2 f (for_ l1 f s).
Proof. unfold for_. apply fold_left_app. Qed.

Lemma for_flat_map {A B S} (f : B -> S -> S) (g : A -> list B) l s :
  for_ (flat_map g l) f s = for_ l (fun i st => for_ (g i) f st) s.
Proof.
  revert s. induction l as [|a l IH]; intro s; [reflexivity|].
  cbn [flat_map]. rewrite for_app, IH. reflexivity.
Qed.

Lemma for_map {A B S} (h : A -> B) l (f : B -> S -> S) s : for_ (map h l) f s = for_ l (fun x => f (h x)) s.
Proof. revert s. induction l as [|a l IH]; intro s; [reflexivity|]. cbn. apply IH. Qed.

Lemma nth_skipn {A} (l : list A) k n d : nth n (skipn k l) d = nth (k + n) l d.
Proof. revert l. induction k as [|k IH]; intro l; [reflexivity|]. destruct l; [now destruct n|]. cbn. apply IH. Qed.

Lemma set_nth_set_nth {A} (l : list A) i a b : set_nth (set_nth l i a) i b = set_nth l i b.
Proof. revert i. induction l as [|x r IH]; intro i; destruct i; cbn; [reflexivity|reflexivity|reflexivity|now rewrite IH]. Qed.

Lemma nth_set_nth_same {A} (l : list A) k v d : (k < length l)%nat -> nth k (set_nth l k v) d = v.
Proof. revert k. induction l as [|x r IH]; intros k H; [cbn in H; lia|]. destruct k; cbn; [reflexivity|]. apply IH. cbn in H. lia. Qed.

Lemma nth_set_nth_other {A} (l : list A) k j v d : k <> j -> nth j (set_nth l k v) d = nth j l d.
Proof.
  revert k j. induction l as [|x r IH]; intros k j H; [now destruct k|].
  destruct k, j; cbn; try reflexivity; [congruence|]. apply IH. congruence.
Qed.

(* a loop that accumulates into entry i of a list *)
Lemma for_accum_entry {B} (dl : list B) (g : B -> nat) (i : nat) : forall (fits : list nat), (i < length fits)%nat ->
  for_ dl (fun j f => set_nth f i (nth i f 0 + g j)%nat) fits
  = set_nth fits i (fold_left (fun acc j => (acc + g j)%nat) dl (nth i fits 0%nat)).
Proof.
  induction dl as [|j dl IH]; intros fits Hi.
  - cbn. clear - Hi. revert i Hi. induction fits as [|x r IH]; intros i Hi; [cbn in Hi; lia|].
    destruct i; cbn; [reflexivity|]. f_equal. apply IH. cbn in Hi. lia.
  - unfold for_ in *. cbn [fold_left]. rewrite IH by (now rewrite set_nth_length).
    rewrite nth_set_nth_same by exact Hi. apply set_nth_set_nth.
Qed.

Lemma set_nth_app_mid {A} (pre post : list A) x v n : length pre = n -> set_nth (pre ++ x :: post) n v = pre ++ v :: post.
Proof. revert n. induction pre as [|y pre IH]; intros n L; cbn in L; subst n; [reflexivity|]. cbn. f_equal. now apply IH. Qed.

(* for i in range(N): fits[i] = h i fits[i]   on a list of length N *)
Lemma for_each_entry {A} (d : A) (h : nat -> A -> A) : forall N (f0 : list A), length f0 = N ->
  for_ (seq 0 N) (fun i f => set_nth f i (h i (nth i f d))) f0 = map (fun i => h i (nth i f0 d)) (seq 0 N).
Proof.
  intros N f0 HN.
  assert (G : forall n, (n <= N)%nat ->
    for_ (seq 0 n) (fun i f => set_nth f i (h i (nth i f d))) f0
    = map (fun i => h i (nth i f0 d)) (seq 0 n) ++ skipn n f0).
  { induction n as [|n IH]; intro Hn; [reflexivity|].
    rewrite seq_S, for_app, IH by lia. cbn [for_ fold_left plus]. rewrite map_app. cbn [map].
    set (pre := map (fun i => h i (nth i f0 d)) (seq 0 n)).
    assert (Lp : length pre = n) by (unfold pre; now rewrite map_length, seq_length).
    assert (Hs : skipn n f0 = nth n f0 d :: skipn (Datatypes.S n) f0).
    { clear - HN Hn. revert f0 N HN Hn. induction n as [|n IH]; intros f0 N HN Hn.
      - destruct f0; [cbn in HN; lia|reflexivity].
      - destruct f0 as [|x r]; [cbn in HN; lia|]. cbn [skipn nth]. apply (IH r (length r) eq_refl). cbn in HN. lia. }
    rewrite Hs. rewrite app_nth2 by lia. rewrite Lp, Nat.sub_diag. cbn [nth].
    rewrite <- app_assoc. cbn [app]. apply set_nth_app_mid. exact Lp. }
  rewrite G by lia. rewrite skipn_all2 by lia. apply app_nil_r.
Qed.

Lemma map_nth_seq {A B} (f : A -> B) (l : list A) d : map f l = map (fun i => f (nth i l d)) (seq 0 (length l)).
Proof.
  induction l as [|x r IH]; [reflexivity|]. cbn [length seq map nth]. f_equal.
  rewrite IH at 1. rewrite <- seq_shift, map_map. reflexivity.
Qed.

(* pointwise equal bodies on the states an invariant allows *)
Lemma for_ext_inv {A S} (P : S -> Prop) (xs : list A) (f g : A -> S -> S) s :
  P s -> (forall x st, In x xs -> P st -> f x st = g x st /\ P (g x st)) -> for_ xs f s = for_ xs g s.
Proof.
  unfold for_. revert s. induction xs as [|x r IH]; intros s Hs H; cbn; [reflexivity|].
  destruct (H x s (or_introl eq_refl) Hs) as [E Q]. rewrite E. apply IH; [exact Q|].
  intros y st Hy. apply H. now right.
Qed.

(* the hand model of uniform_reference_points (Model/C07_RefPoints.v: numerators gen_num, division at the end) seen
   through the interface of the nested generator gen_refs_recursive(ref, nobj, left, total, depth): the first `depth`
   entries of `ref` followed by numerator / total.  (The alias a refused gen_refs_recursive is emitted as, and the
   right-hand side of its equivalence lemma.) *)
Definition gen_refs_model {T} (Op : numops T) (fuel : nat) (ref : list T) (nobj left total depth : Z) : list (list T) :=
  map (fun nums => firstn (Z.to_nat depth) ref
                   ++ map (fun i => n_div Op (n_ofZ Op (Z.of_nat i)) (n_ofZ Op total)) nums)
      (gen_num (Z.to_nat nobj - 1 - Z.to_nat depth) (Z.to_nat left) []).

(* ---- Python numbers in a list that holds ints first and floats later (selSPEA2's `fits`) ---- *)
Inductive pynum (T : Type) : Type := PI (n : nat) | PF (x : T).
Arguments PI {T} n. Arguments PF {T} x.

Definition pn_val {T} (Op : numops T) (p : pynum T) : T :=
  match p with PI n => n_ofZ Op (Z.of_nat n) | PF x => x end.

(* int + int is an int; anything with a float is a float (the int is converted) *)
Definition padd {T} (Op : numops T) (a b : pynum T) : pynum T :=
  match a, b with
  | PI x, PI y => PI (x + y)
  | _, _ => PF (n_add Op (pn_val Op a) (pn_val Op b))
  end.

(* list.sort() on (number, index) tuples: Python's tuple order ((==) on the first component, then <), ints compared
   through their float value (exact below 2^53); the result of a sort is determined by the order, rendered as the
   same insertion sort as the hand model's sort_pairs *)
Definition pn_conv {T} (Op : numops T) (p : pynum T * nat) : T * nat := (pn_val Op (fst p), snd p).
Fixpoint ins_pn {T} (Op : numops T) (x : pynum T * nat) (l : list (pynum T * nat)) : list (pynum T * nat) :=
  match l with
  | [] => [x]
  | y :: r => if pair_lt Op (pn_conv Op x) (pn_conv Op y) then x :: l else y :: ins_pn Op x r
  end.
Definition sort_pn {T} (Op : numops T) (l : list (pynum T * nat)) : list (pynum T * nat) := fold_right (ins_pn Op) [] l.

Lemma sort_pn_conv {T} (Op : numops T) (l : list (pynum T * nat)) :
  map (pn_conv Op) (sort_pn Op l) = sort_pairs Op (map (pn_conv Op) l).
Proof.
  induction l as [|x l IH]; [reflexivity|]. cbn [sort_pn sort_pairs fold_right map]. fold (sort_pn Op l).
  fold (sort_pairs Op (map (pn_conv Op) l)). rewrite <- IH. generalize (sort_pn Op l) as s. intro s.
  induction s as [|y s IHs]; [reflexivity|]. cbn [ins_pn ins_sorted map].
  destruct (pair_lt Op (pn_conv Op x) (pn_conv Op y)); cbn [map]; [reflexivity|]. now rewrite IHs.
Qed.

(* xs[:z] for an int z: a negative bound counts from the end *)
Definition py_firstn {A} (z : Z) (l : list A) : list A :=
  if (z <? 0)%Z then firstn (length l - Z.to_nat (- z)) l else firstn (Z.to_nat z) l.

(* for j in range(a, a+n): d[j] = g j *)
Lemma for_set_range_spec {A} (g : nat -> A) (d0 : A) : forall n a (st : list A), (a + n <= length st)%nat ->
  length (for_ (seq a n) (fun j d => set_nth d j (g j)) st) = length st /\
  forall j, nth j (for_ (seq a n) (fun j d => set_nth d j (g j)) st) d0
            = if (a <=? j)%nat && (j <? a + n)%nat then g j else nth j st d0.
Proof.
  induction n as [|n IH]; intros a st H.
  - unfold for_. cbn [seq fold_left]. split; [reflexivity|]. intro j. replace (a + 0)%nat with a by lia.
    destruct (Nat.leb_spec a j), (Nat.ltb_spec j a); cbn [andb]; try reflexivity; lia.
  - cbn [seq]. unfold for_ in *. cbn [fold_left].
    destruct (IH (Datatypes.S a) (set_nth st a (g a))) as [L Hn]; [rewrite set_nth_length; lia|].
    rewrite set_nth_length in L. split; [exact L|]. intro j. rewrite Hn.
    destruct (Nat.eq_dec a j) as [->|Ne].
    + rewrite nth_set_nth_same by lia.
      destruct (Nat.leb_spec (Datatypes.S j) j); [lia|]. cbn [andb].
      destruct (Nat.leb_spec j j); [|lia]. destruct (Nat.ltb_spec j (j + Datatypes.S n)); [reflexivity|lia].
    + rewrite nth_set_nth_other by exact Ne.
      destruct (Nat.leb_spec (Datatypes.S a) j), (Nat.leb_spec a j); cbn [andb]; try lia; try reflexivity.
      destruct (Nat.ltb_spec j (Datatypes.S a + n)), (Nat.ltb_spec j (a + Datatypes.S n)); try lia; reflexivity.
Qed.

Lemma zip_nth_seq {A B} (a : list A) (b : list B) da db L : length a = L -> length b = L ->
  zip a b = map (fun l => (nth l a da, nth l b db)) (seq 0 L).
Proof.
  revert b L. induction a as [|x a IH]; intros b L Ha Hb; destruct b as [|y b]; cbn in *; subst L; try discriminate; [reflexivity|].
  cbn [seq map nth]. f_equal. rewrite <- seq_shift, map_map. apply IH; [reflexivity|congruence].
Qed.

Lemma filter_map_comm {A B} (f : B -> bool) (g : A -> B) l : filter f (map g l) = map g (filter (fun x => f (g x)) l).
Proof. induction l as [|x l IH]; [reflexivity|]. cbn. destruct (f (g x)); cbn; now rewrite IH. Qed.
