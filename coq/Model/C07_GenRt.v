(* C07 — run-time library of the regenerated definitions (tie (T), harness/c07_py2coq.py -> coq/Gen/C07_gen.v).
   Only what the translator's output refers to: loops with explicit fuel, the early-exit loop of
   `while True: ... return`, list update at a Z index, the typed draw site random.randint.
   Conventions (the same as the hand model Model/C07_Spea2.v, part of the trusted base of the tie):
   * a `while` runs with the fuel the signature table gives; an exhausted fuel reads as loop exit
     (`while_`) / as the table's "exhausted" return value (`loop_ret`, recursive functions);
   * random.randint(a, b) consumes one element of the draw list; an exhausted list reads as a.
   No proofs about the C07 models here (those are in Proofs/C07_gen_equiv.v), only generic loop lemmas. *)
From Coq Require Import List ZArith Bool Lia.
From DV Require Import Base.PyList Base.C07_Num.
Import ListNotations.

Inductive ctl (S R : Type) : Type := Next (s : S) | Ret (r : R).
Arguments Next {S R} s. Arguments Ret {S R} r.

(* while True: body   — the body either falls through (Next) or returns (Ret) *)
Fixpoint loop_ret {S R : Type} (fuel : nat) (body : S -> ctl S R) (dflt : S -> R) (s : S) : R :=
  match fuel with
  | O => dflt s
  | Datatypes.S f => match body s with Next s' => loop_ret f body dflt s' | Ret r => r end
  end.

(* while c: body *)
Fixpoint while_ {S : Type} (fuel : nat) (c : S -> bool) (b : S -> S) (s : S) : S :=
  match fuel with
  | O => s
  | Datatypes.S f => if c s then while_ f c b (b s) else s
  end.

(* for x in xs: body   (no break / return inside) *)
Definition for_ {A S : Type} (xs : list A) (body : A -> S -> S) (s : S) : S :=
  fold_left (fun st x => body x st) xs s.

(* for x in xs: body, where the body may `break` (Ret of the state at the break) *)
Fixpoint for_brk {A S : Type} (xs : list A) (body : A -> S -> ctl S S) (s : S) : S :=
  match xs with
  | [] => s
  | x :: r => match body x s with Next s' => for_brk r body s' | Ret s' => s' end
  end.

(* range(a, b) over Z *)
Definition zrange (a b : Z) : list Z := map (fun i => (a + Z.of_nat i)%Z) (seq 0 (Z.to_nat (b - a))).

Definition setz {T} (arr : list T) (i : Z) (v : T) : list T := set_nth arr (Z.to_nat i) v.

Definition randint (b e : Z) (ds : list Z) : Z * list Z :=
  match ds with r :: d => (r, d) | [] => (b, []) end.

(* ---- generic loop lemmas: two loops with pointwise equal guards / bodies are equal ---- *)
Lemma while_ext {S} fuel (c c' : S -> bool) (b b' : S -> S) s :
  (forall x, c x = c' x) -> (forall x, b x = b' x) -> while_ fuel c b s = while_ fuel c' b' s.
Proof.
  intros Hc Hb. revert s. induction fuel as [|f IH]; intro s; cbn; [reflexivity|].
  rewrite Hc. destruct (c' s); [|reflexivity]. rewrite Hb. apply IH.
Qed.

Lemma loop_ret_ext {S R} fuel (body body' : S -> ctl S R) (d d' : S -> R) s :
  (forall x, body x = body' x) -> (forall x, d x = d' x) -> loop_ret fuel body d s = loop_ret fuel body' d' s.
Proof.
  intros Hb Hd. revert s. induction fuel as [|f IH]; intro s; cbn; [apply Hd|].
  rewrite Hb. destruct (body' s); [apply IH|reflexivity].
Qed.

Lemma for_ext {A S} (xs : list A) (f g : A -> S -> S) s :
  (forall x st, In x xs -> f x st = g x st) -> for_ xs f s = for_ xs g s.
Proof.
  unfold for_. revert s. induction xs as [|x r IH]; intros s H; cbn; [reflexivity|].
  rewrite H by now left. apply IH. intros y st Hy. apply H. now right.
Qed.

