(* Model of deap/tools/emo.py: sortNondominated (Deb's fast non-dominated sort over distinct
   fitnesses), transcribed statement by statement, plus the executable peeling specification
   of dominance depth.  No proofs here (Proofs/C04_NDSort.v).

   An individual is (uid, wvalues): uid = position in the input list (object identity),
   wvalues = ind.fitness.wvalues as integers (C01: value * weight; any finite set of floats
   under <,== is order-isomorphic to integers and the quadratic sort only compares). *)
From Coq Require Import List ZArith Bool Lia.
From DV Require Import Base.PyTuple Base.PyList Model.C01_Fitness.
Import ListNotations.
Local Open Scope Z_scope.

Definition wvals := list Z.
Definition ind := (nat * wvals)%type.
Definition uid (x : ind) : nat := fst x.
Definition iw (x : ind) : wvals := snd x.

(* Fitness.__eq__ / __hash__ : equality of the wvalues tuples *)
Definition key_eqb (a b : wvals) : bool := tup_cmp OpEq a b.

(* Fitness.dominates(other) with obj = slice(None): the loop of C01 over zip(wvalues, wvalues) *)
Definition nd_dom (a b : wvals) : bool := dom_loop (zip a b) false.

(* ---- dict / defaultdict keyed by fitness, insertion ordered ---- *)
Section KMap.
  Context {V : Type}.
  Definition kmap := list (wvals * V).
  Fixpoint kget (m : kmap) (k : wvals) (d : V) : V :=
    match m with
    | [] => d
    | (k', v) :: r => if key_eqb k' k then v else kget r k d
    end.
  Fixpoint kset (m : kmap) (k : wvals) (v : V) : kmap :=
    match m with
    | [] => [(k, v)]
    | (k', v') :: r => if key_eqb k' k then (k', v) :: r else (k', v') :: kset r k v
    end.
  Definition kkeys (m : kmap) : list wvals := map fst m.
End KMap.
Arguments kmap : clear implicits.

(* map_fit_ind = defaultdict(list); for ind in individuals: map_fit_ind[ind.fitness].append(ind) *)
Definition group_step (m : kmap (list ind)) (x : ind) : kmap (list ind) :=
  kset m (iw x) (kget m (iw x) [] ++ [x]).
Definition group_inds (pop : list ind) : kmap (list ind) := fold_left group_step pop [].

(* state of the two defaultdicts *)
Record ndstate := mkst { cnt : kmap Z;            (* dominating_fits : defaultdict(int)  *)
                         dl : kmap (list wvals)   (* dominated_fits  : defaultdict(list) *) }.

Definition cnt_of (s : ndstate) (f : wvals) : Z := kget (cnt s) f 0.
Definition dl_of (s : ndstate) (f : wvals) : list wvals := kget (dl s) f [].

(* body of `for fit_j in fits[i+1:]` *)
Definition pair_step (fi : wvals) (s : ndstate) (fj : wvals) : ndstate :=
  if nd_dom fi fj then mkst (kset (cnt s) fj (cnt_of s fj + 1)) (kset (dl s) fi (dl_of s fi ++ [fj]))
  else if nd_dom fj fi then mkst (kset (cnt s) fi (cnt_of s fi + 1)) (kset (dl s) fj (dl_of s fj ++ [fi]))
  else s.

(* `for i, fit_i in enumerate(fits)`: fits[i+1:] is the tail; the test dominating_fits[fit_i] == 0
   is made after the inner loop (reading a defaultdict inserts the key; unobservable) *)
Fixpoint phase1 (fits : list wvals) (s : ndstate) (cur : list wvals) : ndstate * list wvals :=
  match fits with
  | [] => (s, cur)
  | fi :: r =>
      let s' := fold_left (pair_step fi) r s in
      phase1 r s' (if cnt_of s' fi =? 0 then cur ++ [fi] else cur)
  end.

(* state of one pass of the while body: counters, next_front, pareto_sorted, fronts[-1] *)
Record exp_state := mkexp { e_cnt : kmap Z; e_next : list wvals; e_sorted : Z; e_last : list ind }.

(* body of `for fit_d in dominated_fits[fit_p]` *)
Definition expand_step (mfi : kmap (list ind)) (e : exp_state) (fd : wvals) : exp_state :=
  let c := kget (e_cnt e) fd 0 - 1 in
  let cm := kset (e_cnt e) fd c in
  if c =? 0 then mkexp cm (e_next e ++ [fd]) (e_sorted e + zlen (kget mfi fd [])) (e_last e ++ kget mfi fd [])
  else mkexp cm (e_next e) (e_sorted e) (e_last e).

(* `for fit_p in current_front: for fit_d in dominated_fits[fit_p]` *)
Definition expand_front (mfi : kmap (list ind)) (dlm : kmap (list wvals)) (cur : list wvals) (e : exp_state) : exp_state :=
  fold_left (fun e fp => fold_left (expand_step mfi) (kget dlm fp []) e) cur e.

(* `while pareto_sorted < N` with explicit fuel; None = fuel exhausted (proved impossible) *)
Fixpoint nd_loop (fuel : nat) (mfi : kmap (list ind)) (dlm : kmap (list wvals)) (N : Z)
         (c : kmap Z) (cur : list wvals) (sorted : Z) (fronts : list (list ind)) : option (list (list ind)) :=
  if sorted <? N then
    match fuel with
    | O => None
    | S fu =>
        let e := expand_front mfi dlm cur (mkexp c [] sorted []) in
        nd_loop fu mfi dlm N (e_cnt e) (e_next e) (e_sorted e) (fronts ++ [e_last e])
    end
  else Some fronts.

Definition sort_nd (pop : list ind) (k : Z) (first_front_only : bool) : option (list (list ind)) :=
  if k =? 0 then Some [] else
  let mfi := group_inds pop in
  let fits := kkeys mfi in
  let '(s, cur) := phase1 fits (mkst [] []) [] in
  let front0 := flat_map (fun f => kget mfi f []) cur in
  let sorted := zlen front0 in
  if first_front_only then Some [front0]
  else nd_loop (length fits) mfi (dl s) (Z.min (zlen pop) k) (cnt s) cur sorted [front0].

(* ---------------------------------------------------------------------------------------- *)
(* Specification: dominance depth by peeling.                                               *)
Definition idom (y x : ind) : bool := nd_dom (iw y) (iw x).
Definition nondominated (rem : list ind) (x : ind) : bool := negb (existsb (fun y => idom y x) rem).

(* front 0 = elements of rem dominated by nobody in rem; front i+1 = front 0 of the remainder *)
Fixpoint peel (fuel : nat) (rem : list ind) : list (list ind) :=
  match fuel with
  | O => []
  | S fu =>
      match rem with
      | [] => []
      | _ => filter (nondominated rem) rem :: peel fu (filter (fun x => negb (nondominated rem x)) rem)
      end
  end.
Definition spec_fronts (pop : list ind) : list (list ind) := peel (length pop) pop.

(* shortest non-empty prefix of the fronts whose total size reaches the target *)
Fixpoint cut_reach {A} (target acc : Z) (fs : list (list A)) : list (list A) :=
  match fs with
  | [] => []
  | F :: r => let acc' := acc + zlen F in
              if acc' <? target then F :: cut_reach target acc' r else [F]
  end.

Definition spec_sort (pop : list ind) (k : Z) (first_front_only : bool) : list (list ind) :=
  if k =? 0 then []
  else if first_front_only then firstn 1 (spec_fronts pop)
  else cut_reach (Z.min (zlen pop) k) 0 (spec_fronts pop).
