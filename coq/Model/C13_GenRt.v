(* C13 — run-time vocabulary of the regenerated definitions (tie (T), harness/c13_py2coq.py).
   Every primitive the translator may emit for a numpy / builtin call of deap/cma.py is defined here
   on the list model of Model/C13_CMAexec.v (generic number record [Num]); nothing else is trusted
   about them: Proofs/C13_gen_equiv.v unfolds them.

     numpy.arange(a, b)           g_arange a b        (ints a <= b; the values as numbers)
     numpy.log(array)             g_vlog
     scalar - array               g_ssub   (broadcast)      array / scalar   g_vdivs
     array ** n  (n int literal)  g_vpow                     numpy.ones(n)    g_ones
     sum(array) / numpy.sum       vsum (left to right from 0, as the hand model)
     max(a, b) / min(a, b)        g_max / g_min  (CPython: the first argument wins a tie)
     float(a < b)                 g_of_bool (n_ltb a b)
     a <= b                       g_leb  (a < b or a == b; the record has no <=)
     x ** e, e an integral float  npow x e   (repeated multiplication, the hand model's convention)
     int(a / b) on ints           Nat.div    (a, b naturals below 2^53)
     int(x) on a float            ftrunc     (float instance only: default lambda_) *)
From Coq Require Import List Bool Arith PrimFloat.
From DV Require Import Base.C13_FloatFun Model.C13_CMAexec.
Import ListNotations.

Section Rt.
Context {T : Type} (Nm : Num T).

Definition g_arange (a b : nat) : list T := map (n_of_nat Nm) (seq a (b - a)).
Definition g_vlog (v : list T) : list T := map (n_ln Nm) v.
Definition g_ssub (s : T) (v : list T) : list T := map (fun x => n_sub Nm s x) v.
Definition g_vdivs (v : list T) (s : T) : list T := map (fun x => n_div Nm x s) v.
Definition g_vpow (v : list T) (n : nat) : list T := map (fun x => npow Nm x n) v.
Definition g_ones (n : nat) : list T := repeat (n_of_nat Nm 1) n.
Definition g_max (a b : T) : T := if n_ltb Nm a b then b else a.
Definition g_min (a b : T) : T := if n_ltb Nm b a then b else a.
Definition g_of_bool (b : bool) : T := if b then n_of_nat Nm 1 else n_of_nat Nm 0.
Definition g_leb (a b : T) : bool := n_ltb Nm a b || n_eqb Nm a b.

(* the step-size line of [update_core], named (Proofs/C13_gen_equiv.v: [update_core_sigma]) *)
Definition m_sigma_of (P : params) (st : state) (ps : list T) : T :=
  n_mul Nm (s_sigma st)
        (n_exp Nm (n_div Nm (n_mul Nm (n_sub Nm (n_div Nm (norm Nm ps) (p_chiN P)) (n_of_nat Nm 1)) (p_cs P))
                            (p_damps P))).

End Rt.
