(* C07 — selNSGA3 (deap/tools/emo.py lines 492-575) as ONE function of the population: nothing
   is an input recorded from the implementation any more.

     pareto_fronts = sortNondominated(individuals, k) | sortLogNondominated(individuals, k)
         -> C04's models sort_nd / sort_log (Model/C04_NDSort.v, Model/C04_LogSort.v), called with
            the arguments selNSGA3 passes (k, first_front_only = False)
     fitnesses = -wvalues of the chained pareto_fronts                       (nd-sort order)
     best_point / worst_point  (with the optional memory)               -> update_best / update_worst
     extreme_points = find_extreme_points(fitnesses, best_point, extreme_points)
     front_worst = max(fitnesses[:sum(len(f) for f in pareto_fronts)])   (= all rows)
     intercepts = find_intercepts(...)                                   -> Model/C07_Intercepts.v
     niches, dist = associate_to_niche(fitnesses, ref_points, best_point, intercepts)
     niche counts, chosen, niching                                       -> nsga3_core

   An individual is C04's (uid, wvalues) with integer wvalues; uid = position in the input list.
   Distances: the code takes numpy.linalg.norm (a square root) of the residual; the model keeps the
   squared norm (monotone, so every argmin is the same over exact arithmetic).  No proofs here. *)
From Coq Require Import List ZArith QArith Bool.
From DV Require Import Base.PyList Base.C07_Num Model.C07_Nsga3 Model.C07_RefPoints Model.C07_Intercepts
                       Model.C04_NDSort Model.C04_LogSort.
Import ListNotations.

Definition np_eps : Q := 1 # 4503599627370496.          (* numpy.finfo(float).eps = 2^-52 *)

Definition qz (l : list Z) : list Q := map inject_Z l.

(* nd = "log" | "standard" ; both sorters are called as sorter(individuals, k) *)
Definition sort_fronts (log : bool) (pop : list ind) (k : nat) : option (list (list ind)) :=
  if log then option_map log_fronts (sort_log pop (Z.of_nat k) false)
  else sort_nd pop (Z.of_nat k) false.

(* distances[list(range(n)), niches], squared *)
Definition assoc_d2 (eps : Q) (fits refs : list (list Q)) (best icpt : list Q) (niches : list nat) : list Q :=
  map2 (fun f c => perp_d2 q_ops (normalise q_ops eps f best icpt) (nth c refs [])) fits niches.

Record full_out := mkfull {
  f_fronts : list (list nat);        (* pareto_fronts, as uids *)
  f_best : list Z;                   (* memory.best_point *)
  f_worst : list Z;                  (* memory.worst_point *)
  f_ext : list (list Z);             (* memory.extreme_points *)
  f_branch : icpt_branch;
  f_icpt : list Q;                   (* intercepts *)
  f_niches : list nat;
  f_d2 : list Q;
  f_core : nsga3_out                 (* chosen (uids), final niche counts, remaining draws, ok *)
}.

(* mem = Some (best_point, worst_point) when BOTH are given (the code tests
   `best_point is not None and worst_point is not None`), pext = extreme_points.
   nsga3_full_gen is parameterised by the intercept function only so that the correspondence can
   replay a boundary decision of the float code (Corr/C07.v); the model is nsga3_full. *)
Definition icpt_fun := list (list Q) -> list Q -> list Q -> list Q -> icpt_branch * list Q.

Definition nsga3_full_gen (icptf : icpt_fun) (log : bool) (pop : list ind) (k : nat) (refs : list (list Q))
                      (mem : option (list Z * list Z)) (pext : option (list (list Z)))
                      (draws : list (list nat)) : option full_out :=
  match sort_fronts log pop k with
  | None => None
  | Some fs =>
      let fits := map (fun x => map Z.opp (iw x)) (concat fs) in
      let best := update_best (option_map fst mem) fits in
      let worst := update_worst (option_map snd mem) fits in
      let ext := find_extreme_points fits best pext in
      let front_worst := update_worst None fits in
      let '(br, icpt) := icptf (map qz ext) (qz best) (qz worst) (qz front_worst) in
      let fitsq := map qz fits in
      let niches := associate q_ops np_eps fitsq refs (qz best) icpt in
      let d2 := assoc_d2 np_eps fitsq refs (qz best) icpt niches in
      let fronts := map (map uid) fs in
      Some (mkfull fronts best worst ext br icpt niches d2
                   (nsga3_core q_ltb 0%Q fronts k (length refs) niches d2 draws))
  end.

Definition nsga3_full := nsga3_full_gen find_intercepts_b.
