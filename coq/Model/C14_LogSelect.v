(* C14 — StrategyMultiObjective._select with the sorter the code calls.

     pareto_fronts = tools.sortLogNondominated(candidates, len(candidates))

   Model/C14_exec.v (mo_select) peels; here the fronts come from C04's model of
   sortLogNondominated (Model/C04_LogSort.v : sort_log, called with k = len(candidates),
   first_front_only = False), and the rest of _select (fill_fronts, hv_removals) is the code of
   Model/C14_exec.v unchanged.  mo_select_fronts is _select after the sort, for any list of
   fronts; mo_select of C14_exec.v is mo_select_fronts on the peeled fronts (mo_select_is_fronts,
   by computation).  Candidates are C04's individuals: (position among the candidates, integer
   weighted values).  No proofs here. *)
From Coq Require Import List ZArith Bool.
From DV Require Import Model.C14_exec Model.C04_NDSort Model.C04_LogSort.
Import ListNotations.

(* the body of _select after the sort (candidates more numerous than mu) *)
Definition mo_select_fronts (mu : nat) (fronts : list (list nat)) (hv : list nat)
  : list nat * list nat * list (list nat) :=
  let '(chosen, mid, not_chosen) := fill_fronts mu fronts [] None [] false in
  let k := (mu - length chosen)%nat in
  match k, mid with
  | S _, Some midf =>
      let '(midf', removed, seen) := hv_removals (length midf - k) midf hv [] [] in
      (chosen ++ midf', not_chosen ++ removed, seen)
  | _, _ => (chosen, not_chosen, [])
  end.

Definition cand_pop (wvs : list (list Z)) : list ind := combine (seq 0 (length wvs)) wvs.

(* None: the sorter failed (proved impossible for well-formed candidates) *)
Definition mo_select_log (mu : nat) (wvs : list (list Z)) (hv : list nat)
  : option (list nat * list nat * list (list nat)) :=
  let n := length wvs in
  if Nat.leb n mu then Some (seq 0 n, [], [])
  else match sort_log (cand_pop wvs) (Z.of_nat n) false with
       | Some r => Some (mo_select_fronts mu (map (map uid) (log_fronts r)) hv)
       | None => None
       end.
