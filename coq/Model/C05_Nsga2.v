(* Executable model of deap/tools/emo.py: assignCrowdingDist and selNSGA2 (the part after the
   non-dominated sort).  The model is generic in the arithmetic (record numops) so that the very
   same definition is evaluated
     - with IEEE binary64 floats (PrimFloat) : compared bit for bit with CPython,
     - with exact rationals + infinity       : the instance the numeric theorem talks about.
   The fronts are an input (what sortNondominated / sortLogNondominated returned);
   Model/C05_Spec.v says what is assumed about them (fronts_correct). *)
From Coq Require Import List ZArith QArith Bool Lia PrimFloat Uint63.
From DV Require Import Base.PyList Base.C05_Sort.
Import ListNotations.

Record numops := mkops {
  V : Type;                      (* objective values (Python floats) *)
  D : Type;                      (* crowding distances (Python floats incl. inf) *)
  vltb : V -> V -> bool;         (* a < b   (the only comparison list.sort uses) *)
  veqb : V -> V -> bool;         (* a == b *)
  vsub : V -> V -> V;
  vnorm : nat -> V -> V;         (* nobj * float(x) *)
  vdiv : V -> V -> D;            (* a / norm *)
  vzero : V;                     (* default for out-of-range reads (never reached on well-formed input) *)
  dzero : D;                     (* 0.0 *)
  dinf : D;                      (* float("inf") *)
  dadd : D -> D -> D;
  dltb : D -> D -> bool          (* a < b on distances (used by sorted(key=crowding_dist)) *)
}.

(* an individual: identity, weighted values as an order-isomorphic integer image (used only by the
   specification of the fronts), raw objective values (fitness.values, what crowding reads) *)
Record ind (A : Type) := mkind { uid : nat; wv : list Z; vals : list A }.
Arguments mkind {A}. Arguments uid {A}. Arguments wv {A}. Arguments vals {A}.

Fixpoint zip3 {A B C} (a : list A) (b : list B) (c : list C) : list (A * B * C) :=
  match a, b, c with
  | x :: a', y :: b', z :: c' => (x, y, z) :: zip3 a' b' c'
  | _, _, _ => []
  end.

Section Model.
  Variable o : numops.
  Notation Vt := (V o). Notation Dt := (D o).

  (* crowd = [(ind.fitness.values, i) for i, ind in enumerate(individuals)] *)
  Definition centry := (list Vt * nat)%type.
  (* key=lambda element: element[0][i] *)
  Definition key_i (i : nat) (e : centry) : Vt := nth i (fst e) (vzero o).

  (* zip(crowd[:-2], crowd[1:-1], crowd[2:]) *)
  Definition triples {A} (l : list A) : list (A * A * A) :=
    zip3 (removelast (removelast l)) (removelast (tl l)) (tl (tl l)).

  (* distances[cur[1]] += (next[0][i] - prev[0][i]) / norm *)
  Definition bump (i : nat) (norm : Vt) (d : list Dt) (t : centry * centry * centry) : list Dt :=
    let '(p, c, x) := t in
    set_nth d (snd c) (dadd o (nth (snd c) d (dzero o)) (vdiv o (vsub o (key_i i x) (key_i i p)) norm)).

  (* body of `for i in range(nobj)` ; state = (crowd, distances) *)
  Definition crowd_step (nobj : nat) (st : list centry * list Dt) (i : nat) : list centry * list Dt :=
    let crowd := sort_st (vltb o) (key_i i) (fst st) in                 (* crowd.sort(key=...) *)
    match crowd with
    | [] => (crowd, snd st)
    | first :: _ =>
        let lst := last crowd first in
        let d1 := set_nth (snd st) (snd first) (dinf o) in             (* distances[crowd[0][1]] = inf *)
        let d2 := set_nth d1 (snd lst) (dinf o) in                     (* distances[crowd[-1][1]] = inf *)
        if veqb o (key_i i lst) (key_i i first) then (crowd, d2)       (* continue *)
        else
          let norm := vnorm o nobj (vsub o (key_i i lst) (key_i i first)) in
          (crowd, fold_left (bump i norm) (triples crowd) d2)
    end.

  (* assignCrowdingDist(individuals): the list of distances, by position in `individuals` *)
  Definition assign_crowding (front : list (ind Vt)) : list Dt :=
    match front with
    | [] => []                                                          (* len == 0: return *)
    | x0 :: _ =>
        let n := length front in
        let nobj := length (vals x0) in
        snd (fold_left (crowd_step nobj) (seq 0 nobj)
                       (combine (map vals front) (seq 0 n), repeat (dzero o) n))
    end.

  (* for front in pareto_fronts: assignCrowdingDist(front) *)
  Definition crowding_all (fronts : list (list (ind Vt))) : list (list Dt) :=
    map assign_crowding fronts.

  (* selNSGA2 after the sort.  None = IndexError on pareto_fronts[-1] (no fronts but k > 0). *)
  Definition sel_nsga2 (fronts : list (list (ind Vt))) (k : nat) : option (list (ind Vt)) :=
    let chosen := concat (removelast fronts) in                        (* chain of pareto_fronts[:-1] *)
    let k' := (Z.of_nat k - Z.of_nat (length chosen))%Z in             (* k = k - len(chosen) *)
    if (0 <? k')%Z then
      match fronts with
      | [] => None
      | f0 :: _ =>
          let lastf := last fronts f0 in                               (* pareto_fronts[-1] *)
          let keyed := combine lastf (assign_crowding lastf) in        (* ind with its fitness.crowding_dist *)
          let sorted_front := sort_st_rev (dltb o) snd keyed in        (* sorted(key=..., reverse=True) *)
          Some (chosen ++ map fst (firstn (Z.to_nat k') sorted_front)) (* chosen.extend(sorted_front[:k]) *)
      end
    else Some chosen.
End Model.

Arguments key_i o i e /.

(* ---------- instance 1: exact rationals with infinity ---------- *)
Inductive qinf := Fin (q : Q) | Inf.

Definition qltb (a b : Q) : bool := negb (Qle_bool b a).

Definition qinf_add (a b : qinf) : qinf :=
  match a, b with Fin x, Fin y => Fin (Qred (x + y)) | _, _ => Inf end.

Definition qinf_ltb (a b : qinf) : bool :=
  match a, b with
  | Fin x, Fin y => qltb x y
  | Fin _, Inf => true
  | Inf, _ => false
  end.

Definition q_ops : numops :=
  {| V := Q; D := qinf;
     vltb := qltb; veqb := Qeq_bool;
     vsub := fun a b => Qred (a - b);
     vnorm := fun n x => Qred (inject_Z (Z.of_nat n) * x);
     vdiv := fun a b => Fin (Qred (a / b));
     vzero := 0%Q; dzero := Fin 0%Q; dinf := Inf;
     dadd := qinf_add; dltb := qinf_ltb |}.

(* ---------- instance 2: IEEE-754 binary64, the arithmetic CPython floats use ---------- *)
Definition f_ops : numops :=
  {| V := float; D := float;
     vltb := PrimFloat.ltb; veqb := PrimFloat.eqb;
     vsub := PrimFloat.sub;
     vnorm := fun n x => PrimFloat.mul (PrimFloat.of_uint63 (Uint63.of_Z (Z.of_nat n))) x;
     vdiv := PrimFloat.div;
     vzero := PrimFloat.zero; dzero := PrimFloat.zero; dinf := PrimFloat.infinity;
     dadd := PrimFloat.add; dltb := PrimFloat.ltb |}.
