(* Specification of the crowding distance (exact rationals), written without any sorting:
   infinite for an individual that is extreme (smallest or largest value) in some objective,
   otherwise the sum over the objectives of
       (next larger value - next smaller value) / (number of objectives * (largest - smallest)). *)
From Coq Require Import List ZArith QArith Bool.
From DV Require Import Model.C05_Nsga2.
Import ListNotations.

Definition qmin2 (a b : Q) : Q := if Qle_bool a b then a else b.
Definition qmax2 (a b : Q) : Q := if Qle_bool a b then b else a.
Definition lmin (l : list Q) : Q := match l with [] => 0 | a :: r => fold_left qmin2 r a end.
Definition lmax (l : list Q) : Q := match l with [] => 0 | a :: r => fold_left qmax2 r a end.

(* the values of objective i over a front, by position *)
Definition vcol (i : nat) (front : list (ind Q)) : list Q := map (fun x => nth i (vals x) 0) front.

Definition extreme (col : list Q) (v : Q) : bool := Qeq_bool v (lmin col) || Qeq_bool v (lmax col).

Definition gap_term (nobj : nat) (col : list Q) (v : Q) : Q :=
  (lmin (filter (fun w => qltb v w) col) - lmax (filter (fun w => qltb w v) col))
  / (inject_Z (Z.of_nat nobj) * (lmax col - lmin col)).

Definition front_nobj (front : list (ind Q)) : nat :=
  match front with [] => O | x0 :: _ => length (vals x0) end.

Definition crowd_spec (front : list (ind Q)) (j : nat) : qinf :=
  let nobj := front_nobj front in
  let v i := nth j (vcol i front) 0 in
  if existsb (fun i => extreme (vcol i front) (v i)) (seq 0 nobj) then Inf
  else Fin (fold_right Qplus 0 (map (fun i => gap_term nobj (vcol i front) (v i)) (seq 0 nobj))).

Definition qinf_eq (a b : qinf) : Prop :=
  match a, b with
  | Fin x, Fin y => x == y
  | Inf, Inf => True
  | _, _ => False
  end.

(* the values of one objective are pairwise distinct *)
Definition distinct_col (col : list Q) : Prop :=
  forall p q, (p < length col)%nat -> (q < length col)%nat -> p <> q -> ~ nth p col 0 == nth q col 0.
