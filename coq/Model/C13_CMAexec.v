(* C13 — executable model of deap/cma.py class Strategy (__init__, computeParams, generate,
   update) on lists: vectors = list T, matrices = list (list T) (row major, as numpy).
   The definitions are generic in the number type T (record [Num]); the instance [FloatNum]
   (primitive floats, Base/C13_FloatFun for exp/ln) is the one evaluated by vm_compute in the
   correspondence.  No proofs here (Proofs/C13_CMAexec.v has them).

   Transcription conventions
   * a numpy 1-D array is a list; [matvec M v] is numpy.dot(M, v), [vecmat v M] is numpy.dot(v, M),
     [vmul] is elementwise *, [colscale M d] is the broadcast M * d (column j times d_j),
     [rowbcast w M] is the broadcast w * M for M with len w columns (column k times w_k).
   * operator precedence / association of every Python expression is kept (a / b * c = (a/b)*c).
   * numpy.linalg.eigh is an oracle: [update] takes the function [eigh]; the correspondence passes
     the value numpy returned for the new C.  numpy.random.standard_normal is a recorded draw [arz].
   * population.sort(key=fitness, reverse=True) is a stable descending insertion on the fitness
     keys (weighted-value tuples compared as CPython compares tuples), using only [<] on keys. *)
From Coq Require Import List Bool PrimFloat.
From DV Require Import Base.C13_FloatFun.
Import ListNotations.

Record Num (T : Type) := mkNum {
  n_of_nat : nat -> T;
  n_add : T -> T -> T;
  n_sub : T -> T -> T;
  n_mul : T -> T -> T;
  n_div : T -> T -> T;
  n_sqrt : T -> T;
  n_exp : T -> T;
  n_ln : T -> T;
  n_ltb : T -> T -> bool;
  n_eqb : T -> T -> bool
}.
Arguments n_of_nat {T}. Arguments n_add {T}. Arguments n_sub {T}. Arguments n_mul {T}.
Arguments n_div {T}. Arguments n_sqrt {T}. Arguments n_exp {T}. Arguments n_ln {T}.
Arguments n_ltb {T}. Arguments n_eqb {T}.

Section Exec.
Context {T : Type} (Nm : Num T).

Notation "a + b" := (n_add Nm a b).
Notation "a - b" := (n_sub Nm a b).
Notation "a * b" := (n_mul Nm a b).
Notation "a / b" := (n_div Nm a b).
Notation "# n" := (n_of_nat Nm n) (at level 5, format "# n").

Definition vec := list T.
Definition mat := list (list T).

(* ---- list / array kernel ------------------------------------------------------------- *)
Fixpoint map2 {A B C} (f : A -> B -> C) (a : list A) (b : list B) : list C :=
  match a, b with
  | x :: a', y :: b' => f x y :: map2 f a' b'
  | _, _ => []
  end.

Definition vadd (u v : vec) : vec := map2 (n_add Nm) u v.
Definition vsub (u v : vec) : vec := map2 (n_sub Nm) u v.
Definition vmul (u v : vec) : vec := map2 (n_mul Nm) u v.
Definition vscale (a : T) (v : vec) : vec := map (fun x => a * x) v.
Definition vsum (v : vec) : T := fold_left (n_add Nm) v #0.
Definition dot (u v : vec) : T := vsum (vmul u v).
Definition norm (v : vec) : T := n_sqrt Nm (dot v v).

Definition zeros (n : nat) : vec := repeat #0 n.
Definition matvec (M : mat) (v : vec) : vec := map (fun r => dot r v) M.
Definition madd (A B : mat) : mat := map2 vadd A B.
Definition mscale (a : T) (A : mat) : mat := map (vscale a) A.
Definition mdivs (A : mat) (a : T) : mat := map (map (fun x => x / a)) A.
(* numpy.dot(v, M) = sum_i v_i * M[i]  (n = number of columns) *)
Definition vecmat (n : nat) (v : vec) (M : mat) : vec :=
  fold_left (fun acc p => vadd acc (vscale (fst p) (snd p))) (combine v M) (zeros n).
Definition matmul (n : nat) (A B : mat) : mat := map (fun r => vecmat n r B) A.
Definition outer (u v : vec) : mat := map (fun x => vscale x v) u.
Definition column (j : nat) (M : mat) : vec := map (fun r => nth j r #0) M.
Definition transpose (n : nat) (M : mat) : mat := map (fun j => column j M) (seq 0 n).
Definition colscale (M : mat) (d : vec) : mat := map (fun r => vmul r d) M.
Definition rowbcast (w : vec) (M : mat) : mat := map (fun r => vmul w r) M.
Definition identity (n : nat) : mat :=
  map (fun i => map (fun j => if Nat.eqb i j then #1 else #0) (seq 0 n)) (seq 0 n).
Definition diag (d : vec) : mat :=
  map (fun i => map (fun j => if Nat.eqb i j then nth i d #0 else #0) (seq 0 (length d))) (seq 0 (length d)).

Fixpoint npow (x : T) (n : nat) : T := match n with O => #1 | S n' => x * npow x n' end.

(* ---- sorting --------------------------------------------------------------------------- *)
(* CPython tuple comparison a < b on number tuples *)
Fixpoint lex_ltb (a b : list T) : bool :=
  match a, b with
  | [], [] => false
  | [], _ :: _ => true
  | _ :: _, [] => false
  | x :: a', y :: b' => if n_eqb Nm x y then lex_ltb a' b' else n_ltb Nm x y
  end.

Section Sort.
Context {A : Type} (lt : A -> A -> bool).
(* list.sort(reverse=True): descending, elements that compare equal keep their order *)
Fixpoint insert_desc (x : A) (l : list A) : list A :=
  match l with
  | [] => [x]
  | y :: r => if lt x y then y :: insert_desc x r else x :: y :: r
  end.
Definition sort_desc (l : list A) : list A := fold_right insert_desc [] l.
(* ascending stable (numpy.argsort on a short array) *)
Fixpoint insert_asc (x : A) (l : list A) : list A :=
  match l with
  | [] => [x]
  | y :: r => if lt y x then y :: insert_asc x r else x :: y :: r
  end.
Definition sort_asc (l : list A) : list A := fold_right insert_asc [] l.
End Sort.

Definition argsort (w : vec) : list nat :=
  map snd (sort_asc (fun a b => n_ltb Nm (fst a) (fst b)) (combine w (seq 0 (length w)))).

(* an evaluated individual: weighted fitness values (ind.fitness.wvalues) and genotype *)
Definition indiv := (list T * vec)%type.
Definition sort_pop (pop : list indiv) : list indiv :=
  sort_desc (fun a b => lex_ltb (fst a) (fst b)) pop.

(* ---- strategy parameters and state --------------------------------------------------------- *)
Inductive scheme := Superlinear | Linear | Equal.

Record params := mkParams {
  p_dim : nat; p_lambda : nat; p_mu : nat;
  p_weights : vec; p_mueff : T;
  p_cc : T; p_cs : T; p_ccov1 : T; p_ccovmu : T; p_damps : T;
  p_chiN : T
}.

Record state := mkState {
  s_centroid : vec; s_sigma : T; s_pc : vec; s_ps : vec;
  s_C : mat; s_B : mat; s_diagD : vec; s_BD : mat; s_count : nat
}.

(* user-supplied entries of **kargs (None = key absent) *)
Record kargs := mkKargs {
  k_lambda : option nat; k_mu : option nat; k_weights : scheme; k_cmatrix : option mat;
  k_ccum : option T; k_cs : option T; k_ccov1 : option T; k_ccovmu : option T; k_damps : option T
}.

Definition getd {A} (o : option A) (d : A) : A := match o with Some x => x | None => d end.

(* weights before normalisation: i runs over arange(1, mu+1) *)
Definition raw_weights (s : scheme) (mu : nat) : vec :=
  match s with
  | Superlinear => map (fun i => n_ln Nm (#mu + #1 / #2) - n_ln Nm #i) (seq 1 mu)
  | Linear => map (fun i => #mu + #1 / #2 - #i) (seq 1 mu)
  | Equal => repeat #1 mu
  end.

Definition pymax0 (x : T) : T := if n_ltb Nm #0 x then x else #0.          (* max(0, x) *)
Definition pymin (a b : T) : T := if n_ltb Nm b a then b else a.              (* min(a, b) *)

Definition chiN_of (dim : nat) : T :=
  n_sqrt Nm #dim * (#1 - #1 / (#4 * #dim) + #1 / (#21 * npow #dim 2)).

(* computeParams(self, params) ; dim, lambda_ and chiN are already attributes *)
Definition compute_params (dim lambda_ : nat) (chiN : T) (k : kargs) : params :=
  let mu := getd (k_mu k) (Nat.div lambda_ 2) in
  let rw := raw_weights (k_weights k) mu in
  let sw := vsum rw in
  let weights := map (fun x => x / sw) rw in
  let mueff := #1 / vsum (map (fun x => npow x 2) weights) in
  let cc := getd (k_ccum k) (#4 / (#dim + #4)) in
  let cs := getd (k_cs k) ((mueff + #2) / (#dim + mueff + #3)) in
  let ccov1 := getd (k_ccov1 k) (#2 / (npow (#dim + #13 / #10) 2 + mueff)) in
  let ccovmu0 := getd (k_ccovmu k)
                   (#2 * (mueff - #2 + #1 / mueff) / (npow (#dim + #2) 2 + mueff)) in
  let ccovmu := pymin (#1 - ccov1) ccovmu0 in
  let damps0 := #1 + #2 * pymax0 (n_sqrt Nm ((mueff - #1) / (#dim + #1)) - #1) + cs in
  let damps := getd (k_damps k) damps0 in
  mkParams dim lambda_ mu weights mueff cc cs ccov1 ccovmu damps chiN.

(* the part shared by __init__ and update: sort the eigenvalues, take roots, scale columns *)
Definition decompose (n : nat) (e : vec * mat) : vec * mat * mat :=
  let '(w, V) := e in
  let indx := argsort w in
  let diagD := map (fun i => n_sqrt Nm (nth i w #0)) indx in
  let B := map (fun r => map (fun i => nth i r #0) indx) V in
  (diagD, B, colscale B diagD).

(* Strategy.__init__(centroid, sigma, **kargs) ; default lambda_ is passed by the caller
   (int(4 + 3 log dim) needs a truncation, see [default_lambda] for floats) *)
Definition init (eigh : mat -> vec * mat) (default_lambda : nat -> nat)
                (centroid : vec) (sigma : T) (k : kargs) : params * state :=
  let dim := length centroid in
  let chiN := chiN_of dim in
  let C := getd (k_cmatrix k) (identity dim) in
  let '(diagD, B, BD) := decompose dim (eigh C) in
  let lambda_ := getd (k_lambda k) (default_lambda dim) in
  (compute_params dim lambda_ chiN k,
   mkState centroid sigma (zeros dim) (zeros dim) C B diagD BD 0).

(* Strategy.generate: arz is the recorded standard_normal((lambda_, dim)) draw *)
Definition generate {I : Type} (P : params) (st : state) (ind_init : vec -> I) (arz : mat) : list I :=
  let n := p_dim P in
  let step := matmul n arz (transpose n (s_BD st)) in
  map ind_init (map (fun r => vadd (s_centroid st) (vscale (s_sigma st) r)) step).

(* ---- Strategy.update ---------------------------------------------------------------------- *)
Definition new_centroid (P : params) (spop : list vec) : vec :=
  vecmat (p_dim P) (p_weights P) (firstn (p_mu P) spop).

Definition new_ps (P : params) (st : state) (c_diff : vec) : vec :=
  let n := p_dim P in
  let cs := p_cs P in
  vadd (vscale (#1 - cs) (s_ps st))
       (vscale (n_sqrt Nm (cs * (#2 - cs) * p_mueff P) / s_sigma st)
               (matvec (s_B st)
                       (vmul (map (fun d => #1 / d) (s_diagD st))
                             (matvec (transpose n (s_B st)) c_diff)))).

Definition hsig_lhs (P : params) (st : state) (ps : vec) : T :=
  norm ps / n_sqrt Nm (#1 - npow (#1 - p_cs P) (2 * (s_count st + 1))) / p_chiN P.
Definition hsig_rhs (P : params) : T := #14 / #10 + #2 / (#(p_dim P) + #1).
Definition hsig_of (P : params) (st : state) (ps : vec) : T :=
  if n_ltb Nm (hsig_lhs P st ps) (hsig_rhs P) then #1 else #0.

(* everything after hsig has been decided *)
Definition update_core (eigh : mat -> vec * mat) (P : params) (st : state)
                       (spop : list vec) (hsig : T) : state :=
  let n := p_dim P in
  let old_centroid := s_centroid st in
  let centroid := new_centroid P spop in
  let c_diff := vsub centroid old_centroid in
  let ps := new_ps P st c_diff in
  let cc := p_cc P in
  let pc := vadd (vscale (#1 - cc) (s_pc st))
                 (vscale (hsig * n_sqrt Nm (cc * (#2 - cc) * p_mueff P) / s_sigma st) c_diff) in
  let artmp := map (fun x => vsub x old_centroid) (firstn (p_mu P) spop) in
  let C := madd (madd (mscale (#1 - p_ccov1 P - p_ccovmu P
                               + (#1 - hsig) * p_ccov1 P * cc * (#2 - cc)) (s_C st))
                      (mscale (p_ccov1 P) (outer pc pc)))
                (mdivs (mscale (p_ccovmu P)
                               (matmul n (rowbcast (p_weights P) (transpose n artmp)) artmp))
                       (npow (s_sigma st) 2)) in
  let sigma := s_sigma st * n_exp Nm ((norm ps / p_chiN P - #1) * p_cs P / p_damps P) in
  let '(diagD, B, BD) := decompose n (eigh C) in
  mkState centroid sigma pc ps C B diagD BD (S (s_count st)).

Definition update (eigh : mat -> vec * mat) (P : params) (st : state) (pop : list indiv) : state :=
  let spop := map snd (sort_pop pop) in
  let c_diff := vsub (new_centroid P spop) (s_centroid st) in
  update_core eigh P st spop (hsig_of P st (new_ps P st c_diff)).

End Exec.


(* ---- the float instance -------------------------------------------------------------------- *)
Definition FloatNum : Num float :=
  mkNum float fnat PrimFloat.add PrimFloat.sub PrimFloat.mul PrimFloat.div PrimFloat.sqrt
        fexp fln PrimFloat.ltb PrimFloat.eqb.

(* int(4 + 3 * log(dim)) *)
Definition default_lambda (dim : nat) : nat :=
  ftrunc (PrimFloat.add 4 (PrimFloat.mul 3 (fln (fnat dim)))).
