(* C13 — the published (mu/mu_w, lambda)-CMA-ES equations, written from the paper form
   (Hansen & Ostermeier 2001; Hansen, "The CMA Evolution Strategy: A Tutorial": equations for m,
   p_sigma, h_sigma, p_c, C, sigma) and from the parameter table of the Strategy docstring --
   NOT from the code.  Proofs/C13_CMAalg.v proves that the transcription of the code
   (Model/C13_CMAalg.v) computes exactly these. *)
From mathcomp Require Import all_ssreflect fingroup perm all_algebra.
From DV Require Import Model.C13_CMAalg.
Set Implicit Arguments.
Unset Strict Implicit.
Unset Printing Implicit Defensive.
Import GRing.Theory Num.Theory Order.TTheory.
Local Open Scope ring_scope.

Section Spec.
Variable R : rcfType.
Variables n mu : nat.
Variables exp ln : R -> R.
Local Notation params := (params R mu).
Local Notation state := (state R n).
Local Notation half := (half R).
Local Notation norm := (@norm R n).

(* ---- the published equations ------------------------------------------------------------- *)
(* recombination weights of the three documented schemes, normalised *)
Definition w_raw (s : scheme) (i : nat) : R :=
  match s with
  | Superlinear => ln (mu%:R + half) - ln (i.+1)%:R
  | Linear => mu%:R + half - (i.+1)%:R
  | Equal => 1
  end.
Definition weights (s : scheme) : 'rV[R]_mu :=
  \row_(i < mu) (w_raw s i / \sum_(j < mu) w_raw s j).
Definition mueff (w : 'rV[R]_mu) : R := (\sum_(i < mu) w 0 i) ^+ 2 / \sum_(i < mu) (w 0 i) ^+ 2.

(* documented defaults (docstring table; N = n) *)
Definition cc_default : R := 4%:R / (n%:R + 4%:R).
Definition cs_default (me : R) : R := (me + 2%:R) / (n%:R + me + 3%:R).
Definition ccov1_default (me : R) : R := 2%:R / ((n%:R + 13%:R / 10%:R) ^+ 2 + me).
Definition ccovmu_default (me : R) : R :=
  2%:R * (me - 2%:R + 1 / me) / ((n%:R + 2%:R) ^+ 2 + me).
Definition damps_default (me cs : R) : R :=
  1 + 2%:R * Num.max 0 (Num.sqrt ((me - 1) / (n%:R + 1)) - 1) + cs.
Definition chiN : R := Num.sqrt n%:R * (1 - 1 / (4%:R * n%:R) + 1 / (21%:R * n%:R ^+ 2)).

Definition default_params (s : scheme) : params :=
  let w := weights s in
  let me := mueff w in
  let c1 := ccov1_default me in
  let cs := cs_default me in
  mkParams w me cc_default cs c1 (Num.min (1 - c1) (ccovmu_default me)) (damps_default me cs) chiN.

(* one generation: x_{i:lambda} are the rows of X (best first), y_i = (x_i - m) / sigma *)
Definition y (st : state) (X : 'M[R]_(mu, n)) (i : 'I_mu) : 'rV[R]_n :=
  (s_sigma st)^-1 *: (row i X - s_centroid st).
Definition y_w (P : params) (st : state) (X : 'M[R]_(mu, n)) : 'rV[R]_n :=
  \sum_(i < mu) p_weights P 0 i *: y st X i.
(* C^{-1/2} = B D^{-1} B^T *)
Definition Cinvsqrt (st : state) : 'M[R]_n :=
  s_B st *m diag_mx (\row_j (s_diagD st 0 j)^-1) *m (s_B st)^T.

Definition cma_update (P : params) (st : state) (X : 'M[R]_(mu, n))
  : ('rV[R]_n * 'rV[R]_n * 'rV[R]_n * 'M[R]_n * R)%type :=
  let cs := p_cs P in let cc := p_cc P in let c1 := p_ccov1 P in let cmu := p_ccovmu P in
  let m' := s_centroid st + s_sigma st *: y_w P st X in
  let ps' := (1 - cs) *: s_ps st
             + Num.sqrt (cs * (2%:R - cs) * p_mueff P) *: (y_w P st X *m (Cinvsqrt st)^T) in
  let hs : R :=
    if norm ps' / Num.sqrt (1 - (1 - cs) ^+ (2 * (s_count st + 1))) / p_chiN P
       < 14%:R / 10%:R + 2%:R / (n%:R + 1) then 1 else 0 in
  let pc' := (1 - cc) *: s_pc st + (hs * Num.sqrt (cc * (2%:R - cc) * p_mueff P)) *: y_w P st X in
  let delta := (1 - hs) * cc * (2%:R - cc) in
  let C' := (1 - c1 - cmu) *: s_C st
            + c1 *: ((pc')^T *m pc' + delta *: s_C st)
            + cmu *: \sum_(i < mu) p_weights P 0 i *: ((y st X i)^T *m y st X i) in
  let sigma' := s_sigma st * exp (cs / p_damps P * (norm ps' / p_chiN P - 1)) in
  (m', ps', pc', C', sigma').
End Spec.
