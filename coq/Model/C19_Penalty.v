(* Model of deap/tools/constraint.py: DeltaPenalty (= DeltaPenality) and ClosestValidPenalty
   (= ClosestValidPenality).  Executable model only (no proofs).

   Hand transcription, statement by statement (the Python line is quoted above each Coq line), into
   the exception + call-log monad of Base/C19_PyRt.v.  On every run harness/c19_py2coq.py retranslates
   the working-tree source into Gen/C19_gen.v and coqc checks that the result is equal to these
   definitions (Gen/C19_gen.v, theorems C19_gen_*_equiv).

   A wrapper returns (outcome, log): the value returned / exception raised, and the list of callback
   invocations in call order; `calls log` are the invocations of the evaluation function.
   W i  stands for  i.fitness.weights;  args  for the bundle of extra positional and keyword arguments. *)
From Coq Require Import List QArith Bool Arith.
From DV Require Import Base.C19_PyRt.
Import ListNotations.
Local Open Scope Q_scope.
Local Open Scope py_scope.

Section Model.
  Context {I Args : Type} (W : I -> list Q).
  Local Notation M := (M I Args).

  (* ---------------- DeltaPenalty ---------------- *)

  (* def __init__(self, feasibility, delta, distance=None): *)
  Definition delta_init (feasibility : I -> bool) (delta : val) (distance : option (I -> val))
    : M (delta_self I) :=
    (* self.fbty_fct = feasibility *)
    self_fbty_fct <- (ret feasibility) ;;
    (* if not isinstance(delta, Sequence): self.delta = repeat(delta)  else: self.delta = delta *)
    self_delta <- (if negb (is_sequence delta) then (
                     self_delta <- (py_repeat delta) ;;
                     ret self_delta
                   ) else (
                     self_delta <- (ret delta) ;;
                     ret self_delta
                   )) ;;
    (* self.dist_fct = distance *)
    self_dist_fct <- (ret distance) ;;
    ret (mk_delta_self self_fbty_fct self_delta self_dist_fct).

  (* def wrapper(individual, *args, **kwargs): *)
  Definition delta_wrapper (self : delta_self I) (func : I -> Args -> val) (individual : I) (args : Args)
    : M val :=
    (* if self.fbty_fct(individual): *)
    c <- call_feasibility (d_fbty_fct self) individual ;;
    if c then (
      (* return func(individual, *args, **kwargs) *)
      call_func func individual args
    ) else (
      (* weights = tuple(1 if w >= 0 else -1 for w in individual.fitness.weights) *)
      weights <- (it <- py_iter (VTup (W individual)) ;;
                  py_tuple_gen (fun w => if py_ge w 0 then 1 else -1) it) ;;
      (* dists = tuple(0 for w in individual.fitness.weights) *)
      dists <- (it <- py_iter (VTup (W individual)) ;;
                py_tuple_gen (fun w => 0) it) ;;
      (* if self.dist_fct is not None: *)
      dists <- (if is_some (d_dist_fct self) then (
                  (* dists = self.dist_fct(individual) *)
                  dists <- (call_dist1 (d_dist_fct self) individual) ;;
                  (* if not isinstance(dists, Sequence): dists = repeat(dists) *)
                  dists <- (if negb (is_sequence dists) then (
                              dists <- (py_repeat dists) ;;
                              ret dists
                            ) else (
                              ret dists
                            )) ;;
                  ret dists
                ) else (
                  ret dists
                )) ;;
      (* return tuple(d - w * dist for d, w, dist in zip(self.delta, weights, dists)) *)
      it <- py_zip3 (d_delta self) weights dists ;;
      py_tuple_gen (fun '(d, w, dist) => d - w * dist) it
    ).

  (* ---------------- ClosestValidPenalty ---------------- *)

  (* def __init__(self, feasibility, feasible, alpha, distance=None): *)
  Definition closest_init (feasibility : I -> bool) (feasible : I -> I) (alpha : Q)
    (distance : option (I -> I -> val)) : M (closest_self I) :=
    self_fbty_fct <- (ret feasibility) ;;
    self_fbl_fct <- (ret feasible) ;;
    self_alpha <- (ret alpha) ;;
    self_dist_fct <- (ret distance) ;;
    ret (mk_closest_self self_fbty_fct self_fbl_fct self_alpha self_dist_fct).

  (* def wrapper(individual, *args, **kwargs): *)
  Definition closest_wrapper (self : closest_self I) (func : I -> Args -> val) (individual : I) (args : Args)
    : M val :=
    (* if self.fbty_fct(individual): *)
    c <- call_feasibility (c_fbty_fct self) individual ;;
    if c then (
      (* return func(individual, *args, **kwargs) *)
      call_func func individual args
    ) else (
      (* f_ind = self.fbl_fct(individual) *)
      f_ind <- (call_closest (c_fbl_fct self) individual) ;;
      (* f_fbl = func(f_ind, *args, **kwargs) *)
      f_fbl <- (call_func func f_ind args) ;;
      (* weights = tuple(1.0 if w >= 0 else -1.0 for w in individual.fitness.weights) *)
      weights <- (it <- py_iter (VTup (W individual)) ;;
                  py_tuple_gen (fun w => if py_ge w 0 then 1 else -1) it) ;;
      (* if len(weights) != len(f_fbl): raise IndexError("Fitness weights and computed fitness are of different size.") *)
      n1 <- py_len weights ;;
      n2 <- py_len f_fbl ;;
      if negb (Nat.eqb n1 n2) then (
        raise IndexError
      ) else (
        (* dists = tuple(0 for w in individual.fitness.weights) *)
        dists <- (it <- py_iter (VTup (W individual)) ;;
                  py_tuple_gen (fun w => 0) it) ;;
        (* if self.dist_fct is not None: *)
        dists <- (if is_some (c_dist_fct self) then (
                    (* dists = self.dist_fct(f_ind, individual) *)
                    dists <- (call_dist2 (c_dist_fct self) f_ind individual) ;;
                    (* if not isinstance(dists, Sequence): dists = repeat(dists) *)
                    dists <- (if negb (is_sequence dists) then (
                                dists <- (py_repeat dists) ;;
                                ret dists
                              ) else (
                                ret dists
                              )) ;;
                    ret dists
                  ) else (
                    ret dists
                  )) ;;
        (* return tuple(f - w * self.alpha * d for f, w, d in zip(f_fbl, weights, dists)) *)
        it <- py_zip3 f_fbl weights dists ;;
        py_tuple_gen (fun '(f, w, d) => f - w * c_alpha self * d) it
      )
    ).

  (* decorator construction followed by one call of the decorated function: what a user runs *)
  Definition delta_penalty (feasibility : I -> bool) (delta : val) (distance : option (I -> val))
    (func : I -> Args -> val) (individual : I) (args : Args) : M val :=
    self <- delta_init feasibility delta distance ;;
    delta_wrapper self func individual args.

  Definition closest_valid_penalty (feasibility : I -> bool) (feasible : I -> I) (alpha : Q)
    (distance : option (I -> I -> val)) (func : I -> Args -> val) (individual : I) (args : Args) : M val :=
    self <- closest_init feasibility feasible alpha distance ;;
    closest_wrapper self func individual args.
End Model.
