(* C16 — executable model of object graphs, creator-made classes, copy.deepcopy as DEAP
   specialises it, the pickle round trip, instance creation and Toolbox aliases.
   Sources: deap/creator.py (class_replacers, _numpy_array, _array, MetaCreator, meta_create,
   create), deap/base.py (Toolbox, Fitness.__deepcopy__, ConstrainedFitness.__deepcopy__),
   deap/gp.py (PrimitiveTree.__deepcopy__), CPython copy.deepcopy / pickle memo protocol.
   No proofs in this file. *)
From Coq Require Import List ZArith Bool Arith.
Import ListNotations.

(* ------------------------------------------------------------------------------------- *)
(* Values, objects, heaps                                                                  *)
(* ------------------------------------------------------------------------------------- *)
Definition loc := nat.

(* Atom: any immutable Python value (numbers, strings, None, tuples of those, GP nodes),
   interned by the harness.  BType: a builtin class used as a value (list, dict, set, float,
   int ...): global, immutable, pickled by name.  Ref: a mutable object (or a creator class). *)
Inductive value := Atom (z : Z) | BType (b : nat) | Ref (l : loc).

Inductive kind :=
| KClass                                    (* a class made by creator.create (metaclass MetaCreator) *)
| KList | KArray | KNdarray | KSet | KDict | KTree   (* instance of a created class, by base type *)
| KFit | KCFit                              (* instance of a created Fitness / ConstrainedFitness class *)
| KPyList | KPyDict | KPySet | KBuf.        (* plain list / dict / set / plain array.array, numpy.ndarray *)

(* Instance: o_cls = its class (Ref to a KClass object, or BType for plain builtins),
             o_items = list items / buffer / set elements / dict k1,v1,k2,v2.. / tree nodes /
                       weighted fitness values,
             o_attrs = instance __dict__ (sorted by attribute-name id; wvalues excluded).
   Class:    o_cls = Atom name, o_items = [Atom base-kind code], o_attrs = the dct passed to
             meta_create (class-level values, and the types instantiated per instance). *)
Record obj := mkobj { o_kind : kind; o_cls : value; o_items : list value; o_attrs : list (nat * value) }.

Definition heap := list obj.

Definition children (o : obj) : list value := o_cls o :: o_items o ++ map snd (o_attrs o).

Fixpoint upd (h : heap) (l : loc) (o : obj) : heap :=
  match h, l with
  | [], _ => []
  | _ :: r, O => o :: r
  | x :: r, S n => x :: upd r n o
  end.

Definition memo := list (loc * loc).

Fixpoint lookup (l : loc) (m : memo) : option loc :=
  match m with
  | [] => None
  | (a, b) :: r => if Nat.eqb a l then Some b else lookup l r
  end.

(* first source location mapped to the given target *)
Fixpoint inv_lookup (l' : loc) (m : memo) : option loc :=
  match m with
  | [] => None
  | (a, b) :: r => if Nat.eqb b l' then Some a else inv_lookup l' r
  end.

(* state-passing map with failure *)
Fixpoint mapS {A B S : Type} (f : S -> A -> option (S * B)) (s : S) (l : list A) : option (S * list B) :=
  match l with
  | [] => Some (s, [])
  | x :: r =>
      match f s x with
      | None => None
      | Some (s1, y) =>
          match mapS f s1 r with
          | None => None
          | Some (s2, ys) => Some (s2, y :: ys)
          end
      end
  end.

(* ------------------------------------------------------------------------------------- *)
(* The memoised graph-copy engine shared by deepcopy, the pickle round trip and the        *)
(* canonical description                                                                   *)
(* ------------------------------------------------------------------------------------- *)
Inductive asel := AAll | ANone | AOnly (n : nat).

Record plan := mkplan {
  p_atomic : bool;    (* returned as is (copy._deepcopy_atomic for classes) *)
  p_pre : bool;       (* memoised before its state is copied (copy._reconstruct, _array.__deepcopy__,
                         pickle's memoize after REDUCE) or only once complete (deepcopy's memo[d] = y after
                         a __deepcopy__ hook returned; a class re-created by meta_create) *)
  p_cls : bool;       (* the class is copied too (pickle re-creates it) or shared (deepcopy) *)
  p_items : bool;     (* items go through the engine, or are taken as they are (copy_.wvalues = self.wvalues) *)
  p_attrs : asel      (* which attributes are copied *)
}.

Definition sel_attrs (a : asel) (attrs : list (nat * value)) : list (nat * value) :=
  match a with
  | AAll => attrs
  | ANone => []
  | AOnly n => filter (fun p => Nat.eqb (fst p) n) attrs
  end.

Definition state := (heap * memo)%type.

Section Engine.
  Variable pl : kind -> plan.
  Variable src : heap.          (* the heap being read; never modified *)

  (* order inside one object: class, [allocate + memoise], attributes, items, [allocate + memoise] *)
  Fixpoint gcopy (fuel : nat) (st : state) (v : value) {struct fuel} : option (state * value) :=
    match v with
    | Ref l =>
      match fuel with
      | O => None                                  (* RecursionError *)
      | S f =>
        match lookup l (snd st) with
        | Some l' => Some (st, Ref l')
        | None =>
          match nth_error src l with
          | None => None
          | Some o =>
            let p := pl (o_kind o) in
            if p_atomic p then Some (st, Ref l) else
            match (if p_cls p then gcopy f st (o_cls o) else Some (st, o_cls o)) with
            | None => None
            | Some (st1, c') =>
              let lp := length (fst st1) in
              let st2 := if p_pre p
                         then (fst st1 ++ [mkobj (o_kind o) c' [] []], (l, lp) :: snd st1)
                         else st1 in
              let sel := sel_attrs (p_attrs p) (o_attrs o) in
              match mapS (gcopy f) st2 (map snd sel) with
              | None => None
              | Some (st3, avs) =>
                match (if p_items p then mapS (gcopy f) st3 (o_items o) else Some (st3, o_items o)) with
                | None => None
                | Some (st4, its) =>
                  let o' := mkobj (o_kind o) c' its (combine (map fst sel) avs) in
                  if p_pre p then Some ((upd (fst st4) lp o', snd st4), Ref lp)
                  else Some ((fst st4 ++ [o'], (l, length (fst st4)) :: snd st4), Ref (length (fst st4)))
                end
              end
            end
          end
        end
      end
    | _ => Some (st, v)
    end.
End Engine.

(* ---- copy.deepcopy with DEAP's hooks ---- *)
Definition cv_name : nat := 1.        (* attribute-name id of constraint_violation *)

Definition deep_plan (k : kind) : plan :=
  match k with
  | KClass   => mkplan true  false false false ANone     (* issubclass(cls, type): _deepcopy_atomic *)
  | KList | KDict | KSet | KPyList | KPyDict | KPySet
             => mkplan false true  false true  AAll      (* copy._reconstruct / _deepcopy_list / _deepcopy_dict *)
  | KArray   => mkplan false true  false true  AAll      (* _array.__deepcopy__: memo[id(self)] = copy_ first *)
  | KNdarray => mkplan false true  false true  AAll      (* _numpy_array.__deepcopy__: memo[id(self)] = copy_ first *)
  | KTree    => mkplan false true  false true  AAll      (* PrimitiveTree.__deepcopy__: memo[id(self)] = new first *)
  | KBuf     => mkplan false false false true  AAll
  | KFit     => mkplan false false false false ANone     (* Fitness.__deepcopy__: wvalues only *)
  | KCFit    => mkplan false false false false (AOnly cv_name)  (* + deepcopy(constraint_violation) *)
  end.

(* ---- pickle.dumps / pickle.loads: everything reachable is rebuilt, classes included ---- *)
Definition pickle_plan (k : kind) : plan :=
  match k with
  | KClass => mkplan false false true true AAll           (* (meta_create, (name, base, dct)): args first *)
  | _      => mkplan false true  true true AAll           (* reduce; memoised before state and items *)
  end.

(* ---- canonical description: the same traversal, numbering objects by first visit ---- *)
Definition canon_plan (k : kind) : plan := mkplan false true true true AAll.

Definition fuel_for (h : heap) : nat := S (length h).

Definition deepcopy (h : heap) (v : value) : option (heap * value) :=
  match gcopy deep_plan h (fuel_for h) (h, []) v with
  | Some ((h', _), v') => Some (h', v')
  | None => None
  end.

(* unpickling in the same interpreter: new objects next to the old ones *)
Definition pickle_roundtrip (h : heap) (v : value) : option (heap * value) :=
  match gcopy pickle_plan h (fuel_for h) (h, []) v with
  | Some ((h', _), v') => Some (h', v')
  | None => None
  end.

(* unpickling in a fresh interpreter: an empty heap *)
Definition pickle_fresh (h : heap) (v : value) : option (heap * value) :=
  match gcopy pickle_plan h (fuel_for h) ([], []) v with
  | Some ((h', _), v') => Some (h', v')
  | None => None
  end.

Definition canon (h : heap) (roots : list value) : option (heap * memo * list value) :=
  match mapS (gcopy canon_plan h (fuel_for h)) ([], []) roots with
  | Some ((h', m), vs) => Some (h', m, vs)
  | None => None
  end.

(* ------------------------------------------------------------------------------------- *)
(* Instance creation: MetaCreator.__init__'s init_type                                     *)
(* ------------------------------------------------------------------------------------- *)
Definition kind_of_code (z : Z) : kind :=
  match z with
  | 1%Z => KList | 2%Z => KArray | 3%Z => KNdarray | 4%Z => KSet | 5%Z => KDict | 6%Z => KTree
  | 7%Z => KFit | 8%Z => KCFit | _ => KList
  end.

Definition none_atom : Z := 5000%Z.

(* what calling a builtin type with no argument returns *)
Definition btype_new (b : nat) (h : heap) : heap * value :=
  match b with
  | 0 => (h ++ [mkobj KPyList (BType 0) [] []], Ref (length h))
  | 1 => (h ++ [mkobj KPyDict (BType 1) [] []], Ref (length h))
  | 2 => (h ++ [mkobj KPySet (BType 2) [] []], Ref (length h))
  | 3 => (h, Atom 100000%Z)   (* float() = 0.0 *)
  | _ => (h, Atom 0%Z)        (* int() = 0 *)
  end.

Definition is_type (h : heap) (v : value) : bool :=
  match v with
  | BType _ => true
  | Ref l => match nth_error h l with Some o => match o_kind o with KClass => true | _ => false end | None => false end
  | Atom _ => false
  end.

Fixpoint set_attr (attrs : list (nat * value)) (n : nat) (v : value) : list (nat * value) :=
  match attrs with
  | [] => [(n, v)]
  | (m, w) :: r => if Nat.eqb m n then (n, v) :: r
                   else if Nat.ltb n m then (n, v) :: (m, w) :: r
                   else (m, w) :: set_attr r n v
  end.

Definition del_attr (attrs : list (nat * value)) (n : nat) : list (nat * value) :=
  filter (fun p => negb (Nat.eqb (fst p) n)) attrs.

Definition class_base (co : obj) : kind :=
  match o_items co with Atom z :: _ => kind_of_code z | _ => KList end.

(* cls(items...): __new__ allocates self; init_type sets one fresh obj() per type-valued dct entry,
   in dct order; then the base __init__ runs (ConstrainedFitness sets constraint_violation = None). *)
Fixpoint new_inst (fuel : nat) (h : heap) (c : value) (items : list value) : option (heap * value) :=
  match fuel with
  | O => None
  | S f =>
    match c with
    | Atom _ => None
    | BType b => Some (btype_new b h)
    | Ref cl =>
      match nth_error h cl with
      | None => None
      | Some co =>
        match o_kind co with
        | KClass =>
          let k := class_base co in
          let self := length h in
          let h1 := h ++ [mkobj k (Ref cl) items []] in
          let step (acc : option (heap * list (nat * value))) (e : nat * value) :=
            match acc with
            | None => None
            | Some (hh, at_) =>
              if is_type hh (snd e) then
                match new_inst f hh (snd e) [] with
                | None => None
                | Some (hh', r) => Some (hh', set_attr at_ (fst e) r)
                end
              else Some (hh, at_)
            end in
          match fold_left step (o_attrs co) (Some (h1, [])) with
          | None => None
          | Some (h2, at_) =>
            let at2 := match k with KCFit => set_attr at_ cv_name (Atom none_atom) | _ => at_ end in
            Some (upd h2 self (mkobj k (Ref cl) items at2), Ref self)
          end
        | _ => None
        end
      end
    end
  end.

(* ------------------------------------------------------------------------------------- *)
(* In-place mutations (list.append, buffer writes, set.add, d[k] = v, setattr, delattr,    *)
(* fitness.values = ..., del fitness.values)                                               *)
(* ------------------------------------------------------------------------------------- *)
Inductive mutation :=
| MSetItems (l : list Z)
| MAppend (l : list Z)
| MSetAttr (n : nat) (z : Z)
| MDelAttr (n : nat).

Definition mutate_obj (o : obj) (m : mutation) : obj :=
  match m with
  | MSetItems l => mkobj (o_kind o) (o_cls o) (map Atom l) (o_attrs o)
  | MAppend l => mkobj (o_kind o) (o_cls o) (o_items o ++ map Atom l) (o_attrs o)
  | MSetAttr n z => mkobj (o_kind o) (o_cls o) (o_items o) (set_attr (o_attrs o) n (Atom z))
  | MDelAttr n => mkobj (o_kind o) (o_cls o) (o_items o) (del_attr (o_attrs o) n)
  end.

Definition mutate (h : heap) (l : loc) (m : mutation) : heap :=
  match nth_error h l with
  | Some o => upd h l (mutate_obj o m)
  | None => h
  end.

(* ------------------------------------------------------------------------------------- *)
(* Unfolding (what can be observed by reading): a tree, cut at depth k; objects whose kind   *)
(* satisfies stop are not entered (their identity is observed instead).                    *)
(* ------------------------------------------------------------------------------------- *)
Inductive tree :=
| TAtom (z : Z)
| TBType (b : nat)
| TLoc (l : loc)
| TCut
| TDangling
| TNode (k : kind) (c : tree) (items : list tree) (attrs : list (nat * tree)).

Section Unfold.
  Variable stop : kind -> bool.
  Fixpoint unfold (k : nat) (h : heap) (v : value) : tree :=
    match v with
    | Atom z => TAtom z
    | BType b => TBType b
    | Ref l =>
      match nth_error h l with
      | None => TDangling
      | Some o =>
        if stop (o_kind o) then TLoc l else
        match k with
        | O => TCut
        | S k' => TNode (o_kind o) (unfold k' h (o_cls o)) (map (unfold k' h) (o_items o))
                        (map (fun p => (fst p, unfold k' h (snd p))) (o_attrs o))
        end
      end
    end.
End Unfold.

Definition is_class (k : kind) : bool := match k with KClass => true | _ => false end.
Definition no_stop (k : kind) : bool := false.

(* ------------------------------------------------------------------------------------- *)
(* Toolbox aliases: functools.partial                                                      *)
(* ------------------------------------------------------------------------------------- *)
Inductive fn :=
| FBase (id : nat)                                   (* a plain function *)
| FDec (d : nat) (f : fn)                            (* decorator d applied to f *)
| FPartial (f : fn) (args : list Z) (kw : list (nat * Z)).

Inductive res :=
| RCall (id : nat) (args : list Z) (kw : list (nat * Z))
| RDec (d : nat) (r : res).

Fixpoint kw_set (kw : list (nat * Z)) (n : nat) (z : Z) : list (nat * Z) :=
  match kw with
  | [] => [(n, z)]
  | (m, w) :: r => if Nat.eqb m n then (n, z) :: r
                   else if Nat.ltb n m then (n, z) :: (m, w) :: r
                   else (m, w) :: kw_set r n z
  end.

(* {**frozen, **call}: the call's keywords override the frozen ones (kept sorted by name id) *)
Definition kw_merge (frozen call : list (nat * Z)) : list (nat * Z) :=
  fold_left (fun acc p => kw_set acc (fst p) (snd p)) call
            (fold_left (fun acc p => kw_set acc (fst p) (snd p)) frozen []).

(* the harness's decorators: d even -> arguments passed through, d odd -> the first positional
   argument is incremented before the call; every decorator tags the result *)
Definition dec_args (d : nat) (args : list Z) : list Z :=
  if Nat.odd d then match args with a :: r => (a + 1)%Z :: r | [] => [] end else args.

Fixpoint call (f : fn) (args : list Z) (kw : list (nat * Z)) : res :=
  match f with
  | FBase id => RCall id args (kw_merge [] kw)
  | FDec d g => RDec d (call g (dec_args d args) kw)
  | FPartial g fa fk => call g (fa ++ args) (kw_merge fk kw)
  end.

Definition toolbox := list (nat * fn).

Fixpoint tb_get (t : toolbox) (a : nat) : option fn :=
  match t with
  | [] => None
  | (b, f) :: r => if Nat.eqb a b then Some f else tb_get r a
  end.

Definition tb_del (t : toolbox) (a : nat) : toolbox := filter (fun p => negb (Nat.eqb (fst p) a)) t.

(* register: setattr(self, alias, partial(function, *args, **kargs)) *)
Definition register (t : toolbox) (a : nat) (f : fn) (args : list Z) (kw : list (nat * Z)) : toolbox :=
  (a, FPartial f args kw) :: tb_del t a.

Definition unregister (t : toolbox) (a : nat) : option toolbox :=
  match tb_get t a with Some _ => Some (tb_del t a) | None => None end.

(* decorate: takes the partial apart, wraps .func by the decorators in order, registers again with
   the same frozen arguments *)
Definition decorate (t : toolbox) (a : nat) (ds : list nat) : option toolbox :=
  match tb_get t a with
  | Some (FPartial f args kw) => Some (register t a (fold_left (fun g d => FDec d g) ds f) args kw)
  | _ => None
  end.

(* a partial pickles iff what it wraps does; decorator wrappers are closures *)
Fixpoint picklable (base_ok : nat -> bool) (f : fn) : bool :=
  match f with
  | FBase id => base_ok id
  | FDec _ _ => false
  | FPartial g _ _ => picklable base_ok g
  end.

(* an unfolding that was not cut short: the part of the graph read is finite to that depth *)
Fixpoint nocut (t : tree) : bool :=
  match t with
  | TCut | TDangling => false
  | TNode _ c its ats => nocut c && forallb nocut its && forallb (fun p => let (_, a) := p : nat * tree in nocut a) ats
  | _ => true
  end.

(* a chain of clones: each step clones one of the objects obtained so far *)
Fixpoint clone_chain (h : heap) (vs : list value) (picks : list nat) : option (heap * list value) :=
  match picks with
  | [] => Some (h, vs)
  | i :: r =>
      match nth_error vs i with
      | None => None
      | Some v =>
          match deepcopy h v with
          | None => None
          | Some (h', v') => clone_chain h' (vs ++ [v']) r
          end
      end
  end.

(* ------------------------------------------------------------------------------------- *)
(* Decidable well-formedness (evaluated on every described heap by the correspondence)     *)
(* ------------------------------------------------------------------------------------- *)
Definition nonrefb (v : value) : bool := match v with Ref _ => false | _ => true end.

Definition closedb (h : heap) : bool :=
  forallb (fun o => forallb (fun c => match c with Ref x => Nat.ltb x (length h) | _ => true end) (children o)) h.

(* the class of an object is a builtin type or a created class *)
Definition cls_okb (h : heap) (c : value) : bool :=
  match c with
  | Ref l => match nth_error h l with Some o => is_class (o_kind o) | None => false end
  | _ => true
  end.

Definition obj_deep_okb (h : heap) (o : obj) : bool :=
  match o_kind o with
  | KClass => true
  | KFit => match o_attrs o with [] => true | _ => false end && forallb nonrefb (o_items o) && cls_okb h (o_cls o)
  | KCFit => forallb (fun p => Nat.eqb (fst p) cv_name) (o_attrs o) && forallb nonrefb (o_items o) && cls_okb h (o_cls o)
  | _ => cls_okb h (o_cls o)
  end.

Definition deep_okb (h : heap) : bool := closedb h && forallb (obj_deep_okb h) h.

Definition insideb (h : heap) (v : value) : bool :=
  match v with Ref y => Nat.ltb y (length h) | _ => true end.
