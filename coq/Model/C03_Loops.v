(* C03 — executable model of the packaged evolutionary loops
     deap/algorithms.py : eaSimple, eaMuPlusLambda, eaMuCommaLambda, eaGenerateUpdate
     deap/gp.py         : harm (including its inner generator _genpop)
   No proofs here (Proofs/C03_Loops.v), so the model still runs when a proof breaks.

   Objects.  Every individual Python would allocate has a uid; the store maps a uid to the
   object's genotype and fitness (None = invalid fitness).  A population is a list of uids, so the
   same object may occur several times (selection with replacement).
   Oracles.  evaluate is a function of the genotype; selection answers are index lists into the
   list select() was called with (so the answer is made of elements of its argument by
   construction); variation (varAnd / varOr / toolbox.generate) answers are the returned objects
   with their contents; harm's generator is modelled call by call as a consumer of the recorded
   event stream (draws, select / clone / mate / mutate answers, acceptance decisions).
   stats.compile is an observer that records a snapshot; the hall of fame is abstracted to the
   best fitness it has been shown (plus the log of the batches passed to update). *)
From Coq Require Import List ZArith Bool Arith Lia QArith.
Import ListNotations.
Local Close Scope Q_scope.
Local Open Scope nat_scope.

Definition uid := nat.

(* result of a fuelled / event-driven computation *)
Inductive res (A : Type) :=
| Ok (a : A)
| Mismatch (code : nat)   (* the recorded event stream does not fit the code path / a guard fails *)
| OutOfFuel.
Arguments Ok {A} a.
Arguments Mismatch {A} code.
Arguments OutOfFuel {A}.

Definition Qltb (a b : Q) : bool := negb (Qle_bool b a).

Section Loops.
Context {G F : Type}.
Variable evaluate : G -> F.
(* fle a b : fitness a <= fitness b (Fitness.__le__, i.e. on weighted values) *)
Variable fle : F -> F -> bool.

Record ind := mkind { geno : G; fit : option F }.
Definition store := uid -> option ind.
Definition empty_store : store := fun _ => None.
Definition upd (s : store) (u : uid) (i : ind) : store :=
  fun v => if Nat.eqb v u then Some i else s v.

(* not ind.fitness.valid *)
Definition is_invalid (s : store) (u : uid) : bool :=
  match s u with
  | Some i => match fit i with None => true | Some _ => false end
  | None => false
  end.

(* invalid_ind = [ind for ind in l if not ind.fitness.valid] *)
Definition invalid_of (s : store) (l : list uid) : list uid := filter (is_invalid s) l.

(* fitnesses = toolbox.map(toolbox.evaluate, l); for ind, fit in zip(l, fitnesses): ind.fitness.values = fit
   (map is order preserving; evaluate is called once per list position, the call log is returned) *)
Fixpoint eval_list (s : store) (l : list uid) : store * list (uid * G) :=
  match l with
  | [] => (s, [])
  | u :: r =>
      match s u with
      | Some i =>
          let s' := upd s u (mkind (geno i) (Some (evaluate (geno i)))) in
          let '(s'', log) := eval_list s' r in (s'', (u, geno i) :: log)
      | None => eval_list s r
      end
  end.

(* what a Statistics function sees: the individuals of the list, with their current contents *)
Definition snap (s : store) (l : list uid) : list (uid * option ind) := map (fun u => (u, s u)) l.

Record rec := mkrec {
  r_gen : nat;                          (* logbook 'gen' *)
  r_nevals : nat;                       (* logbook 'nevals' *)
  r_snap : list (uid * option ind);     (* the population as stats.compile saw it *)
  r_best : option F }.                  (* best fitness in the hall of fame at that moment *)

(* HallOfFame.update restricted to its best entry: the first individual enters an empty hall,
   afterwards an individual replaces the best only if strictly better (ind.fitness > hof.fitness) *)
Definition hof_upd1 (best : option F) (f : F) : option F :=
  match best with
  | None => Some f
  | Some b => if fle f b then Some b else Some f
  end.
Definition fits_of (s : store) (l : list uid) : list F :=
  flat_map (fun u => match s u with
                     | Some i => match fit i with Some f => [f] | None => [] end
                     | None => [] end) l.
Definition hof_update (best : option F) (s : store) (l : list uid) : option F :=
  fold_left hof_upd1 (fits_of s l) best.

Record state := mkstate {
  s_st : store;
  s_pop : list uid;                     (* contents of the list object bound to `population` *)
  s_calls : list (list (uid * G));      (* evaluate call log, one entry per generation *)
  s_log : list rec;                     (* logbook, in order *)
  s_shown : list (list uid);            (* batches passed to halloffame.update *)
  s_best : option F }.

Definition init (st : store) (pop : list uid) : state := mkstate st pop [] [] [] None.

(* Evaluate the individuals of `off` with an invalid fitness, update the hall of fame with `off`,
   `population[:] = newpop`, compile statistics on the population, record gen / nevals. *)
Definition finish_gen (gen : nat) (s : state) (st1 : store) (off newpop : list uid) : state :=
  let invalid_ind := invalid_of st1 off in
  let '(st2, log) := eval_list st1 invalid_ind in
  let best := hof_update (s_best s) st2 off in
  mkstate st2 newpop (s_calls s ++ [log])
          (s_log s ++ [mkrec gen (length invalid_ind) (snap st2 newpop) best])
          (s_shown s ++ [off]) best.

(* generation 0 of eaSimple, eaMuPlusLambda, eaMuCommaLambda, harm *)
Definition gen0 (s : state) : state := finish_gen 0 s (s_st s) (s_pop s) (s_pop s).

(* ---- oracle answers ---- *)
(* toolbox.select(arg, k) answered by positions in arg *)
Definition select_by (arg : list uid) (idxs : list nat) : list uid :=
  map (fun i => nth i arg 0) idxs.

(* objects returned by a variation operator / toolbox.generate, with their contents *)
Definition add_objs (st : store) (objs : list (uid * ind)) : store :=
  fold_left (fun s p => upd s (fst p) (snd p)) objs st.

Record ans := mkans {
  a_sel : list nat;            (* answer of the generation's toolbox.select call *)
  a_off : list (uid * ind) }.  (* objects returned by varAnd / varOr / toolbox.generate *)

(* eaSimple, one generation:
     offspring = toolbox.select(population, len(population))
     offspring = varAnd(offspring, toolbox, cxpb, mutpb)
     evaluate invalid; halloffame.update(offspring); population[:] = offspring; record *)
Definition simple_selected (s : state) (a : ans) : list uid := select_by (s_pop s) (a_sel a).
Definition step_simple (gen : nat) (s : state) (a : ans) : state :=
  let offspring := map fst (a_off a) in
  finish_gen gen s (add_objs (s_st s) (a_off a)) offspring offspring.

(* eaMuPlusLambda, one generation:
     offspring = varOr(population, toolbox, lambda_, cxpb, mutpb)
     evaluate invalid; halloffame.update(offspring)
     population[:] = toolbox.select(population + offspring, mu); record *)
Definition step_plus (gen : nat) (s : state) (a : ans) : state :=
  let offspring := map fst (a_off a) in
  finish_gen gen s (add_objs (s_st s) (a_off a)) offspring
             (select_by (s_pop s ++ offspring) (a_sel a)).

(* eaMuCommaLambda: population[:] = toolbox.select(offspring, mu) *)
Definition step_comma (gen : nat) (s : state) (a : ans) : state :=
  let offspring := map fst (a_off a) in
  finish_gen gen s (add_objs (s_st s) (a_off a)) offspring
             (select_by offspring (a_sel a)).

(* eaGenerateUpdate, one generation:
     population = toolbox.generate(); evaluate ALL of them (valid or not)
     halloffame.update(population); toolbox.update(population); record nevals=len(population) *)
Definition step_gu (gen : nat) (s : state) (a : ans) : state :=
  let population := map fst (a_off a) in
  let st1 := add_objs (s_st s) (a_off a) in
  let '(st2, log) := eval_list st1 population in
  let best := hof_update (s_best s) st2 population in
  mkstate st2 population (s_calls s ++ [log])
          (s_log s ++ [mkrec gen (length population) (snap st2 population) best])
          (s_shown s ++ [population]) best.

(* for gen in range(first, first + len(answers)) *)
Fixpoint run_from {A} (step : nat -> state -> A -> state) (gen : nat) (s : state) (l : list A) : state :=
  match l with
  | [] => s
  | a :: r => run_from step (S gen) (step gen s a) r
  end.

Definition ea_simple (st : store) (pop : list uid) (answers : list ans) : state :=
  run_from step_simple 1 (gen0 (init st pop)) answers.
Definition ea_plus (st : store) (pop : list uid) (answers : list ans) : state :=
  run_from step_plus 1 (gen0 (init st pop)) answers.
Definition ea_comma (st : store) (pop : list uid) (answers : list ans) : state :=
  run_from step_comma 1 (gen0 (init st pop)) answers.
(* after the fix: `population = []` before the loop, so ngen = 0 returns ([], empty logbook) *)
Definition ea_gu (answers : list ans) : state :=
  run_from step_gu 0 (init empty_store []) answers.

(* ---- tools.selBest: sorted(individuals, key=attrgetter("fitness"), reverse=True)[:k] ----
   list.sort(reverse=True) keeps the original order of equal elements. *)
Definition fit_lt (s : store) (x y : uid) : bool :=   (* x.fitness < y.fitness, both valid *)
  match s x, s y with
  | Some ix, Some iy =>
      match fit ix, fit iy with
      | Some fx, Some fy => negb (fle fy fx)
      | _, _ => false
      end
  | _, _ => false
  end.
Fixpoint insert_desc (s : store) (x : uid) (l : list uid) : list uid :=
  match l with
  | [] => [x]
  | y :: r => if fit_lt s x y then y :: insert_desc s x r else x :: l
  end.
Definition sort_desc (s : store) (l : list uid) : list uid := fold_right (insert_desc s) [] l.
Definition sel_best (s : store) (l : list uid) (k : nat) : list uid := firstn k (sort_desc s l).

(* eaMuPlusLambda with toolbox.select = tools.selBest *)
Definition step_plus_best (mu : nat) (gen : nat) (s : state) (a : ans) : state :=
  let offspring := map fst (a_off a) in
  let st1 := add_objs (s_st s) (a_off a) in
  let st2 := fst (eval_list st1 (invalid_of st1 offspring)) in
  finish_gen gen s st1 offspring (sel_best st2 (s_pop s ++ offspring) mu).

(* ---- gp.harm ---- *)
Inductive ev :=
| EDraw (u : Q)                                      (* random.random() at the top of a generating iteration *)
| ESelect (arg : list uid) (k : nat) (idxs : list nat)  (* toolbox.select(arg, k) and its answer *)
| EClone (src dst : uid)                             (* toolbox.clone(src) returned the new object dst *)
| EMate (i1 i2 : uid) (o1 o2 : uid * G)              (* toolbox.mate(i1, i2) returned objects o1, o2 (with genotypes) *)
| EMutate (i : uid) (o : uid * G)                    (* toolbox.mutate(i) returned (o,) *)
| EAccept (x : uid) (d : bool).                      (* acceptfunc(len(x)) (one more draw) returned d *)

Definition uid_list_eqb (a b : list uid) : bool :=
  (length a =? length b)%nat && forallb (fun p => Nat.eqb (fst p) (snd p)) (combine a b).

Definition is_fresh (st : store) (u : uid) : bool := match st u with None => true | Some _ => false end.

(* toolbox.clone: a new object with the same genotype and fitness *)
Definition clone (st : store) (src dst : uid) : res store :=
  match st src with
  | Some i => if is_fresh st dst then Ok (upd st dst i) else Mismatch 10
  | None => Mismatch 11
  end.

(* object returned by mate / mutate followed by `del aspirant.fitness.values` *)
Definition set_varied (st : store) (o : uid * G) : store := upd st (fst o) (mkind (snd o) None).

(* acceptfunc(len(aspirant)): the default `lambda s: True` in the first call of _genpop,
   the HARM acceptance (one draw against the size-dependent probability: an oracle) in the second *)
Definition accept (use : bool) (x : uid) (evs : list ev) : res (bool * list ev) :=
  if use then
    match evs with
    | EAccept y d :: r => if Nat.eqb x y then Ok (d, r) else Mismatch 20
    | _ => Mismatch 21
    end
  else Ok (true, evs).

Definition push (d : bool) (prod : list uid) (x : uid) : list uid := if d then prod ++ [x] else prod.

Definition bind {A B} (r : res A) (f : A -> res B) : res B :=
  match r with
  | Ok a => f a
  | Mismatch c => Mismatch c
  | OutOfFuel => OutOfFuel
  end.
Definition guard (b : bool) (code : nat) : res unit := if b then Ok tt else Mismatch code.

(* `if acceptfunc(len(aspirant)): producedpop.append(aspirant)` *)
Definition accept_push (use : bool) (prod : list uid) (x : uid) (evs : list ev) : res (list uid * list ev) :=
  bind (accept use x evs) (fun '(d, evs') => Ok (push d prod x, evs')).

(* the acceptance part of one generating iteration of _genpop: the first aspirant is submitted
   unconditionally, the second one (crossover only) under `if len(producedpop) < n and acceptfunc(...)` *)
Definition accept_cands (use : bool) (n : nat) (prod : list uid) (cands : list uid) (evs : list ev)
  : res (list uid * list ev) :=
  match cands with
  | [] => Ok (prod, evs)
  | x :: rest =>
      bind (accept_push use prod x evs) (fun '(prod1, evs1) =>
        match rest with
        | [] => Ok (prod1, evs1)
        | y :: _ => if (length prod1 <? n)%nat then accept_push use prod1 y evs1 else Ok (prod1, evs1)
        end)
  end.

(* the generating part of one iteration of _genpop's while (pickfrom empty): returns the store and
   the aspirants (two after a crossover, else one).
   Guards turned into Mismatch: select returns elements of `population` of the requested count,
   clone returns a new object, mate / mutate return their argument objects or new objects, mate's
   two results are distinct objects. *)
Definition candidates (pop : list uid) (cxpb mutpb : Q) (st : store) (evs : list ev)
  : res (store * list uid * list ev) :=
  match evs with
  | EDraw opRandom :: evs1 =>
    if Qltb opRandom cxpb then
      (* aspirant1, aspirant2 = toolbox.mate( *map(toolbox.clone, toolbox.select(population, 2)))
         del aspirant1.fitness.values, aspirant2.fitness.values *)
      match evs1 with
      | ESelect arg k idxs :: EClone s1 c1 :: EClone s2 c2 :: EMate i1 i2 o1 o2 :: evs2 =>
        bind (guard (uid_list_eqb arg pop && Nat.eqb k 2 && Nat.eqb (length idxs) 2
                     && forallb (fun i => i <? length pop)%nat idxs
                     && uid_list_eqb (select_by pop idxs) [s1; s2]
                     && Nat.eqb i1 c1 && Nat.eqb i2 c2) 30) (fun _ =>
        bind (clone st s1 c1) (fun st1 =>
        bind (clone st1 s2 c2) (fun st2 =>
        let ok_out (o : uid * G) := Nat.eqb (fst o) c1 || Nat.eqb (fst o) c2 || is_fresh st2 (fst o) in
        bind (guard (ok_out o1 && ok_out o2 && negb (Nat.eqb (fst o1) (fst o2))) 31) (fun _ =>
        Ok (set_varied (set_varied st2 o1) o2, [fst o1; fst o2], evs2)))))
      | _ => Mismatch 32
      end
    else
      (* aspirant = toolbox.clone(toolbox.select(population, 1)[0]) *)
      match evs1 with
      | ESelect arg k idxs :: EClone s1 c1 :: evs2 =>
        bind (guard (uid_list_eqb arg pop && Nat.eqb k 1 && Nat.eqb (length idxs) 1
                     && forallb (fun i => i <? length pop)%nat idxs
                     && uid_list_eqb (select_by pop idxs) [s1]) 40) (fun _ =>
        bind (clone st s1 c1) (fun st1 =>
        if Qltb (opRandom - cxpb) mutpb then
          (* aspirant = toolbox.mutate(aspirant)[0]; del aspirant.fitness.values *)
          match evs2 with
          | EMutate i o :: evs3 =>
            bind (guard (Nat.eqb i c1 && (Nat.eqb (fst o) c1 || is_fresh st1 (fst o))) 41) (fun _ =>
            Ok (set_varied st1 o, [fst o], evs3))
          | _ => Mismatch 42
          end
        else Ok (st1, [c1], evs2)))
      | _ => Mismatch 43
      end
  | _ => Mismatch 50
  end.

(* _genpop(n, pickfrom, acceptfunc): `pick` is pickfrom reversed (pickfrom.pop() takes the last). *)
Fixpoint genpop (fuel : nat) (pop : list uid) (cxpb mutpb : Q) (n : nat) (use : bool)
         (st : store) (prod pick : list uid) (evs : list ev)
  : res (store * list uid * list uid * list ev) :=
  if (n <=? length prod)%nat then Ok (st, prod, pick, evs) else
  match fuel with
  | O => OutOfFuel
  | S fuel' =>
    match pick with
    | aspirant :: pick' =>
        bind (accept_push use prod aspirant evs) (fun '(prod1, evs1) =>
        genpop fuel' pop cxpb mutpb n use st prod1 pick' evs1)
    | [] =>
        bind (candidates pop cxpb mutpb st evs) (fun '(st1, cands, evs1) =>
        bind (accept_cands use n prod cands evs1) (fun '(prod1, evs2) =>
        genpop fuel' pop cxpb mutpb n use st1 prod1 [] evs2))
    end
  end.

(* harm, one generation:
     naturalpop, sizes = _genpop(nbrindsmodel, producesizes=True)
     [size histogram, cutoff, target distribution, acceptance probabilities: oracle]
     offspring = _genpop(len(population), pickfrom=naturalpop, acceptfunc=acceptfunc)
     evaluate invalid; halloffame.update(offspring); population[:] = offspring; record
   Every iteration of _genpop's while consumes at least one event, so S (length evs) is enough fuel. *)
Definition harm_offspring (cxpb mutpb : Q) (nbr : nat) (s : state) (evs : list ev)
  : res (store * list uid) :=
  let fuel := S (length evs) in
  let pop := s_pop s in
  match genpop fuel pop cxpb mutpb nbr false (s_st s) [] [] evs with
  | Ok (st1, naturalpop, _, evs1) =>
      match genpop fuel pop cxpb mutpb (length pop) true st1 [] (rev naturalpop) evs1 with
      | Ok (st2, offspring, _, []) => Ok (st2, offspring)
      | Ok (_, _, _, _ :: _) => Mismatch 60
      | Mismatch c => Mismatch c
      | OutOfFuel => OutOfFuel
      end
  | Mismatch c => Mismatch c
  | OutOfFuel => OutOfFuel
  end.

Definition step_harm (cxpb mutpb : Q) (nbr : nat) (gen : nat) (s : state) (evs : list ev) : res state :=
  match harm_offspring cxpb mutpb nbr s evs with
  | Ok (st2, offspring) => Ok (finish_gen gen s st2 offspring offspring)
  | Mismatch c => Mismatch c
  | OutOfFuel => OutOfFuel
  end.

Fixpoint run_harm (cxpb mutpb : Q) (nbr : nat) (gen : nat) (s : state) (l : list (list ev)) : res state :=
  match l with
  | [] => Ok s
  | evs :: r =>
      match step_harm cxpb mutpb nbr gen s evs with
      | Ok s' => run_harm cxpb mutpb nbr (S gen) s' r
      | Mismatch c => Mismatch c
      | OutOfFuel => OutOfFuel
      end
  end.

(* nbrindsmodel == -1 means max(2000, len(population)) *)
Definition harm_nbr (given : Z) (pop : list uid) : nat :=
  if (given =? -1)%Z then Nat.max 2000 (length pop) else Z.to_nat given.

Definition ea_harm (cxpb mutpb : Q) (nbrindsmodel : Z) (st : store) (pop : list uid) (l : list (list ev)) : res state :=
  run_harm cxpb mutpb (harm_nbr nbrindsmodel pop) 1 (gen0 (init st pop)) l.

End Loops.

Arguments mkind {G F} geno fit.
Arguments geno {G F} i.
Arguments fit {G F} i.
Arguments mkans {G F} a_sel a_off.
Arguments a_sel {G F} a.
Arguments a_off {G F} a.
Arguments EDraw {G} u.
Arguments ESelect {G} arg k idxs.
Arguments EClone {G} src dst.
Arguments EMate {G} i1 i2 o1 o2.
Arguments EMutate {G} i o.
Arguments EAccept {G} x d.
