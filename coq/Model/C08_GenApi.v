(* The regenerated methods (coq/Gen/C08_gen.v, written by harness/c08_py2coq.py on every run) packaged exactly
   like the hand models: operation histories on the value-level archive (apply_op / trace / hof_run / pf_run of
   Model/C08_Archive.v) and on the heap-level archive (h_apply / h_trace of Model/C08_Heap.v).  Definitions
   only; Proofs/C08_gen_equiv.v proves them equal to the hand models, Corr/C08_gen.v evaluates them. *)
From Coq Require Import List ZArith Bool.
From DV Require Import Base.PyTuple Base.PyList Model.C08_Archive Model.C08_Heap Model.C08_GenRt Gen.C08_gen.
Import ListNotations.
Local Open Scope Z_scope.

Section Value.
  Variable ind : Type.
  Variable fitness : ind -> list Z.
  Variable similar : ind -> ind -> bool.
  Local Notation VWi := (VW ind fitness similar).

  Definition gen_apply_op (kind : option Z) (h : hof ind) (o : op ind) : option (hof ind) :=
    match o with
    | OUpdate p => match kind with
                   | Some m => run_u (@gen_hof_update VWi m p) h
                   | None => run_u (@gen_pf_update VWi p) h
                   end
    | OInsert x => run_u (@gen_insert VWi x) h
    | ORemove i => run_u (@gen_remove VWi i) h
    | OClear => run_u (@gen_clear VWi) h
    end.

  Fixpoint gen_trace (kind : option Z) (h : hof ind) (ops : list (op ind)) : list (option (hof ind)) :=
    match ops with
    | [] => []
    | o :: r => match gen_apply_op kind h o with
                | None => [None]
                | Some h' => Some h' :: gen_trace kind h' r
                end
    end.

  Definition gen_hof_run_from (maxsize : Z) (h0 : hof ind) (batches : list (list ind)) : option (hof ind) :=
    fold_left (fun o b => match o with None => None | Some h => run_u (@gen_hof_update VWi maxsize b) h end)
              batches (Some h0).
  Definition gen_pf_run_from (h0 : hof ind) (batches : list (list ind)) : option (hof ind) :=
    fold_left (fun o b => match o with None => None | Some h => run_u (@gen_pf_update VWi b) h end)
              batches (Some h0).
  Definition gen_hof_run (maxsize : Z) := gen_hof_run_from maxsize empty.
  Definition gen_pf_run := gen_pf_run_from empty.
End Value.

Section HeapLevel.
  Variable sim : obj -> obj -> bool.
  Local Notation HWi := (HW sim).

  Definition gen_h_apply (kind : option Z) (s : heap * harch) (o : hop) : option (heap * harch) :=
    match o with
    | HSet l ob => Some (set_nth (fst s) l ob, snd s)
    | HUpdate p => match kind with
                   | Some m => run_u (@gen_hof_update HWi m p) s
                   | None => run_u (@gen_pf_update HWi p) s
                   end
    | HInsert x => run_u (@gen_insert HWi x) s
    | HRemove i => run_u (@gen_remove HWi i) s
    | HClear => run_u (@gen_clear HWi) s
    end.

  Fixpoint gen_h_trace (kind : option Z) (s : heap * harch) (hops : list hop) : list (option (heap * harch)) :=
    match hops with
    | [] => []
    | o :: r => match gen_h_apply kind s o with
                | None => [None]
                | Some s' => Some s' :: gen_h_trace kind s' r
                end
    end.
End HeapLevel.
