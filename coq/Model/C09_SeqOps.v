(* Model of the discrete operators of deap/tools/crossover.py and deap/tools/mutation.py
   (cxOnePoint, cxTwoPoint, cxUniform, cxPartialyMatched, cxUniformPartialyMatched, cxOrdered,
   cxMessyOnePoint, cxESTwoPoint, mutShuffleIndexes, mutFlipBit, mutUniformInt, mutInversion).

   Individuals are Coq lists standing for the *contents* of the Python sequence objects; each
   operator returns the new contents of the very objects it was given (the code mutates in
   place and returns its arguments; the harness observes identity separately).  The two
   individuals are distinct objects.  Every random.* call is a draw consumed from a recorded,
   typed stream; a draw of the wrong kind or with other arguments than the code passes is
   `Mismatch`.  Element reads/writes go through py_get/py_set (negative indices, IndexError),
   slices through py_slice/py_slice_assign, exactly as the Python statements do.
   This file contains definitions only. *)
From Coq Require Import List ZArith QArith Bool.
From DV Require Import Base.PyList.
Import ListNotations.
Local Open Scope Z_scope.

Inductive exn := ValueError | IndexError.

Inductive outcome (R : Type) :=
| Ok (r : R)
| Raise (e : exn)
| Mismatch.
Arguments Ok {R} r.
Arguments Raise {R} e.
Arguments Mismatch {R}.

(* one recorded call of the random module; result None = the call raised ValueError *)
Inductive draw :=
| DRandom (u : Q)                              (* random.random() *)
| DRandint (lo hi : Z) (r : option Z)          (* random.randint(lo, hi) *)
| DRandrange (n : Z) (r : option Z)            (* random.randrange(n) *)
| DSample2 (n : Z) (r : option (Z * Z)).       (* random.sample(range(n), 2) *)

(* what CPython's random module guarantees about a recorded call (trusted) *)
Definition draw_ok (d : draw) : Prop :=
  match d with
  | DRandom u => (0 <= u)%Q /\ (u < 1)%Q
  | DRandint lo hi (Some v) => lo <= v <= hi
  | DRandint lo hi None => hi < lo
  | DRandrange n (Some v) => 0 <= v < n
  | DRandrange n None => n <= 0
  | DSample2 n (Some (a, b)) => 0 <= a < n /\ 0 <= b < n /\ a <> b
  | DSample2 n None => n < 2
  end.

(* ---- state-and-error monad over the draw stream ---- *)
Definition M (R : Type) := list draw -> outcome (R * list draw).
Definition ret {R} (x : R) : M R := fun ds => Ok (x, ds).
Definition bind {R S} (m : M R) (f : R -> M S) : M S :=
  fun ds => match m ds with
            | Ok (x, ds') => f x ds'
            | Raise e => Raise e
            | Mismatch => Mismatch
            end.
Definition raise {R} (e : exn) : M R := fun _ => Raise e.
Definition lift {R} (o : option R) : M R :=
  match o with Some x => ret x | None => raise IndexError end.

Notation "x <- m ;; f" := (bind m (fun x => f)) (at level 61, m at next level, right associativity).
Notation "' p <- m ;; f" := (bind m (fun x => let p := x in f))
  (at level 61, p pattern, m at next level, right associativity).

Definition random : M Q := fun ds =>
  match ds with DRandom u :: r => Ok (u, r) | _ => Mismatch end.
Definition randint (lo hi : Z) : M Z := fun ds =>
  match ds with
  | DRandint lo' hi' res :: r =>
      if (lo' =? lo) && (hi' =? hi)
      then match res with Some v => Ok (v, r) | None => Raise ValueError end
      else Mismatch
  | _ => Mismatch
  end.
Definition randrange (n : Z) : M Z := fun ds =>
  match ds with
  | DRandrange n' res :: r =>
      if n' =? n then match res with Some v => Ok (v, r) | None => Raise ValueError end else Mismatch
  | _ => Mismatch
  end.
Definition sample2 (n : Z) : M (Z * Z) := fun ds =>
  match ds with
  | DSample2 n' res :: r =>
      if n' =? n then match res with Some v => Ok (v, r) | None => Raise ValueError end else Mismatch
  | _ => Mismatch
  end.

(* run to completion: the whole recorded stream must be consumed *)
Definition run {R} (m : M R) (ds : list draw) : outcome R :=
  match m ds with
  | Ok (r, []) => Ok r
  | Ok (_, _ :: _) => Mismatch
  | Raise e => Raise e
  | Mismatch => Mismatch
  end.

(* "for every random seed": over every stream of recorded calls consistent with the random
   module's contract the operator never raises, and whatever it returns satisfies Q
   (Mismatch = the stream is not one this code can have produced) *)
Definition always {R} (m : M R) (Q : R -> Prop) : Prop :=
  forall ds, Forall draw_ok ds ->
  match run m ds with Ok r => Q r | Raise _ => False | Mismatch => True end.

(* error branch: the operator can only fail with exception e *)
Definition only_raises {R} (m : M R) (e : exn) : Prop :=
  forall ds, Forall draw_ok ds -> run m ds = Raise e \/ run m ds = Mismatch.

(* `for i in idx: s = body(i, s)` *)
Fixpoint for_each {I S} (idx : list I) (body : I -> S -> M S) (s : S) : M S :=
  match idx with
  | [] => ret s
  | i :: r => s' <- body i s;; for_each r body s'
  end.

Definition getI {A} (l : list A) (i : Z) : M A := lift (py_get l i).
Definition setI {A} (l : list A) (i : Z) (v : A) : M (list A) := lift (py_set l i v).

(* u < indpb on the exact rational values of the two floats *)
Definition qltb (a b : Q) : bool := negb (Qle_bool b a).

Section Generic.
Context {A : Type}.

(* locus i of the children holds exactly the two parental genes of locus i
   (None = the individual has no locus i) *)
Definition kept_at (p1 p2 c1 c2 : list A) (i : nat) : Prop :=
  nth_error c1 i = nth_error p1 i /\ nth_error c2 i = nth_error p2 i.
Definition swapped_at (p1 p2 c1 c2 : list A) (i : nat) : Prop :=
  nth_error c1 i = nth_error p2 i /\ nth_error c2 i = nth_error p1 i.
Definition locus_ok (p1 p2 c1 c2 : list A) (i : nat) : Prop :=
  kept_at p1 p2 c1 c2 i \/ swapped_at p1 p2 c1 c2 i.

(* ind1[a:b], ind2[a:b] = ind2[a:b], ind1[a:b]   (b = None: open slice) *)
Definition swap_slices (ind1 ind2 : list A) (a1 a2 : Z) (b1 b2 : option Z) : list A * list A :=
  let r1 := py_slice ind2 (Some a2) b2 1 in
  let r2 := py_slice ind1 (Some a1) b1 1 in
  (py_slice_assign ind1 (Some a1) b1 r1, py_slice_assign ind2 (Some a2) b2 r2).

(* crossover.py:17-33 *)
Definition cxOnePoint (ind1 ind2 : list A) : M (list A * list A) :=
  let size := Z.min (zlen ind1) (zlen ind2) in
  cxpoint <- randint 1 (size - 1);;
  ret (swap_slices ind1 ind2 cxpoint cxpoint None None).

(* the cut-point adjustment shared by cxTwoPoint, cxESTwoPoint, cxPartialyMatched *)
Definition two_points (cxpoint1 cxpoint2 : Z) : Z * Z :=
  if cxpoint2 >=? cxpoint1 then (cxpoint1, cxpoint2 + 1) else (cxpoint2, cxpoint1).

(* crossover.py:36-59 *)
Definition cxTwoPoint (ind1 ind2 : list A) : M (list A * list A) :=
  let size := Z.min (zlen ind1) (zlen ind2) in
  cxpoint1 <- randint 1 size;;
  cxpoint2 <- randint 1 (size - 1);;
  let '(cxpoint1, cxpoint2) := two_points cxpoint1 cxpoint2 in
  ret (swap_slices ind1 ind2 cxpoint1 cxpoint1 (Some cxpoint2) (Some cxpoint2)).

(* ind1[i], ind2[i] = ind2[i], ind1[i] *)
Definition swap_at (i : Z) (s : list A * list A) : M (list A * list A) :=
  let '(ind1, ind2) := s in
  x2 <- getI ind2 i;;
  x1 <- getI ind1 i;;
  ind1 <- setI ind1 i x2;;
  ind2 <- setI ind2 i x1;;
  ret (ind1, ind2).

(* crossover.py:72-90 *)
Definition cxUniform (ind1 ind2 : list A) (indpb : Q) : M (list A * list A) :=
  let size := Z.min (zlen ind1) (zlen ind2) in
  for_each (py_range size)
    (fun i s => u <- random;; if qltb u indpb then swap_at i s else ret s)
    (ind1, ind2).

(* crossover.py:366-382 *)
Definition cxMessyOnePoint (ind1 ind2 : list A) : M (list A * list A) :=
  cxpoint1 <- randint 0 (zlen ind1);;
  cxpoint2 <- randint 0 (zlen ind2);;
  ret (swap_slices ind1 ind2 cxpoint1 cxpoint2 None None).

(* mutation.py:98-121 *)
Definition mutShuffleIndexes (individual : list A) (indpb : Q) : M (list A) :=
  let size := zlen individual in
  for_each (py_range size)
    (fun i individual =>
       u <- random;;
       if qltb u indpb then
         swap_indx <- randint 0 (size - 2);;
         let swap_indx := if swap_indx >=? i then swap_indx + 1 else swap_indx in
         x <- getI individual swap_indx;;
         y <- getI individual i;;
         individual <- setI individual i x;;
         individual <- setI individual swap_indx y;;
         ret individual
       else ret individual)
    individual.

(* mutation.py:176-201 *)
Definition mutInversion (individual : list A) : M (list A) :=
  let size := zlen individual in
  if size =? 0 then ret individual else
  index_one <- randrange size;;
  index_two <- randrange size;;
  let start_index := Z.min index_one index_two in
  let end_index := Z.max index_one index_two in
  let seg := py_slice (py_sub individual start_index end_index) None None (-1) in
  ret (py_slice_assign individual (Some start_index) (Some end_index) seg).

End Generic.

(* crossover.py:418-444; an ES individual = (genes, strategy) *)
Definition cxESTwoPoint {A B} (ind1 : list A * list B) (ind2 : list A * list B)
  : M ((list A * list B) * (list A * list B)) :=
  let size := Z.min (zlen (fst ind1)) (zlen (fst ind2)) in
  pt1 <- randint 1 size;;
  pt2 <- randint 1 (size - 1);;
  let '(pt1, pt2) := two_points pt1 pt2 in
  let '(g1, g2) := swap_slices (fst ind1) (fst ind2) pt1 pt1 (Some pt2) (Some pt2) in
  let '(s1, s2) := swap_slices (snd ind1) (snd ind2) pt1 pt1 (Some pt2) (Some pt2) in
  ret ((g1, s1), (g2, s2)).

(* ---- permutation operators: genes are Python ints used as indices ---- *)
Definition pmx_state := (list Z * list Z * list Z * list Z)%type.   (* ind1, ind2, p1, p2 *)

(* for i in range(size): p1[ind1[i]] = i; p2[ind2[i]] = i *)
Definition pmx_init (size : Z) (ind1 ind2 : list Z) : M (list Z * list Z) :=
  for_each (py_range size)
    (fun i '(p1, p2) =>
       v1 <- getI ind1 i;; p1 <- setI p1 v1 i;;
       v2 <- getI ind2 i;; p2 <- setI p2 v2 i;;
       ret (p1, p2))
    (repeat 0 (Z.to_nat size), repeat 0 (Z.to_nat size)).

(* the loop body shared by PMX and UPMX (crossover.py:131-138 / 175-182) *)
Definition pmx_step (i : Z) (s : pmx_state) : M pmx_state :=
  let '(ind1, ind2, p1, p2) := s in
  temp1 <- getI ind1 i;;
  temp2 <- getI ind2 i;;
  (* ind1[i], ind1[p1[temp2]] = temp2, temp1 *)
  ind1 <- setI ind1 i temp2;;
  j1 <- getI p1 temp2;;
  ind1 <- setI ind1 j1 temp1;;
  (* ind2[i], ind2[p2[temp1]] = temp1, temp2 *)
  ind2 <- setI ind2 i temp1;;
  j2 <- getI p2 temp1;;
  ind2 <- setI ind2 j2 temp2;;
  (* p1[temp1], p1[temp2] = p1[temp2], p1[temp1] *)
  a1 <- getI p1 temp2;;
  b1 <- getI p1 temp1;;
  p1 <- setI p1 temp1 a1;;
  p1 <- setI p1 temp2 b1;;
  (* p2[temp1], p2[temp2] = p2[temp2], p2[temp1] *)
  a2 <- getI p2 temp2;;
  b2 <- getI p2 temp1;;
  p2 <- setI p2 temp1 a2;;
  p2 <- setI p2 temp2 b2;;
  ret (ind1, ind2, p1, p2).

(* crossover.py:93-140 *)
Definition cxPartialyMatched (ind1 ind2 : list Z) : M (list Z * list Z) :=
  let size := Z.min (zlen ind1) (zlen ind2) in
  '(p1, p2) <- pmx_init size ind1 ind2;;
  cxpoint1 <- randint 0 size;;
  cxpoint2 <- randint 0 (size - 1);;
  let '(cxpoint1, cxpoint2) := two_points cxpoint1 cxpoint2 in
  '(ind1, ind2, _, _) <- for_each (py_range3 cxpoint1 cxpoint2 1) pmx_step (ind1, ind2, p1, p2);;
  ret (ind1, ind2).

(* crossover.py:143-184 *)
Definition cxUniformPartialyMatched (ind1 ind2 : list Z) (indpb : Q) : M (list Z * list Z) :=
  let size := Z.min (zlen ind1) (zlen ind2) in
  '(p1, p2) <- pmx_init size ind1 ind2;;
  '(ind1, ind2, _, _) <- for_each (py_range size)
      (fun i s => u <- random;; if qltb u indpb then pmx_step i s else ret s)
      (ind1, ind2, p1, p2);;
  ret (ind1, ind2).

(* crossover.py:187-237.  temp1/temp2 alias ind1/ind2, so every read below is a read of the
   list being written. *)
Definition ox_holes (size a b : Z) (ind1 ind2 : list Z) : M (list bool * list bool) :=
  for_each (py_range size)
    (fun i '(holes1, holes2) =>
       if (i <? a) || (i >? b) then
         v2 <- getI ind2 i;; holes1 <- setI holes1 v2 false;;
         v1 <- getI ind1 i;; holes2 <- setI holes2 v1 false;;
         ret (holes1, holes2)
       else ret (holes1, holes2))
    (repeat true (Z.to_nat size), repeat true (Z.to_nat size)).

(* one `if not holes[temp[(i + b + 1) % size]]: ind[k % size] = temp[(i + b + 1) % size]; k += 1` *)
Definition ox_move (size b i : Z) (holes : list bool) (s : list Z * Z) : M (list Z * Z) :=
  let '(ind, k) := s in
  x <- getI ind ((i + b + 1) mod size);;
  h <- getI holes x;;
  if negb h then
    y <- getI ind ((i + b + 1) mod size);;
    ind <- setI ind (k mod size) y;;
    ret (ind, k + 1)
  else ret (ind, k).

Definition cxOrdered (ind1 ind2 : list Z) : M (list Z * list Z) :=
  let size := Z.min (zlen ind1) (zlen ind2) in
  '(a, b) <- sample2 size;;
  let '(a, b) := if a >? b then (b, a) else (a, b) in
  '(holes1, holes2) <- ox_holes size a b ind1 ind2;;
  '(s1, s2) <- for_each (py_range size)
      (fun i '(s1, s2) =>
         s1 <- ox_move size b i holes1 s1;;
         s2 <- ox_move size b i holes2 s2;;
         ret (s1, s2))
      ((ind1, b + 1), (ind2, b + 1));;
  for_each (py_range3 a (b + 1) 1) swap_at (fst s1, fst s2).

(* ---- mutFlipBit: genes carry their Python type ---- *)
Inductive gene :=
| GInt (z : Z)        (* int, numpy integer scalar, array.array item *)
| GBool (b : bool)    (* bool *)
| GFloat (z : Z).     (* float with an integer value z *)

Definition truthy (g : gene) : bool :=
  match g with GInt z => negb (z =? 0) | GBool b => b | GFloat z => negb (z =? 0) end.

(* type(x)(not x) *)
Definition flip_gene (g : gene) : gene :=
  let nb := negb (truthy g) in
  match g with
  | GInt _ => GInt (if nb then 1 else 0)
  | GBool _ => GBool nb
  | GFloat _ => GFloat (if nb then 1 else 0)
  end.

Definition same_type (g h : gene) : Prop :=
  match g, h with GInt _, GInt _ => True | GBool _, GBool _ => True | GFloat _, GFloat _ => True | _, _ => False end.

(* a bit: 0 / 1 of one of the three types; its complement *)
Definition is_bit (g : gene) : Prop :=
  match g with GInt z => z = 0 \/ z = 1 | GBool _ => True | GFloat z => z = 0 \/ z = 1 end.
Definition complement (g : gene) : gene :=
  match g with GInt z => GInt (1 - z) | GBool b => GBool (negb b) | GFloat z => GFloat (1 - z) end.

(* mutation.py:124-142 *)
Definition mutFlipBit (individual : list gene) (indpb : Q) : M (list gene) :=
  for_each (py_range (zlen individual))
    (fun i individual =>
       u <- random;;
       if qltb u indpb then
         x <- getI individual i;;
         setI individual i (flip_gene x)
       else ret individual)
    individual.

(* ---- mutUniformInt: low / up are an int or a sequence of ints ---- *)
Inductive bound := BScalar (z : Z) | BSeq (l : list Z).

(* `if not isinstance(b, Sequence): b = repeat(b, size) elif len(b) < size: raise IndexError` *)
Definition expand_bound (b : bound) (size : Z) : M (list Z) :=
  match b with
  | BScalar z => ret (repeat z (Z.to_nat size))
  | BSeq l => if zlen l <? size then raise IndexError else ret l
  end.

(* the bound that applies to gene i; a sequence must cover the individual *)
Definition bound_at (b : bound) (i : nat) : Z :=
  match b with BScalar z => z | BSeq l => nth i l 0 end.
Definition bound_covers (b : bound) (n : nat) : Prop :=
  match b with BScalar _ => True | BSeq l => (n <= length l)%nat end.

(* mutation.py:145-173 *)
Definition mutUniformInt (individual : list Z) (low up : bound) (indpb : Q) : M (list Z) :=
  let size := zlen individual in
  low <- expand_bound low size;;
  up <- expand_bound up size;;
  for_each (zip (py_range size) (zip low up))
    (fun '(i, (xl, xu)) individual =>
       u <- random;;
       if qltb u indpb then
         v <- randint xl xu;;
         setI individual i v
       else ret individual)
    individual.
